//! Deviation-bounded stateless exploration of choice sequences.
//!
//! A *scenario run* is a deterministic function of the sequence of answers a [Chooser] gives
//! at its choice points. Choice 0 is always the default (no deviation). The explorer runs a
//! prefix, lets every later choice point take its default, then - for every later choice point
//! whose alternatives still fit the deviation budget - recurses on each alternative. All
//! executions run to completion (their own horizon); the bound is on deviations, never on depth.

use std::time::Instant;

#[derive(Clone, Debug)]
pub struct ChoicePoint {
    pub label: &'static str,
    pub n: u32,
    pub chosen: u32,
}

#[derive(Clone, Debug, Default)]
pub struct Chooser {
    prefix: Vec<u32>,
    pub trace: Vec<ChoicePoint>,
}

impl Chooser {
    pub fn new(prefix: Vec<u32>) -> Self {
        Chooser {
            prefix,
            trace: vec![],
        }
    }

    /// The default chooser: every choice point takes alternative 0.
    pub fn default_run() -> Self {
        Chooser::new(vec![])
    }

    pub fn choose(&mut self, label: &'static str, n: u32) -> u32 {
        assert!(n >= 1);
        let pos = self.trace.len();
        let chosen = if pos < self.prefix.len() {
            self.prefix[pos]
        } else {
            0
        };
        // Divergence while replaying a prefix is a machinery error, never a verdict.
        assert!(
            chosen < n,
            "MACHINERY: replayed choice {chosen} out of range {n} at point {pos} ({label})"
        );
        self.trace.push(ChoicePoint { label, n, chosen });
        chosen
    }

    pub fn choices(&self) -> Vec<u32> {
        self.trace.iter().map(|c| c.chosen).collect()
    }

    pub fn prefix_fully_consumed(&self) -> bool {
        self.trace.len() >= self.prefix.len()
    }
}

#[derive(Clone, Debug, Default)]
pub struct ExploreStats {
    pub executions: u64,
    pub choice_points: u64,
    pub max_choice_points: u64,
    pub deviations_bound: u32,
    pub capped: bool,
    /// executions per number of deviations used
    pub by_deviations: Vec<u64>,
}

pub struct Explorer {
    pub bound: u32,
    /// (index, count): only first-level alternatives with `ordinal % count == index` are
    /// descended into; the default run is always executed (and reported by shard 0 only).
    pub shard: (usize, usize),
    pub deadline: Option<Instant>,
    pub max_executions: Option<u64>,
    pub stats: ExploreStats,
    /// Skip alternatives at choice points for which this returns false (label, index in trace).
    pub stop: bool,
}

impl Explorer {
    pub fn new(bound: u32, shard: (usize, usize)) -> Self {
        Explorer {
            bound,
            shard,
            deadline: None,
            max_executions: None,
            stats: ExploreStats {
                deviations_bound: bound,
                by_deviations: vec![0; bound as usize + 1],
                ..Default::default()
            },
            stop: false,
        }
    }

    /// `run` executes the scenario under the given chooser and returns it back (with its
    /// trace) after checking its oracle; it returns `false` to stop the exploration (violation).
    /// `report` tells `run` whether this execution's results should be counted (the default
    /// run is re-executed by every shard but counted once).
    pub fn explore(&mut self, run: &mut dyn FnMut(Chooser, bool) -> (Chooser, bool)) {
        let ordinal = &mut 0usize;
        self.rec(vec![], 0, run, ordinal);
    }

    fn over_budget(&mut self) -> bool {
        if let Some(d) = self.deadline {
            if Instant::now() > d {
                self.stats.capped = true;
                return true;
            }
        }
        if let Some(m) = self.max_executions {
            if self.stats.executions >= m {
                self.stats.capped = true;
                return true;
            }
        }
        false
    }

    fn rec(
        &mut self,
        prefix: Vec<u32>,
        used: u32,
        run: &mut dyn FnMut(Chooser, bool) -> (Chooser, bool),
        ordinal: &mut usize,
    ) {
        if self.stop || self.over_budget() {
            return;
        }
        let top = prefix.is_empty();
        let count_it = !top || self.shard.0 == 0;
        let plen = prefix.len();
        let (chooser, ok) = run(Chooser::new(prefix), count_it);
        assert!(
            chooser.prefix_fully_consumed(),
            "MACHINERY: execution ended before its replayed prefix was consumed"
        );
        if count_it {
            self.stats.executions += 1;
            self.stats.by_deviations[used as usize] += 1;
            self.stats.choice_points += chooser.trace.len() as u64;
            self.stats.max_choice_points = self.stats.max_choice_points.max(chooser.trace.len() as u64);
        }
        if !ok {
            self.stop = true;
            return;
        }
        if used >= self.bound {
            return;
        }
        let choices = chooser.choices();
        for i in plen..chooser.trace.len() {
            for alt in 1..chooser.trace[i].n {
                if top {
                    let o = *ordinal;
                    *ordinal += 1;
                    if o % self.shard.1 != self.shard.0 {
                        continue;
                    }
                }
                let mut p = choices[..i].to_vec();
                p.push(alt);
                self.rec(p, used + 1, run, ordinal);
                if self.stop {
                    return;
                }
            }
        }
    }
}
