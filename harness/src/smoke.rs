//! Determinism smoke test: a small network of real nodes, run twice, identical datagram traces.
use std::hash::{Hash, Hasher};
use std::net::SocketAddrV4;

use crate::explore::Chooser;
use crate::sim::*;

fn smoke(n_servers: usize) -> (u64, u64, u64) {
    let mut w = World::new(Chooser::default_run());
    let mut boots: Vec<SocketAddrV4> = vec![];
    for i in 0..n_servers {
        let cfg = NodeCfg::new([8, 8, i as u8 + 1, 1], 6881).server().bootstrap(&boots);
        let n = w.add_node(cfg);
        if i == 0 {
            boots.push(w.node_addr(n));
        }
        let c = w.call_bootstrapped(n);
        let h = w.now + 60 * SEC;
        assert!(w.run_calls(&[c], h), "bootstrapped() did not return");
    }
    let a = w.add_node(NodeCfg::new([9, 9, 9, 1], 7000).bootstrap(&boots));
    let b = w.add_node(NodeCfg::new([9, 9, 9, 2], 7000).bootstrap(&boots));
    let c1 = w.call_bootstrapped(a);
    let c2 = w.call_bootstrapped(b);
    let h = w.now + 60 * SEC;
    assert!(w.run_calls(&[c1, c2], h));
    let put = w.call_put_immutable(a, b"hello world".to_vec());
    let h = w.now + 60 * SEC;
    assert!(w.run_calls(&[put], h));
    let target = match w.result(put) {
        Some(CallResult::Put(Ok(id))) => *id,
        r => panic!("put: {r:?}"),
    };
    let get = w.call_get_immutable(b, target);
    let h = w.now + 60 * SEC;
    assert!(w.run_calls(&[get], h));
    match w.result(get) {
        Some(CallResult::Bytes(Some(v))) => assert_eq!(v, b"hello world"),
        r => panic!("get: {r:?}"),
    };
    let mut hsh = std::collections::hash_map::DefaultHasher::new();
    for (d, f) in w.sent() {
        d.hash(&mut hsh);
        f.hash(&mut hsh);
    }
    (hsh.finish(), w.steps, w.now - T0)
}

pub fn run() {
    pin_to_core(0);
    for n in [1usize, 3, 5, 10] {
        let t = std::time::Instant::now();
        let a = smoke(n);
        let el = t.elapsed();
        let b = smoke(n);
        assert_eq!(a, b, "nondeterministic replay");
        println!(
            "smoke n={n} digest={:x} steps={} vtime={}ms wall={:?}",
            a.0,
            a.1,
            a.2 / MS,
            el
        );
    }
}
