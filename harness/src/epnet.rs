//! Scripted endpoints: harness-owned addresses that speak KRPC through the independent
//! bencode writer. The default behaviour is an honest BEP5/44 node with a fixed id, a fixed
//! write token and a configurable view of the network; scenarios override single answers.

use std::collections::BTreeMap;
use std::net::{Ipv4Addr, SocketAddrV4};

use crate::bencode::B;
use crate::krpc::{self, Id20, Krpc};
use crate::sim::{Datagram, World};

#[derive(Clone, Debug, PartialEq, Eq)]
pub enum PutReply {
    Ack,
    Error(i64),
    Silent,
}

#[derive(Clone, Debug)]
pub struct PutSeen {
    pub at: u64,
    pub from: SocketAddrV4,
    pub token: Vec<u8>,
    pub q: String,
    pub target: Option<Id20>,
    pub tid: Vec<u8>,
    pub raw: Krpc,
    pub reply: PutReply,
}

#[derive(Clone, Debug)]
pub struct QuerySeen {
    pub at: u64,
    pub q: String,
    pub target: Option<Id20>,
    pub tid: Vec<u8>,
    pub ro: Option<i128>,
}

#[derive(Clone, Debug)]
pub struct Ep {
    pub addr: SocketAddrV4,
    pub id: Id20,
    pub token: Vec<u8>,
    /// Never answers anything.
    pub silent: bool,
    /// Hands out a token in replies to get/get_peers (a BEP5-only node would not for `get`).
    pub issue_token: bool,
    pub version: Option<[u8; 4]>,
    /// `ro` flag put on replies (None = key absent).
    pub ro: Option<i64>,
    /// `ro` flag put on the replies to writes only.
    pub ro_on_put_replies: Option<i64>,
    /// Other endpoints this one knows (indices into the net); None = all.
    pub knows: Option<Vec<usize>>,
    /// How many nodes it returns.
    pub k: usize,
    pub imm: BTreeMap<Id20, Vec<u8>>,
    /// target -> (k, seq, v, sig)
    pub mutable: BTreeMap<Id20, ([u8; 32], i64, Vec<u8>, Vec<u8>)>,
    pub peers: BTreeMap<Id20, Vec<SocketAddrV4>>,
    /// infohash -> 104-byte records
    pub signed: BTreeMap<Id20, Vec<Vec<u8>>>,
    pub put_reply: PutReply,
    pub puts: Vec<PutSeen>,
    pub queries: Vec<QuerySeen>,
    /// Whether accepted puts are stored and later served.
    pub store_puts: bool,
    /// Entries appended verbatim to every node list this endpoint returns.
    pub extra_listed: Vec<(Id20, SocketAddrV4)>,
    /// Lists its nodes farthest first (BEP5 does not prescribe an order).
    pub farthest_first: bool,
}

impl Ep {
    pub fn new(addr: SocketAddrV4, id: Id20) -> Ep {
        let mut token = b"tk".to_vec();
        token.extend_from_slice(&addr.port().to_be_bytes());
        Ep {
            addr,
            id,
            token,
            silent: false,
            issue_token: true,
            version: Some(krpc::VERSION_RS),
            ro: None,
            ro_on_put_replies: None,
            knows: None,
            k: 8,
            imm: BTreeMap::new(),
            mutable: BTreeMap::new(),
            peers: BTreeMap::new(),
            signed: BTreeMap::new(),
            put_reply: PutReply::Ack,
            puts: vec![],
            queries: vec![],
            store_puts: true,
            extra_listed: vec![],
            farthest_first: false,
        }
    }
}

pub struct EpNet {
    pub eps: Vec<Ep>,
    /// World endpoint index of eps[0] (endpoints are registered contiguously).
    pub base: usize,
}

pub fn pub_ip(i: usize) -> Ipv4Addr {
    Ipv4Addr::new(20 + (i / 250) as u8, 30, (i % 250) as u8 + 1, 7)
}

impl EpNet {
    /// Register `ids.len()` endpoints on distinct public IPs.
    pub fn new(w: &mut World, ids: &[Id20]) -> EpNet {
        let base = w.endpoints.len();
        let mut eps = vec![];
        for (i, id) in ids.iter().enumerate() {
            let addr = SocketAddrV4::new(pub_ip(i), 6881);
            let idx = w.add_endpoint(addr);
            assert_eq!(idx, base + i);
            eps.push(Ep::new(addr, *id));
        }
        EpNet { eps, base }
    }

    pub fn addrs(&self) -> Vec<SocketAddrV4> {
        self.eps.iter().map(|e| e.addr).collect()
    }

    pub fn index_of(&self, world_ep: usize) -> Option<usize> {
        world_ep.checked_sub(self.base).filter(|i| *i < self.eps.len())
    }

    /// Nodes endpoint `i` lists for `target`: the closest `k` of the endpoints it knows.
    pub fn closest_for(&self, i: usize, target: &Id20) -> Vec<(Id20, SocketAddrV4)> {
        let me = &self.eps[i];
        let mut v: Vec<(Id20, Id20, SocketAddrV4)> = self
            .eps
            .iter()
            .enumerate()
            .filter(|(j, _)| *j != i && me.knows.as_ref().map(|k| k.contains(j)).unwrap_or(true))
            .map(|(_, e)| (krpc::xor(&e.id, target), e.id, e.addr))
            .collect();
        v.sort();
        v.truncate(me.k);
        let mut out: Vec<(Id20, SocketAddrV4)> = v.into_iter().map(|(_, id, a)| (id, a)).collect();
        if me.farthest_first {
            out.reverse();
        }
        out.extend(me.extra_listed.iter().cloned());
        out
    }

    /// The honest reply bytes of endpoint `i` to query `q` from `from` (None = stays silent).
    pub fn honest_reply(&mut self, i: usize, q: &Krpc, from: SocketAddrV4, now: u64) -> Option<Vec<u8>> {
        let qname = q.q.clone().unwrap_or_default();
        let target = q.query_target();
        self.eps[i].queries.push(QuerySeen {
            at: now,
            q: qname.clone(),
            target,
            tid: q.t.clone(),
            ro: q.ro,
        });
        if self.eps[i].silent {
            return None;
        }
        let nodes = target.map(|t| self.closest_for(i, &t)).unwrap_or_default();
        let e = &mut self.eps[i];
        let mut r: Vec<(&'static str, B)> = vec![("id", B::bytes(e.id))];
        let with_token = |r: &mut Vec<(&'static str, B)>, e: &Ep| {
            if e.issue_token {
                r.push(("token", B::bytes(&e.token)));
            }
        };
        match qname.as_str() {
            "ping" => {}
            "find_node" => r.push(("nodes", B::bytes(krpc::compact_nodes(&nodes)))),
            "get_peers" => {
                with_token(&mut r, e);
                r.push(("nodes", B::bytes(krpc::compact_nodes(&nodes))));
                if let Some(p) = target.and_then(|t| e.peers.get(&t)) {
                    r.push(("values", B::List(p.iter().map(|a| B::bytes(krpc::compact_addr(a))).collect())));
                }
            }
            "get_signed_peers" => {
                with_token(&mut r, e);
                r.push(("nodes", B::bytes(krpc::compact_nodes(&nodes))));
                if let Some(p) = target.and_then(|t| e.signed.get(&t)) {
                    r.push(("peers", B::List(p.iter().map(B::bytes).collect())));
                }
            }
            "get" => {
                with_token(&mut r, e);
                r.push(("nodes", B::bytes(krpc::compact_nodes(&nodes))));
                let t = target?;
                let seq_filter = q.arg("seq").and_then(|s| s.as_int());
                if let Some(v) = e.imm.get(&t) {
                    r.push(("v", B::bytes(v)));
                } else if let Some((k, seq, v, sig)) = e.mutable.get(&t) {
                    r.push(("seq", B::Int(*seq as i128)));
                    if !seq_filter.map(|f| (*seq as i128) <= f).unwrap_or(false) {
                        r.push(("k", B::bytes(k)));
                        r.push(("sig", B::bytes(sig)));
                        r.push(("v", B::bytes(v)));
                    }
                }
            }
            "put" | "announce_peer" | "announce_signed_peer" => {
                let token = q.arg_bytes("token").unwrap_or(&[]).to_vec();
                let reply = e.put_reply.clone();
                e.puts.push(PutSeen {
                    at: now,
                    from,
                    token: token.clone(),
                    q: qname.clone(),
                    target,
                    tid: q.t.clone(),
                    raw: q.clone(),
                    reply: reply.clone(),
                });
                match reply {
                    PutReply::Silent => return None,
                    // every endpoint words its error differently (implementations do): only the code counts
                    PutReply::Error(c) => return Some(krpc::error(&q.t, c, &format!("scripted error, as worded by endpoint {i}"))),
                    PutReply::Ack => {
                        if e.store_puts {
                            if let Some(t) = target {
                                match qname.as_str() {
                                    "put" => {
                                        if let (Some(v), Some(k)) = (q.arg_bytes("v"), q.arg_bytes("k")) {
                                            if let (Ok(k), Some(seq), Some(sig)) = (<[u8; 32]>::try_from(k), q.arg("seq").and_then(|s| s.as_int()), q.arg_bytes("sig")) {
                                                e.mutable.insert(t, (k, seq as i64, v.to_vec(), sig.to_vec()));
                                            }
                                        } else if let Some(v) = q.arg_bytes("v") {
                                            e.imm.insert(t, v.to_vec());
                                        }
                                    }
                                    "announce_peer" => {
                                        let implied = q.arg("implied_port").and_then(|x| x.as_int()).map(|x| x != 0).unwrap_or(false);
                                        let port = if implied { from.port() } else { q.arg("port").and_then(|p| p.as_int()).unwrap_or(0) as u16 };
                                        e.peers.entry(t).or_default().push(SocketAddrV4::new(*from.ip(), port));
                                    }
                                    _ => {
                                        if let (Some(k), Some(sig), Some(ts)) = (q.arg_bytes("k"), q.arg_bytes("sig"), q.arg("t").and_then(|x| x.as_int())) {
                                            let mut rec = k.to_vec();
                                            rec.extend_from_slice(&(ts as i64 as u64).to_be_bytes());
                                            rec.extend_from_slice(sig);
                                            e.signed.entry(t).or_default().push(rec);
                                        }
                                    }
                                }
                            }
                        }
                    }
                }
            }
            _ => return None,
        }
        let mut top: Vec<(&'static str, B)> = vec![("r", B::dict(r)), ("t", B::bytes(&q.t)), ("y", B::bytes("r")), ("ip", B::bytes(krpc::compact_addr(&from)))];
        if let Some(v) = e.version {
            top.push(("v", B::bytes(v)));
        }
        let is_write = matches!(qname.as_str(), "put" | "announce_peer" | "announce_signed_peer");
        if let Some(ro) = e.ro.or(if is_write { e.ro_on_put_replies } else { None }) {
            top.push(("ro", B::Int(ro as i128)));
        }
        Some(crate::bencode::encode(&B::dict(top)))
    }

    /// Default handling of a datagram that reached endpoint `world_ep`: parse, answer honestly.
    /// Returns the parsed query (if it was one).
    pub fn handle(&mut self, w: &mut World, world_ep: usize, d: &Datagram) -> Option<Krpc> {
        let i = self.index_of(world_ep)?;
        let q = Krpc::parse(&d.bytes)?;
        if !q.is_query() {
            return Some(q);
        }
        if let Some(bytes) = self.honest_reply(i, &q, d.from, w.now) {
            let from = self.eps[i].addr;
            w.send_raw(from, d.from, bytes);
        }
        Some(q)
    }
}

/// Ids whose XOR distance to `target` increases with the index: id_i = target ^ (i+1) << shift,
/// placed in byte `byte` (so that ranks are unambiguous).
pub fn ranked_ids(target: &Id20, n: usize) -> Vec<Id20> {
    (0..n)
        .map(|i| {
            let mut id = *target;
            let v = (i + 1) as u16;
            id[2] ^= (v >> 8) as u8;
            id[3] ^= (v & 0xff) as u8;
            id[19] ^= 0x5a;
            id
        })
        .collect()
}
