//! vcheck-bin <ID> quick|thorough            run a check (parent; spawns pinned worker processes)
//! vcheck-bin --worker <ID> <tier> <i> <n> <out>   one shard
//! vcheck-bin --replay <ID> <file>            re-execute a recorded violation
//! vcheck-bin --smoke                         determinism smoke test of the simulator
//!
//! Exit codes: 0 held (possibly with KNOWN-FINDING lines), 1 VIOLATION, 2 machinery error.

use std::process::{exit, Command};
use std::time::Instant;

use serde_json::Value;
use vharness::checks::{self, CheckDef};
use vharness::report::{evidence_json, KnownFindings, Partial, Tier};

fn verif_dir() -> String {
    std::env::var("VERIF_ROOT").unwrap_or_else(|_| "/verif".to_string())
}

fn find(id: &str) -> CheckDef {
    match checks::all().into_iter().find(|c| c.id == id) {
        Some(c) => c,
        None => {
            eprintln!("MACHINERY: unknown check {id}");
            exit(2)
        }
    }
}

fn seed() -> u64 {
    std::env::var("VERIF_SEED")
        .ok()
        .and_then(|s| s.parse().ok())
        .unwrap_or(0)
}

fn run_sharded(def: &CheckDef, tier: Tier, shards: usize) -> (Partial, bool) {
    let exe = std::env::current_exe().expect("current exe");
    let dir = format!("{}/target/shards/{}-{}-{}", verif_dir(), def.id, tier.name(), std::process::id());
    let _ = std::fs::remove_dir_all(&dir);
    std::fs::create_dir_all(&dir).expect("shard dir");
    let mut children = vec![];
    for i in 0..shards {
        let out = format!("{dir}/{i}.json");
        let child = Command::new(&exe)
            .args(["--worker", def.id, tier.name(), &i.to_string(), &shards.to_string(), &out])
            .spawn()
            .expect("spawn worker");
        children.push((i, out, child));
    }
    let mut merged = Partial::default();
    let mut failed = false;
    for (i, out, mut child) in children {
        let st = child.wait().expect("wait");
        if !st.success() {
            eprintln!("MACHINERY: worker {i} of {} exited with {st}", def.id);
            failed = true;
            continue;
        }
        let txt = std::fs::read_to_string(&out).unwrap_or_default();
        match serde_json::from_str::<Value>(&txt).ok().and_then(|v| Partial::from_json(&v)) {
            Some(p) => merged.merge(p),
            None => {
                eprintln!("MACHINERY: worker {i} of {} wrote no valid result", def.id);
                failed = true;
            }
        }
    }
    let _ = std::fs::remove_dir_all(&dir);
    (merged, failed)
}

fn main() {
    checks::install_panic_hook();
    let args: Vec<String> = std::env::args().skip(1).collect();
    let a: Vec<&str> = args.iter().map(|s| s.as_str()).collect();
    match a.as_slice() {
        ["--smoke"] => {
            vharness::smoke::run();
        }
        ["--worker", id, tier, i, n, out] => {
            let def = find(id);
            let tier = Tier::parse(tier).expect("tier");
            let (i, n): (usize, usize) = (i.parse().expect("i"), n.parse().expect("n"));
            vharness::sim::claim_core(i % checks::cores(), checks::cores());
            let mut p = (def.run)(tier, i, n, seed());
            p.gauge_max("max_steps_in_one_world", vharness::sim::MAX_STEPS_IN_ONE_WORLD.load(std::sync::atomic::Ordering::SeqCst));
            std::fs::write(out, serde_json::to_string(&p.to_json()).expect("json")).expect("write");
        }
        ["--replay", id, file] => {
            let def = find(id);
            let txt = std::fs::read_to_string(file).unwrap_or_else(|e| {
                eprintln!("MACHINERY: cannot read {file}: {e}");
                exit(2)
            });
            let v: Value = serde_json::from_str(&txt).unwrap_or_else(|e| {
                eprintln!("MACHINERY: bad replay file: {e}");
                exit(2)
            });
            let replay = v.get("replay").cloned().unwrap_or(v);
            match (def.replay)(&replay) {
                Ok(Some(viol)) => {
                    println!("REPLAY reproduces: [{}] {}", viol.key, viol.desc);
                    println!("VIOLATION property={id} replay={file}");
                    exit(1)
                }
                Ok(None) => {
                    println!("REPLAY does not violate the property on this tree");
                    exit(0)
                }
                Err(e) => {
                    eprintln!("MACHINERY: replay failed: {e}");
                    exit(2)
                }
            }
        }
        [id, tier] => {
            let def = find(id);
            let Some(tier) = Tier::parse(tier) else {
                eprintln!("usage: vcheck-bin <ID> quick|thorough");
                exit(2)
            };
            let t0 = Instant::now();
            let shards = (def.shards)(tier);
            let (merged, worker_failed) = if shards <= 1 {
                match checks::catch(|| (def.run)(tier, 0, 1, seed())) {
                    Ok(p) => (p, false),
                    Err(e) => {
                        eprintln!("MACHINERY: check {id} panicked: {e}");
                        exit(2)
                    }
                }
            } else {
                run_sharded(&def, tier, shards)
            };
            let wall = t0.elapsed().as_secs_f64();
            let info = (def.info)(tier);

            // Vacuity guards (not meaningful when a worker died: its share is missing).
            let mut vacuous = false;
            for (w, n) in merged.witnesses.iter().filter(|_| !worker_failed) {
                if *n == 0 {
                    eprintln!("MACHINERY: vacuity witness never hit: {w}");
                    vacuous = true;
                }
            }

            let known = KnownFindings::load(&format!("{}/known_findings.json", verif_dir()));
            let mut known_hit = vec![];
            let mut fresh = vec![];
            for v in &merged.violations {
                match known.lookup(id, &v.key) {
                    Some(what) => {
                        println!("KNOWN-FINDING: property={id} [{}] {}", v.key, what);
                        known_hit.push(v.key.clone());
                    }
                    None => fresh.push(v),
                }
            }
            let rdir = format!("{}/replays/{id}", verif_dir());
            let mut lines = vec![];
            for v in &fresh {
                let _ = std::fs::create_dir_all(&rdir);
                let name: String = v
                    .key
                    .chars()
                    .map(|c| if c.is_ascii_alphanumeric() || c == '-' { c } else { '_' })
                    .collect();
                let path = format!("{rdir}/{name}.json");
                let body = serde_json::json!({"property": id, "key": v.key, "desc": v.desc, "replay": v.replay});
                let _ = std::fs::write(&path, serde_json::to_string_pretty(&body).expect("json"));
                println!("  violation [{}]: {}", v.key, v.desc);
                lines.push(format!("VIOLATION property={id} replay={path}"));
            }

            let ev = evidence_json(&info, tier, seed(), &merged, wall, fresh.len(), &known_hit);
            let _ = std::fs::create_dir_all(format!("{}/evidence", verif_dir()));
            std::fs::write(
                format!("{}/evidence/{id}.json", verif_dir()),
                serde_json::to_string_pretty(&ev).expect("json"),
            )
            .expect("write evidence");

            println!(
                "{id} {}: executions/evaluations={} states={} transitions={} distinct={} capped={} wall={:.1}s new_violations={} known={}",
                tier.name(),
                merged.count("executions").max(merged.count("evaluations")),
                (merged.digests.len() as u64).max(merged.count("states")),
                merged.count("transitions"),
                merged.outcomes.len().max(merged.count("distinct_nontrivial") as usize),
                merged.capped,
                wall,
                fresh.len(),
                known_hit.len()
            );
            for l in &lines {
                println!("{l}");
            }
            // a demonstrated violation (it has a replay file) stands whatever else went unexplored
            if !lines.is_empty() {
                exit(1);
            }
            if vacuous || worker_failed {
                exit(2);
            }
        }
        _ => {
            eprintln!("usage: vcheck-bin <ID> quick|thorough | --replay <ID> <file> | --smoke");
            exit(2)
        }
    }
}
