//! Harness-owned randomness: the `getrandom` custom backend.
//!
//! Every draw made by the crate under test ends up in [fill]. Draws are served from a
//! per-context stream: one stream per simulated node (so a node's draws never shift another
//! node's when the schedule changes), one for the harness thread, and a thread-local one for
//! explicit-state / enumeration engines that run without a world.
//!
//! A stream is `script` (whole draws, consumed only when the length matches) followed by a
//! counter-based generator.

use std::cell::RefCell;
use std::collections::VecDeque;

#[derive(Clone, Debug, Default, PartialEq, Eq, Hash)]
pub struct RngStream {
    pub seed: u64,
    pub counter: u64,
    pub script: VecDeque<Vec<u8>>,
    pub draws: u64,
}

fn splitmix(mut z: u64) -> u64 {
    z = z.wrapping_add(0x9E3779B97F4A7C15);
    z = (z ^ (z >> 30)).wrapping_mul(0xBF58476D1CE4E5B9);
    z = (z ^ (z >> 27)).wrapping_mul(0x94D049BB133111EB);
    z ^ (z >> 31)
}

impl RngStream {
    pub fn new(seed: u64) -> Self {
        RngStream {
            seed,
            counter: 0,
            script: VecDeque::new(),
            draws: 0,
        }
    }

    pub fn fill(&mut self, dest: &mut [u8]) {
        self.draws += 1;
        if let Some(front) = self.script.front() {
            if front.len() == dest.len() {
                dest.copy_from_slice(front);
                self.script.pop_front();
                return;
            }
        }
        for chunk in dest.chunks_mut(8) {
            let v = splitmix(self.seed ^ splitmix(self.counter));
            self.counter += 1;
            let b = v.to_le_bytes();
            chunk.copy_from_slice(&b[..chunk.len()]);
        }
    }
}

thread_local! {
    /// Stream used by threads in "local" mode (no world).
    pub static LOCAL_RNG: RefCell<RngStream> = RefCell::new(RngStream::new(0x5eed));
}

pub fn fill(dest: &mut [u8]) {
    crate::sim::rng_fill(dest)
}

/// The symbol getrandom 0.3 calls with `--cfg getrandom_backend="custom"`.
#[no_mangle]
unsafe extern "Rust" fn __getrandom_v03_custom(
    dest: *mut u8,
    len: usize,
) -> Result<(), getrandom::Error> {
    let slice = unsafe { std::slice::from_raw_parts_mut(dest, len) };
    fill(slice);
    Ok(())
}
