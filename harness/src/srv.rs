//! E2 machine for the storage server: state = a clone of the real `Server` + a boring
//! reference model, driven over wire bytes (independent encoder -> real decoder -> real
//! `Server::handle_request` -> real encoder -> independent reader).
//!
//! One machine serves C03 (authorised valid writes), C04 (seq/CAS), C15 (tokens) and the
//! capacity/LRU clause of C20; every violation key is prefixed with the property it belongs to
//! and each check keeps only its own.

use std::collections::BTreeMap;
use std::hash::{Hash, Hasher};
use std::net::{Ipv4Addr, SocketAddrV4};
use std::sync::Arc;

use dht::verif::{decode, encode, MessageType, Server, ServerSnapshot, WireMessage};
use dht::{RequestFilter, RequestSpecific, RoutingTable, ServerSettings};
use serde_json::json;

use crate::bfs::Machine;
use crate::krpc::{self, Id20, Krpc};
use crate::report::Partial;
use crate::rng::RngStream;
use crate::sim::{self, MIN, SEC, UNIX_BASE_MICROS};

// ---------------------------------------------------------------------------------------------
// Alphabet
// ---------------------------------------------------------------------------------------------

#[derive(Clone, Copy, Debug, PartialEq, Eq, Hash)]
pub enum Tok {
    /// Latest token this source *IP* received from this server.
    Fresh,
    /// Oldest remembered token for this source IP.
    Oldest,
    /// A token the server issued to another IP.
    OtherIp,
    /// A token issued by another server instance.
    Foreign,
    Empty,
    /// Latest own token with one byte changed.
    Mutated(u8),
    /// A 3- or 5-byte string derived from the latest own token.
    Resized(u8),
    /// A token anybody can compute without knowing the server's secrets: 0 = CRC32C(ip || 20 zero
    /// bytes), 1 = CRC32C(ip), 2 = CRC32C(ip || 20 x 0xff), 3 = the IP octets, 4 = four zero bytes
    /// (the construction is public; only the secrets make a token "issued by this node").
    Guess(u8),
    /// The latest token the server issued to the IP of the given source.
    Of(u8),
}

#[derive(Clone, Copy, Debug, PartialEq, Eq, Hash)]
pub enum Cas {
    None,
    /// Equal to the seq the model has stored (or `Fixed(0)` semantics on an empty slot).
    Match,
    /// Stored seq + 1 (a mismatch whenever something is stored).
    Mismatch,
    Fixed(i64),
}

#[derive(Clone, Copy, Debug, PartialEq, Eq, Hash)]
pub enum Sig {
    Valid,
    /// Signature bytes corrupted.
    Invalid,
    /// Valid signature, but the request's target is not SHA1(k || salt).
    WrongTarget,
    /// The (seq, signature) of the item currently stored under the target, replayed with the
    /// value of this action (a signature that does not cover the presented value).
    ReplayStored,
}

#[derive(Clone, Debug, PartialEq, Eq, Hash)]
pub enum Act {
    Get { src: u8, target: u8, seq: Option<i64> },
    GetPeers { src: u8, ih: u8 },
    GetSigned { src: u8, ih: u8 },
    /// v: 0 small, 1 = 1000 bytes, 2 = 1001 bytes, 3 = small but target is not its hash,
    /// 6 = other bytes presented under the target of value 0, 7 = 1001 bytes under that target
    PutImm { src: u8, v: u8, tok: Tok },
    /// salt: 0 none, 1 short, 2 = 64 bytes, 3 = 65 bytes; val: 0/1 small values, 2 = 1000 B, 3 = 1001 B
    PutMut { src: u8, key: u8, salt: u8, seq: i64, val: u8, cas: Cas, sig: Sig, tok: Tok },
    Announce { src: u8, ih: u8, port: u16, implied: Option<i64>, tok: Tok },
    /// dt: milliseconds added to the server's wall clock for the timestamp
    AnnounceSigned { src: u8, ih: u8, key: u8, dt: i64, sig_ok: bool, tok: Tok },
    /// A request that neither yields nor needs a token (ping / find_node).
    Other { src: u8, find_node: bool },
    Tick(u64),
}

pub const SOURCES: [([u8; 4], u16); 4] = [
    ([1, 1, 1, 1], 1000),
    ([1, 1, 1, 1], 2000),
    ([2, 2, 2, 2], 1000),
    // differs from source 0's IP in one low bit
    ([1, 1, 1, 0], 1000),
];

/// Sources beyond the four named ones (used to fill one info hash with more announcers than a
/// reply can carry): one IP each.
pub const N_SOURCES: usize = 96;

/// Sources 64..96: the 32 addresses that differ from source 0's IP in exactly one bit.
pub const NEIGHBOURS_FROM: u8 = 64;

pub fn src_addr(i: u8) -> SocketAddrV4 {
    if (i as usize) < SOURCES.len() {
        let (ip, port) = SOURCES[i as usize];
        SocketAddrV4::new(Ipv4Addr::from(ip), port)
    } else if i >= NEIGHBOURS_FROM {
        let base = u32::from_be_bytes(SOURCES[0].0);
        SocketAddrV4::new(Ipv4Addr::from(base ^ (1u32 << (i - NEIGHBOURS_FROM))), SOURCES[0].1)
    } else {
        SocketAddrV4::new(Ipv4Addr::new(3, 3, 3, i), 3000 + i as u16)
    }
}

fn requester_id(src: u8) -> Id20 {
    [0xA0 + src; 20]
}

fn infohash(i: u8) -> Id20 {
    [0x10 + i; 20]
}

fn imm_value(v: u8) -> Vec<u8> {
    match v {
        8 => vec![0x68; 1256],
        9 => vec![0x69; 1900],
        0 | 3 => b"small immutable value".to_vec(),
        6 => b"not the value of that target".to_vec(),
        7 => vec![0x65; 1001],
        1 => vec![0x61; 1000],
        2 => vec![0x62; 1001],
        n => vec![n; 7],
    }
}

fn mut_value(v: u8) -> Vec<u8> {
    match v {
        0 => b"a".to_vec(),
        1 => b"b".to_vec(),
        2 => vec![0x63; 1000],
        3 => vec![0x64; 1001],
        // 1000 + 256 and about the largest that fits a datagram
        4 => vec![0x65; 1256],
        _ => vec![0x66; 1700],
    }
}

fn salt_of(s: u8) -> Option<Vec<u8>> {
    match s {
        0 => None,
        1 => Some(b"s".to_vec()),
        2 => Some(vec![0x73; 64]),
        3 => Some(vec![0x74; 65]),
        // present but empty: shares its target with the unsalted slot
        4 => Some(vec![]),
        // lengths that look small in 8 bits
        5 => Some(vec![0x75; 256]),
        6 => Some(vec![0x76; 300]),
        _ => Some(vec![0x77; 320]),
    }
}

// ---------------------------------------------------------------------------------------------
// Reference model
// ---------------------------------------------------------------------------------------------

/// Exact LRU, most recently used first.
#[derive(Clone, Debug, PartialEq, Eq, Hash)]
pub struct Lru<K: Clone + PartialEq, V: Clone> {
    pub cap: usize,
    pub items: Vec<(K, V)>,
}

impl<K: Clone + PartialEq, V: Clone> Lru<K, V> {
    pub fn new(cap: usize) -> Self {
        Lru { cap, items: vec![] }
    }
    pub fn get(&mut self, k: &K) -> Option<&V> {
        let pos = self.items.iter().position(|(x, _)| x == k)?;
        let e = self.items.remove(pos);
        self.items.insert(0, e);
        Some(&self.items[0].1)
    }
    pub fn peek(&self, k: &K) -> Option<&V> {
        self.items.iter().find(|(x, _)| x == k).map(|(_, v)| v)
    }
    pub fn get_mut(&mut self, k: &K) -> Option<&mut V> {
        let pos = self.items.iter().position(|(x, _)| x == k)?;
        let e = self.items.remove(pos);
        self.items.insert(0, e);
        Some(&mut self.items[0].1)
    }
    pub fn put(&mut self, k: K, v: V) {
        if let Some(pos) = self.items.iter().position(|(x, _)| *x == k) {
            self.items.remove(pos);
        }
        self.items.insert(0, (k, v));
        self.items.truncate(self.cap);
    }
}

#[derive(Clone, Debug, PartialEq, Eq, Hash)]
pub struct MItem {
    pub key: [u8; 32],
    pub seq: i64,
    pub value: Vec<u8>,
    pub sig: Vec<u8>,
    pub salt: Option<Vec<u8>>,
}

#[derive(Clone, Debug, PartialEq, Eq, Hash)]
pub struct Issued {
    pub ip: Ipv4Addr,
    pub token: Vec<u8>,
    pub first: u64,
    pub last: u64,
}

#[derive(Clone, Debug, PartialEq, Eq, Hash)]
pub struct Model {
    pub imm: Lru<Id20, Vec<u8>>,
    pub mutable: Lru<Id20, MItem>,
    pub peers: Lru<Id20, Lru<Id20, SocketAddrV4>>,
    pub signed: Lru<Id20, Lru<[u8; 32], (u64, Vec<u8>)>>,
    pub peers_per_hash: usize,
    pub issued: Vec<Issued>,
    /// Instants at which the server handled (not filtered) a request.
    pub handled: Vec<u64>,
    /// Last accepted mutable item per target with the running count of accepted mutable puts
    /// to *other* targets since (for the "evicted by the capacity bound" tolerance).
    pub last_accepted: BTreeMap<Id20, MItem>,
    /// Highest seq ever accepted per target while it stayed resident (monotonicity witness).
    pub resident_seq: BTreeMap<Id20, i64>,
}

#[derive(Clone, Copy, Debug, PartialEq, Eq)]
pub enum TokVerdict {
    MustAccept,
    MustReject,
    Either,
}

impl Model {
    fn record_token(&mut self, ip: Ipv4Addr, token: &[u8], now: u64) {
        if let Some(i) = self.issued.iter_mut().find(|i| i.ip == ip && i.token == token) {
            i.last = now;
        } else {
            self.issued.push(Issued {
                ip,
                token: token.to_vec(),
                first: now,
                last: now,
            });
        }
    }

    /// What the statement (C03 "recently issued to the sender's IP", refined by C15) demands
    /// for a write presenting `token` from `ip` at `now`.
    pub fn token_verdict(&self, ip: Ipv4Addr, token: &[u8], now: u64) -> TokVerdict {
        let Some(iss) = self.issued.iter().find(|i| i.ip == ip && i.token == token) else {
            return TokVerdict::MustReject;
        };
        let age = now - iss.last;
        if age <= 5 * MIN {
            return TokVerdict::MustAccept;
        }
        // Largest gap between consecutive handled requests from the issue to now (both ends
        // count as requests: the issue was a request, and the presenting put is one).
        let mut times: Vec<u64> = self
            .handled
            .iter()
            .copied()
            .filter(|t| *t >= iss.last && *t <= now)
            .collect();
        times.push(iss.last);
        times.push(now);
        times.sort();
        let gap = times.windows(2).map(|w| w[1] - w[0]).max().unwrap_or(0);
        // "keeps receiving requests": a request in every 5-minute period
        // (a write accepted at time T implies T <= second rotation <= issue + 10 min + the delay of
        // the first rotation, which is at most one gap)
        if gap <= 5 * MIN && age > 10 * MIN + gap {
            return TokVerdict::MustReject;
        }
        TokVerdict::Either
    }
}

// ---------------------------------------------------------------------------------------------
// Configuration
// ---------------------------------------------------------------------------------------------

#[derive(Clone, Debug)]
pub struct VetoFilter {
    pub ip: Ipv4Addr,
}

impl RequestFilter for VetoFilter {
    fn allow_request(&self, _request: &RequestSpecific, from: SocketAddrV4) -> bool {
        *from.ip() != self.ip
    }
}

/// Vetoes every request from any of the listed IPs.
#[derive(Clone, Debug)]
pub struct VetoIps {
    pub ips: Vec<Ipv4Addr>,
}

impl RequestFilter for VetoIps {
    fn allow_request(&self, _request: &RequestSpecific, from: SocketAddrV4) -> bool {
        !self.ips.contains(from.ip())
    }
}

#[derive(Clone, Debug)]
pub struct SrvCfg {
    pub name: &'static str,
    pub alphabet: Vec<Act>,
    pub cap_values: usize,
    /// capacity of the mutable store when it differs from the immutable one's (`cap_values`)
    pub cap_mutable: Option<usize>,
    pub cap_hashes: usize,
    pub cap_peers: usize,
    pub veto_ip: Option<Ipv4Addr>,
    /// Actions executed before the search starts (so that it starts from a non-initial state
    /// in which every source already holds a token).
    pub prime: Vec<Act>,
    /// Which properties' clauses are reported (others are ignored by this run).
    pub properties: Vec<&'static str>,
}

#[derive(Clone)]
pub struct SrvState {
    pub cfg: Arc<SrvCfg>,
    pub server: Server,
    pub table: Arc<RoutingTable>,
    pub foreign_token: Arc<Vec<u8>>,
    pub now: u64,
    pub rng: RngStream,
    /// client memory: per source IP, remembered tokens (oldest first, at most 2)
    pub tokens: BTreeMap<Ipv4Addr, Vec<Vec<u8>>>,
    pub model: Model,
    pub tid: u32,
    /// When set, every exchange with the real server is recorded: (from, request bytes,
    /// reply bytes as produced by the real encoder or None).
    pub trace: Option<Vec<(SocketAddrV4, Vec<u8>, Option<Vec<u8>>)>>,
}

/// A full running node standing in for the `Server` clone: the same request histories, the
/// same reference model and the same oracle are then applied to the threaded node (actor loop,
/// socket layer, `Core::handle_request`) on the simulated network. Installed per thread by the
/// E1 binding (`checks::srvchecks::e1_replay`); the BFS itself never uses it.
pub trait Remote {
    /// Send one request datagram from `from`; returns the reply datagram, if any.
    fn exchange(&mut self, from: SocketAddrV4, bytes: &[u8]) -> Result<Option<Vec<u8>>, String>;
    fn snapshot(&mut self) -> ServerSnapshot;
    fn advance(&mut self, d: u64);
    fn now(&self) -> u64;
}

thread_local! {
    static REMOTE: std::cell::RefCell<Option<Box<dyn Remote>>> = const { std::cell::RefCell::new(None) };
}

/// Installs (or removes) the remote backend of this thread; returns the previous one.
pub fn set_remote(r: Option<Box<dyn Remote>>) -> Option<Box<dyn Remote>> {
    REMOTE.with(|c| std::mem::replace(&mut *c.borrow_mut(), r))
}

fn with_remote<R>(f: impl FnOnce(&mut dyn Remote) -> R) -> Option<R> {
    REMOTE.with(|c| c.borrow_mut().as_mut().map(|r| f(r.as_mut())))
}

fn keypair(i: u8) -> ed25519_dalek::SigningKey {
    krpc::signing_key(0x30 + i)
}

impl SrvState {
    pub fn new(cfg: SrvCfg) -> SrvState {
        sim::install_env();
        sim::enter_local(sim::T0, 0xC0FFEE);
        let settings = |veto: Option<Ipv4Addr>| {
            let mut s = ServerSettings {
                max_info_hashes: cfg.cap_hashes,
                max_peers_per_info_hash: cfg.cap_peers,
                max_immutable_values: cfg.cap_values,
                max_mutable_values: cfg.cap_mutable.unwrap_or(cfg.cap_values),
                ..Default::default()
            };
            if let Some(ip) = veto {
                s.filter = Box::new(VetoFilter { ip });
            }
            s
        };
        // A second server instance: the source of "tokens from another node".
        let mut other = Server::new(settings(None));
        let table = Arc::new(RoutingTable::new([0x5Eu8; 20].into()));
        let foreign = {
            let bytes = krpc::q_get(&[0, 0, 0, 1], &requester_id(0), &[9u8; 20], None);
            let m = decode(&bytes).expect("decode");
            let MessageType::Request(r) = m.message_type else { unreachable!() };
            let reply = other.handle_request(&table, &table, src_addr(0), r).expect("reply");
            let w = WireMessage {
                transaction_id: 1,
                version: None,
                requester_ip: None,
                message_type: reply,
                read_only: false,
            };
            Krpc::parse(&encode(&w).expect("encode"))
                .and_then(|k| k.res_bytes("token").map(|t| t.to_vec()))
                .expect("token")
        };
        let server = Server::new(settings(cfg.veto_ip));
        let rng = sim::local_get_rng();
        let cv = cfg.cap_values;
        let cvm = cfg.cap_mutable.unwrap_or(cfg.cap_values);
        let (ch, cp) = (cfg.cap_hashes, cfg.cap_peers);
        let prime = cfg.prime.clone();
        let mut st = SrvState {
            cfg: Arc::new(cfg),
            server,
            table,
            foreign_token: Arc::new(foreign),
            now: sim::T0,
            rng,
            tokens: BTreeMap::new(),
            model: Model {
                imm: Lru::new(cv),
                mutable: Lru::new(cvm),
                peers: Lru::new(ch),
                signed: Lru::new(ch),
                peers_per_hash: cp,
                issued: vec![],
                handled: vec![],
                last_accepted: BTreeMap::new(),
                resident_seq: BTreeMap::new(),
            },
            tid: 0,
            trace: None,
        };
        let mut sink = Partial::default();
        for a in prime {
            st.enter();
            st.apply(&a, &mut sink, &[0]);
        }
        // (what the priming steps themselves violate is reported by the caller, which runs them
        // once more through `replay_with_prime`)
        st
    }

    fn resolve_token(&self, src: u8, tok: Tok) -> Option<Vec<u8>> {
        let ip = *src_addr(src).ip();
        let own = self.tokens.get(&ip);
        match tok {
            Tok::Fresh => own.and_then(|v| v.last().cloned()),
            Tok::Oldest => own.filter(|v| v.len() >= 2).and_then(|v| v.first().cloned()),
            Tok::OtherIp => self
                .tokens
                .iter()
                .find(|(k, v)| **k != ip && !v.is_empty())
                .and_then(|(_, v)| v.last().cloned()),
            Tok::Foreign => Some(self.foreign_token.to_vec()),
            Tok::Empty => Some(vec![]),
            Tok::Mutated(byte) => own.and_then(|v| v.last().cloned()).map(|mut t| {
                let i = byte as usize % t.len().max(1);
                if !t.is_empty() {
                    t[i] ^= 0x01 << (byte % 8);
                }
                t
            }),
            Tok::Resized(n) => own.and_then(|v| v.last().cloned()).map(|mut t| {
                t.resize(n as usize, 0);
                t
            }),
            Tok::Of(other) => self.tokens.get(src_addr(other).ip()).and_then(|v| v.last().cloned()),
            Tok::Guess(k) => {
                let mut data = ip.octets().to_vec();
                Some(match k {
                    0 => {
                        data.extend_from_slice(&[0u8; 20]);
                        crate::krpc::crc32c(&data).to_be_bytes().to_vec()
                    }
                    1 => crate::krpc::crc32c(&data).to_be_bytes().to_vec(),
                    2 => {
                        data.extend_from_slice(&[0xffu8; 20]);
                        crate::krpc::crc32c(&data).to_be_bytes().to_vec()
                    }
                    3 => data,
                    _ => vec![0u8; 4],
                })
            }
        }
    }

    fn wall_micros(&self) -> u64 {
        UNIX_BASE_MICROS + self.now / 1000
    }

    /// Send bytes to the real server; returns the parsed reply (None = no reply).
    fn exchange(&mut self, from: SocketAddrV4, bytes: &[u8]) -> Result<Option<Krpc>, String> {
        let m = decode(bytes).map_err(|e| format!("harness request does not decode: {e}"))?;
        let tid = m.transaction_id;
        let MessageType::Request(req) = m.message_type else {
            return Err("not a request".into());
        };
        if let Some(r) = with_remote(|r| {
            let out = r.exchange(from, bytes);
            (out, r.now())
        }) {
            let (out, now) = r;
            self.now = now;
            sim::local_set_clock(self.now);
            let Some(out) = out? else { return Ok(None) };
            let k = Krpc::parse(&out).ok_or("the node's reply does not parse with the independent reader")?;
            if k.tid_u32() != Some(tid) {
                return Err("reply tid differs".into());
            }
            return Ok(Some(k));
        }
        let reply = self.server.handle_request(&self.table, &self.table, from, req);
        let Some(reply) = reply else {
            if let Some(t) = self.trace.as_mut() {
                t.push((from, bytes.to_vec(), None));
            }
            return Ok(None);
        };
        let w = WireMessage {
            transaction_id: tid,
            version: None,
            requester_ip: Some(from),
            message_type: reply,
            read_only: false,
        };
        let out = encode(&w).map_err(|e| format!("reply does not encode: {e}"))?;
        if let Some(t) = self.trace.as_mut() {
            t.push((from, bytes.to_vec(), Some(out.clone())));
        }
        let k = Krpc::parse(&out).ok_or("reply does not parse with the independent reader")?;
        if k.tid_u32() != Some(tid) {
            return Err("reply tid differs".into());
        }
        Ok(Some(k))
    }

    /// The stores and token secrets of the server under test (the node's, when a remote backend
    /// is installed).
    fn snap(&self) -> ServerSnapshot {
        with_remote(|r| r.snapshot()).unwrap_or_else(|| self.server.verif_snapshot())
    }

    fn want(&self, prop: &str) -> bool {
        self.cfg.properties.contains(&prop)
    }

    fn viol(&self, out: &mut Partial, prop: &'static str, key: &str, desc: String, path: &[u16]) {
        if self.want(prop) {
            let trace: Vec<String> = self.trace(path);
            out.violation(
                format!("{prop}:{key}"),
                format!("{desc}; history: {trace:?}"),
                json!({"cfg": self.cfg.name, "path": path}),
            );
        }
    }

    pub fn trace(&self, path: &[u16]) -> Vec<String> {
        path.iter()
            .skip(1)
            .map(|i| format!("{:?}", self.cfg.alphabet[*i as usize]))
            .collect()
    }

    /// Compare the real stores with the model (contents for C03/C04, sizes+order for C20).
    fn compare_stores(&self, snap: &ServerSnapshot, out: &mut Partial, path: &[u16]) {
        // --- capacities (C20)
        if snap.immutable.len() > snap.immutable_cap
            || snap.mutable.len() > snap.mutable_cap
            || snap.peers.len() > snap.peers_cap.0
            || snap.signed_peers.len() > snap.signed_peers_cap.0
            || snap.peers.iter().any(|(_, p)| p.len() > snap.peers_cap.1)
            || snap.signed_peers.iter().any(|(_, p)| p.len() > snap.signed_peers_cap.1)
        {
            self.viol(out, "C20", "store-exceeds-capacity", "a store holds more entries than its configured capacity".into(), path);
        }
        // --- exact LRU order and contents
        let imm_real: Vec<(Id20, Vec<u8>)> = snap.immutable.iter().map(|(t, v)| (*t.as_bytes(), v.clone())).collect();
        if imm_real != self.model.imm.items {
            let same_set = {
                let mut a = imm_real.clone();
                let mut b = self.model.imm.items.clone();
                a.sort();
                b.sort();
                a == b
            };
            if same_set {
                self.viol(out, "C20", "immutable-lru-order", "immutable store order differs from exact LRU".into(), path);
            } else {
                self.viol(out, "C20", "immutable-lru-contents", "immutable store contents differ from an exact LRU of accepted writes".into(), path);
                self.viol(out, "C03", "immutable-store-contents", format!("immutable store holds {:?} targets, model {:?}", imm_real.len(), self.model.imm.items.len()), path);
            }
        }
        let mut_real: Vec<(Id20, MItem)> = snap
            .mutable
            .iter()
            .map(|m| {
                (
                    *m.target.as_bytes(),
                    MItem { key: m.key, seq: m.seq, value: m.value.clone(), sig: m.signature.to_vec(), salt: m.salt.clone() },
                )
            })
            .collect();
        if mut_real != self.model.mutable.items {
            let same_set = {
                let mut a = mut_real.clone();
                let mut b = self.model.mutable.items.clone();
                a.sort_by(|x, y| x.0.cmp(&y.0));
                b.sort_by(|x, y| x.0.cmp(&y.0));
                a == b
            };
            if same_set {
                self.viol(out, "C20", "mutable-lru-order", "mutable store order differs from exact LRU".into(), path);
            } else {
                self.viol(out, "C20", "mutable-lru-contents", "mutable store contents differ from an exact LRU of accepted writes".into(), path);
            }
        }
        // every stored mutable item must be one that was accepted (C03) and seq never below
        // the resident maximum (C04)
        for (t, item) in &mut_real {
            match self.model.last_accepted.get(t) {
                Some(a) if a == item => {}
                _ => self.viol(out, "C04", "stored-item-not-last-accepted", format!("stored mutable item for target {} is not the last accepted one", crate::report::hex(&t[..4])), path),
            }
        }
        let peers_real: Vec<(Id20, Vec<(Id20, SocketAddrV4)>)> = snap
            .peers
            .iter()
            .map(|(h, p)| (*h.as_bytes(), p.iter().map(|(i, a)| (*i.as_bytes(), *a)).collect()))
            .collect();
        let peers_model: Vec<(Id20, Vec<(Id20, SocketAddrV4)>)> =
            self.model.peers.items.iter().map(|(h, l)| (*h, l.items.clone())).collect();
        if peers_real != peers_model {
            let norm = |v: &Vec<(Id20, Vec<(Id20, SocketAddrV4)>)>| {
                let mut v = v.clone();
                for e in v.iter_mut() {
                    e.1.sort();
                }
                v.sort();
                v
            };
            if norm(&peers_real) == norm(&peers_model) {
                self.viol(out, "C20", "peers-lru-order", "peer store order differs from exact LRU".into(), path);
            } else {
                self.viol(out, "C20", "peers-lru-contents", "peer store contents differ from an exact LRU of accepted announces".into(), path);
                self.viol(out, "C03", "peer-store-contents", format!("peer store differs from the accepted announces: real {peers_real:?} model {peers_model:?}"), path);
            }
        }
        let signed_real: Vec<(Id20, Vec<([u8; 32], (u64, Vec<u8>))>)> = snap
            .signed_peers
            .iter()
            .map(|(h, p)| (*h.as_bytes(), p.iter().map(|(k, t, s)| (*k, (*t, s.to_vec()))).collect()))
            .collect();
        let signed_model: Vec<(Id20, Vec<([u8; 32], (u64, Vec<u8>))>)> =
            self.model.signed.items.iter().map(|(h, l)| (*h, l.items.clone())).collect();
        if signed_real != signed_model {
            let norm = |v: &Vec<(Id20, Vec<([u8; 32], (u64, Vec<u8>))>)>| {
                let mut v = v.clone();
                for e in v.iter_mut() {
                    e.1.sort();
                }
                v.sort();
                v
            };
            if norm(&signed_real) == norm(&signed_model) {
                self.viol(out, "C20", "signed-peers-lru-order", "signed peer store order differs from exact LRU".into(), path);
            } else {
                self.viol(out, "C20", "signed-peers-lru-contents", "signed peer store contents differ from an exact LRU".into(), path);
                self.viol(out, "C03", "signed-peer-store-contents", "signed peer store differs from the accepted announcements".into(), path);
            }
        }
    }

    fn remember_token(&mut self, from: SocketAddrV4, reply: &Krpc) {
        if let Some(tok) = reply.res_bytes("token") {
            let ip = *from.ip();
            self.model.record_token(ip, tok, self.now);
            let v = self.tokens.entry(ip).or_default();
            if v.last().map(|l| l != tok).unwrap_or(true) {
                v.push(tok.to_vec());
                if v.len() > 2 {
                    v.remove(0);
                }
            }
        }
    }

    /// Classify a write's token; returns (verdict, defect code set contribution).
    fn token_check(&self, from: SocketAddrV4, token: &[u8]) -> TokVerdict {
        self.model.token_verdict(*from.ip(), token, self.now)
    }

    /// Shared handling of a write. `payload_defects` = error codes the payload alone
    /// justifies; `unspecified` = the statement leaves the outcome open; `touch` = a resident
    /// mutable target whose recency a *rejected* put may legitimately refresh (the server has
    /// to look the stored item up to compare seq/cas); `apply` updates the model on acceptance.
    #[allow(clippy::too_many_arguments)]
    fn do_write(
        &mut self,
        what: &'static str,
        from: SocketAddrV4,
        bytes: Vec<u8>,
        token: &[u8],
        payload_defects: Vec<i64>,
        unspecified: bool,
        touch: Option<Id20>,
        apply: &mut dyn FnMut(&mut Model),
        out: &mut Partial,
        path: &[u16],
    ) {
        let before = self.snap();
        let vetoed = self.cfg.veto_ip == Some(*from.ip());
        let verdict = self.token_check(from, token);
        let reply = match self.exchange(from, &bytes) {
            Ok(r) => r,
            Err(e) => {
                self.viol(out, "C03", &format!("{what}/machinery"), e, path);
                return;
            }
        };
        let after = self.snap();
        if vetoed {
            if reply.is_some() {
                self.viol(out, "C03", "filter/replied", format!("{what}: a vetoed request got a reply"), path);
            }
            if before != after {
                self.viol(out, "C03", "filter/state-changed", format!("{what}: a vetoed request changed server state"), path);
            }
            return;
        }
        if self.model.handled.last() != Some(&self.now) {
            self.model.handled.push(self.now);
        }
        let Some(reply) = reply else {
            self.viol(out, "C03", &format!("{what}/no-reply"), format!("{what}: no reply to a write"), path);
            return;
        };
        let accepted = reply.is_response();
        let code = reply.error().map(|e| e.0 as i64);
        let has_payload_defect = !payload_defects.is_empty();
        let mut allowed = payload_defects.clone();
        if verdict != TokVerdict::MustAccept {
            allowed.push(203);
        }
        if verdict == TokVerdict::MustReject {
            // no token of its own: 203 (C15). The payload checks that need no stored state may
            // come first (205/206/207), the seq/cas comparison with the stored item may not -
            // its answer tells an unauthorised sender which seq the node holds.
            allowed.retain(|c| *c != 301 && *c != 302);
        }
        let must_accept = verdict == TokVerdict::MustAccept && !has_payload_defect && !unspecified;
        let must_reject = verdict == TokVerdict::MustReject || has_payload_defect;
        let seq_conflict = payload_defects.contains(&301) || payload_defects.contains(&302);
        out.outcomes.insert(format!(
            "{what}:{}:{}",
            if accepted { "ok".to_string() } else { format!("e{}", code.unwrap_or(0)) },
            match verdict {
                TokVerdict::MustAccept => "tok+",
                TokVerdict::MustReject => "tok-",
                TokVerdict::Either => "tok?",
            }
        ));
        let token_prop: &'static str = if self.want("C15") && !self.want("C03") { "C15" } else { "C03" };
        if accepted {
            out.add("writes_accepted", 1);
            if must_reject {
                let (prop, key) = if !has_payload_defect {
                    (token_prop, format!("{what}/accepted-with-bad-token"))
                } else if seq_conflict {
                    ("C04", format!("{what}/accepted-despite-seq-or-cas-conflict"))
                } else {
                    ("C03", format!("{what}/accepted-invalid-payload"))
                };
                self.viol(out, prop, &key, format!("{what}: write accepted although it must be rejected (applicable error codes {allowed:?})"), path);
            }
            // keep the model in step with what the server now holds
            apply(&mut self.model);
        } else {
            out.add("writes_rejected", 1);
            if must_accept {
                // a valid write refused with a seq/cas code is a statement about C04's rules
                let prop = if code == Some(203) { token_prop } else if matches!(code, Some(301) | Some(302)) { "C04" } else { "C03" };
                self.viol(out, prop, &format!("{what}/rejected-valid-write-e{}", code.unwrap_or(0)), format!("{what}: a valid, authorised write was rejected with {code:?}"), path);
            } else if unspecified && !has_payload_defect {
                if !matches!(code, Some(203) | Some(301) | Some(302)) {
                    self.viol(out, "C04", &format!("{what}/unexpected-error"), format!("{what}: unexpected error {code:?}"), path);
                }
            } else if !code.map(|c| allowed.contains(&c)).unwrap_or(false) {
                let prop = if verdict == TokVerdict::MustReject && matches!(code, Some(301) | Some(302)) { token_prop } else if seq_conflict { "C04" } else { "C03" };
                self.viol(out, prop, &format!("{what}/wrong-error-code"), format!("{what}: rejected with {code:?}, applicable codes are {allowed:?}"), path);
            }
            // a rejected write must leave the stored contents unchanged
            let norm = |s: &ServerSnapshot| {
                let mut imm = s.immutable.clone();
                imm.sort();
                let mut mu: Vec<_> = s.mutable.iter().map(|m| (m.target, m.key, m.seq, m.value.clone(), m.signature, m.salt.clone())).collect();
                mu.sort();
                let mut pe: Vec<_> = s.peers.iter().map(|(h, p)| { let mut p = p.clone(); p.sort(); (*h, p) }).collect();
                pe.sort();
                let mut sp: Vec<_> = s.signed_peers.iter().map(|(h, p)| { let mut p = p.clone(); p.sort(); (*h, p) }).collect();
                sp.sort();
                (imm, mu, pe, sp)
            };
            if norm(&before) != norm(&after) {
                let prop = if seq_conflict { "C04" } else { "C03" };
                self.viol(out, prop, &format!("{what}/rejected-but-state-changed"), format!("{what}: answered {code:?} but the stored contents changed"), path);
            }
            // tolerated: the rejected put refreshed the recency of the item it was compared with
            if let Some(t) = touch {
                let real: Vec<Id20> = after.mutable.iter().map(|m| *m.target.as_bytes()).collect();
                let mut bumped = self.model.mutable.clone();
                bumped.get(&t);
                let bumped_order: Vec<Id20> = bumped.items.iter().map(|(k, _)| *k).collect();
                let model_order: Vec<Id20> = self.model.mutable.items.iter().map(|(k, _)| *k).collect();
                if real != model_order && real == bumped_order {
                    self.model.mutable = bumped;
                }
            }
        }
    }

    pub fn apply(&mut self, act: &Act, out: &mut Partial, path: &[u16]) -> bool {
        self.tid = self.tid.wrapping_add(1);
        let t = self.tid.to_be_bytes();
        match act.clone() {
            Act::Tick(d) => {
                match with_remote(|r| {
                    r.advance(d);
                    r.now()
                }) {
                    Some(now) => self.now = now,
                    None => self.now += d,
                }
                sim::local_set_clock(self.now);
                return true;
            }
            Act::Other { src, find_node } => {
                let from = src_addr(src);
                let bytes = if find_node { krpc::q_find_node(&t, &requester_id(src), &[0x33; 20], None) } else { krpc::q_ping(&t, &requester_id(src)) };
                self.do_read(if find_node { "find_node" } else { "ping" }, from, bytes, out, path, &mut |_, _, _, _| {});
            }
            Act::Get { src, target, seq } => {
                let from = src_addr(src);
                let tgt = self.target_of(target);
                let bytes = krpc::q_get(&t, &requester_id(src), &tgt, seq);
                self.do_read("get", from, bytes, out, path, &mut |st, reply, out, path| {
                    // expected by the model
                    let imm = if seq.is_none() { st.model.imm.get(&tgt).cloned() } else { None };
                    if let Some(v) = imm {
                        if reply.res_bytes("v") != Some(&v[..]) || reply.res("k").is_some() {
                            st.viol(out, "C03", "get/immutable-not-served", "get did not return the stored immutable value".into(), path);
                        }
                        return;
                    }
                    let stored = st.model.mutable.get(&tgt).cloned();
                    let got_v = reply.res_bytes("v").map(|v| v.to_vec());
                    let got_seq = reply.res("seq").and_then(|s| s.as_int());
                    match stored {
                        Some(item) => {
                            let only_seq = seq.map(|f| item.seq <= f).unwrap_or(false);
                            if only_seq {
                                if got_v.is_some() || got_seq != Some(item.seq as i128) {
                                    st.viol(out, "C04", "get/seq-filter", format!("get(seq={seq:?}) with stored seq {} returned v={:?} seq={got_seq:?}; expected only seq {}", item.seq, got_v.is_some(), item.seq), path);
                                }
                            } else {
                                let ok = got_v.as_deref() == Some(&item.value[..])
                                    && got_seq == Some(item.seq as i128)
                                    && reply.res_bytes("k") == Some(&item.key[..])
                                    && reply.res_bytes("sig") == Some(&item.sig[..]);
                                if !ok {
                                    // tolerated: "no value" if it may have been evicted (C04); the
                                    // exact-LRU comparison reports it under C20
                                    let evictable = st.model.mutable.items.len() >= st.model.mutable.cap;
                                    if !(got_v.is_none() && got_seq.is_none() && evictable) {
                                        st.viol(out, "C04", "get/not-last-accepted", format!("get returned seq={got_seq:?} v={:?}, the last accepted item has seq {}", got_v.map(|v| v.len()), item.seq), path);
                                    }
                                }
                            }
                        }
                        None => {
                            if got_v.is_some() || got_seq.is_some() {
                                // the server serves something the model does not hold
                                match st.model.last_accepted.get(&tgt) {
                                    Some(a) if got_v.as_deref() == Some(&a.value[..]) && got_seq == Some(a.seq as i128) => {
                                        st.viol(out, "C20", "get/served-beyond-capacity", "get served an item the exact LRU has evicted".into(), path)
                                    }
                                    _ => st.viol(out, "C04", "get/serves-never-accepted", format!("get returned seq={got_seq:?} for a target with nothing accepted"), path),
                                }
                            }
                        }
                    }
                });
            }
            Act::GetPeers { src, ih } => {
                let from = src_addr(src);
                let h = infohash(ih);
                let bytes = krpc::q_get_peers(&t, &requester_id(src), &h, false);
                self.do_read("get_peers", from, bytes, out, path, &mut |st, reply, out, path| {
                    let want: Vec<SocketAddrV4> = st.model.peers.get(&h).map(|l| l.items.iter().map(|(_, a)| *a).collect()).unwrap_or_default();
                    let got: Vec<SocketAddrV4> = reply
                        .res("values")
                        .and_then(|v| v.as_list())
                        .map(|l| l.iter().filter_map(|x| x.as_bytes().and_then(krpc::parse_compact_addr)).collect())
                        .unwrap_or_default();
                    let (mut a, mut b) = (want.clone(), got.clone());
                    a.sort();
                    b.sort();
                    if want.len() >= 20 {
                        // more announcers than a reply carries: any 1..=20 distinct accepted ones
                        out.add("sampled_peer_replies", 1);
                        out.outcomes.insert(format!("get_peers:sampled:{}of{}", got.len(), want.len()));
                        let distinct = b.windows(2).all(|w| w[0] != w[1]);
                        if got.is_empty() || got.len() > 20 || !distinct || !got.iter().all(|g| want.contains(g)) {
                            st.viol(out, "C03", "get_peers/sampled-values", format!("get_peers returned {} values ({} accepted announces): must be 1..=20 distinct accepted ones; got {got:?}", got.len(), want.len()), path);
                        }
                    } else if a != b {
                        st.viol(out, "C03", "get_peers/values", format!("get_peers returned {got:?}, accepted announces are {want:?}"), path);
                    }
                });
            }
            Act::GetSigned { src, ih } => {
                let from = src_addr(src);
                let h = infohash(ih);
                let bytes = krpc::q_get_peers(&t, &requester_id(src), &h, true);
                self.do_read("get_signed_peers", from, bytes, out, path, &mut |st, reply, out, path| {
                    let mut want: Vec<Vec<u8>> = st
                        .model
                        .signed
                        .get(&h)
                        .map(|l| {
                            l.items
                                .iter()
                                .map(|(k, (ts, sig))| {
                                    let mut b = k.to_vec();
                                    b.extend_from_slice(&ts.to_be_bytes());
                                    b.extend_from_slice(sig);
                                    b
                                })
                                .collect()
                        })
                        .unwrap_or_default();
                    let mut got: Vec<Vec<u8>> = reply
                        .res("peers")
                        .and_then(|v| v.as_list())
                        .map(|l| l.iter().filter_map(|x| x.as_bytes().map(|b| b.to_vec())).collect())
                        .unwrap_or_default();
                    want.sort();
                    got.sort();
                    // (signed announcements are 104 bytes each: a reply carries a sample of 10)
                    if want.len() >= 10 {
                        out.add("sampled_peer_replies", 1);
                        out.outcomes.insert(format!("get_signed_peers:sampled:{}of{}", got.len(), want.len()));
                        let distinct = got.windows(2).all(|w| w[0] != w[1]);
                        if got.is_empty() || got.len() > 20 || !distinct || !got.iter().all(|g| want.contains(g)) {
                            st.viol(out, "C03", "get_signed_peers/sampled-peers", format!("get_signed_peers returned {} records ({} accepted announcements): must be 1..=20 distinct accepted ones", got.len(), want.len()), path);
                        }
                    } else if want != got {
                        st.viol(out, "C03", "get_signed_peers/peers", format!("get_signed_peers returned {} records, accepted announcements are {}", got.len(), want.len()), path);
                    }
                });
            }
            Act::PutImm { src, v, tok } => {
                let from = src_addr(src);
                let Some(token) = self.resolve_token(src, tok) else { return false };
                let value = imm_value(v);
                let target = match v {
                    3 => [0x99u8; 20],
                    6 | 7 => krpc::immutable_target(&imm_value(0)),
                    _ => krpc::immutable_target(&value),
                };
                let mut defects = vec![];
                if value.len() > 1000 {
                    defects.push(205);
                }
                if v == 3 || v == 6 || v == 7 {
                    defects.push(203);
                }
                let bytes = krpc::q_put_immutable(&t, &requester_id(src), &target, &token, &value);
                let val = value.clone();
                self.do_write("put_immutable", from, bytes, &token, defects, false, None, &mut |m| m.imm.put(target, val.clone()), out, path);
            }
            Act::PutMut { src, key, salt, seq, val, cas, sig, tok } => {
                let from = src_addr(src);
                let Some(token) = self.resolve_token(src, tok) else { return false };
                let sk = keypair(key);
                let k = sk.verifying_key().to_bytes();
                let salt_b = salt_of(salt);
                let value = mut_value(val);
                let real_target = krpc::mutable_target(&k, salt_b.as_deref());
                let target = if sig == Sig::WrongTarget { krpc::mutable_target(&keypair(key + 7).verifying_key().to_bytes(), salt_b.as_deref()) } else { real_target };
                let mut signature = krpc::sign_mutable(&sk, seq, &value, salt_b.as_deref()).to_vec();
                if sig == Sig::Invalid {
                    signature[5] ^= 0x40;
                }
                let stored = self.model.mutable.peek(&target).cloned();
                let mut seq = seq;
                let mut replay_defect = false;
                if sig == Sig::ReplayStored {
                    match &stored {
                        Some(s) if s.value != value => {
                            seq = s.seq;
                            signature = s.sig.clone();
                            replay_defect = true;
                        }
                        _ => return false,
                    }
                }
                let cas_v = match cas {
                    Cas::None => None,
                    Cas::Match => Some(stored.as_ref().map(|s| s.seq).unwrap_or(0)),
                    Cas::Mismatch => Some(stored.as_ref().map(|s| s.seq + 1).unwrap_or(5)),
                    Cas::Fixed(v) => Some(v),
                };
                let mut defects = vec![];
                if value.len() > 1000 {
                    defects.push(205);
                }
                if salt_b.as_ref().map(|s| s.len() > 64).unwrap_or(false) {
                    defects.push(207);
                }
                if sig == Sig::Invalid || replay_defect {
                    defects.push(206);
                }
                if sig == Sig::WrongTarget {
                    defects.push(206);
                    defects.push(203);
                }
                let mut unspecified = false;
                if let Some(s) = &stored {
                    if let Some(c) = cas_v {
                        if c != s.seq {
                            defects.push(301);
                        }
                    }
                    if seq < s.seq {
                        defects.push(302);
                    } else if seq == s.seq && (s.value != value || s.sig != signature) && defects.is_empty() {
                        // equal seq, different item: the statement only forbids a decrease
                        unspecified = true;
                    }
                }
                let item = MItem { key: k, seq, value: value.clone(), sig: signature.clone(), salt: salt_b.clone() };
                let bytes = krpc::q_put_mutable(&t, &requester_id(src), &target, &token, &value, &k, &signature, seq, salt_b.as_deref(), cas_v);
                let prev_seq = stored.as_ref().map(|s| s.seq);
                self.do_write("put_mutable", from, bytes, &token, defects, unspecified, stored.as_ref().map(|_| target), &mut |m| {
                    m.mutable.put(target, item.clone());
                    m.last_accepted.insert(target, item.clone());
                }, out, path);
                // monotonicity on every state (C04): the stored seq never decreases while resident
                let now_seq = self.snap().mutable.iter().find(|m| *m.target.as_bytes() == target).map(|m| m.seq);
                if let (Some(p), Some(n)) = (prev_seq, now_seq) {
                    if n < p {
                        self.viol(out, "C04", "stored-seq-decreased", format!("stored seq went from {p} to {n}"), path);
                    }
                }
            }
            Act::Announce { src, ih, port, implied, tok } => {
                let from = src_addr(src);
                let Some(token) = self.resolve_token(src, tok) else { return false };
                let h = infohash(ih);
                let bytes = krpc::q_announce_peer(&t, &requester_id(src), &h, &token, port, implied);
                let is_implied = implied.map(|i| i != 0).unwrap_or(false);
                let peer = SocketAddrV4::new(*from.ip(), if is_implied { from.port() } else { port });
                let rid = requester_id(src);
                let cap = self.model.peers_per_hash;
                self.do_write("announce_peer", from, bytes, &token, vec![], false, None, &mut |m| {
                    if m.peers.peek(&h).is_some() {
                        if let Some(l) = m.peers.get_mut(&h) {
                            l.put(rid, peer);
                        }
                    } else {
                        let mut l = Lru::new(cap);
                        l.put(rid, peer);
                        m.peers.put(h, l);
                    }
                }, out, path);
            }
            Act::AnnounceSigned { src, ih, key, dt, sig_ok, tok } => {
                let from = src_addr(src);
                let Some(token) = self.resolve_token(src, tok) else { return false };
                let h = infohash(ih);
                let sk = keypair(key);
                let k = sk.verifying_key().to_bytes();
                let ts = (self.wall_micros() as i64 + dt * 1_000) as u64;
                let mut signature = krpc::sign_announce(&sk, &h, ts).to_vec();
                let mut defects = vec![];
                if !sig_ok {
                    signature[9] ^= 0x02;
                    defects.push(203);
                }
                if dt.abs() > 45_000 {
                    defects.push(203);
                }
                let bytes = krpc::q_announce_signed_peer(&t, &requester_id(src), &h, &token, &k, &signature, ts);
                let cap = self.model.peers_per_hash;
                let sigc = signature.clone();
                self.do_write("announce_signed_peer", from, bytes, &token, defects, false, None, &mut |m| {
                    if m.signed.peek(&h).is_some() {
                        if let Some(l) = m.signed.get_mut(&h) {
                            l.put(k, (ts, sigc.clone()));
                        }
                    } else {
                        let mut l = Lru::new(cap);
                        l.put(k, (ts, sigc.clone()));
                        m.signed.put(h, l);
                    }
                }, out, path);
            }
        }
        let snap = self.snap();
        self.compare_stores(&snap, out, path);
        self.rng = sim::local_get_rng();
        true
    }

    fn target_of(&self, t: u8) -> Id20 {
        // targets 0..3: mutable targets of (key 0, salt 0), (key 0, salt 1), (key 1, salt 0),
        // then the immutable target of value 0, then a target nobody writes
        match t {
            0 => krpc::mutable_target(&keypair(0).verifying_key().to_bytes(), None),
            1 => krpc::mutable_target(&keypair(0).verifying_key().to_bytes(), salt_of(1).as_deref()),
            2 => krpc::mutable_target(&keypair(1).verifying_key().to_bytes(), None),
            3 => krpc::immutable_target(&imm_value(0)),
            4 => krpc::immutable_target(&imm_value(1)),
            5 => krpc::mutable_target(&keypair(7).verifying_key().to_bytes(), None),
            7 => krpc::mutable_target(&keypair(2).verifying_key().to_bytes(), None),
            _ => [0x42; 20],
        }
    }

    #[allow(clippy::type_complexity)]
    fn do_read(
        &mut self,
        what: &'static str,
        from: SocketAddrV4,
        bytes: Vec<u8>,
        out: &mut Partial,
        path: &[u16],
        check: &mut dyn FnMut(&mut SrvState, &Krpc, &mut Partial, &[u16]),
    ) {
        let before = self.snap();
        let vetoed = self.cfg.veto_ip == Some(*from.ip());
        let reply = match self.exchange(from, &bytes) {
            Ok(r) => r,
            Err(e) => {
                self.viol(out, "C03", &format!("{what}/machinery"), e, path);
                return;
            }
        };
        if vetoed {
            let after = self.snap();
            if reply.is_some() {
                self.viol(out, "C03", "filter/replied", format!("{what}: a vetoed request got a reply"), path);
            }
            if before != after {
                self.viol(out, "C03", "filter/state-changed", format!("{what}: a vetoed request changed server state"), path);
            }
            return;
        }
        if self.model.handled.last() != Some(&self.now) {
            self.model.handled.push(self.now);
        }
        let Some(reply) = reply else {
            self.viol(out, "C03", &format!("{what}/no-reply"), format!("{what}: no reply to a read"), path);
            return;
        };
        if !reply.is_response() {
            self.viol(out, "C03", &format!("{what}/error-reply"), format!("{what}: a read was answered with an error {:?}", reply.error()), path);
            return;
        }
        out.add("reads", 1);
        self.remember_token(from, &reply);
        check(self, &reply, out, path);
    }
}

impl Machine for SrvState {
    fn action_count(&self) -> usize {
        self.cfg.alphabet.len()
    }
    fn describe(&self, i: usize) -> String {
        format!("{:?}", self.cfg.alphabet[i])
    }
    fn enter(&self) {
        sim::local_set_clock(self.now);
        sim::local_set_rng(self.rng.clone());
    }
    fn step(&mut self, i: usize, path: &[u16], out: &mut Partial) -> bool {
        let act = self.cfg.alphabet[i].clone();
        self.apply(&act, out, path)
    }
    fn digest(&self) -> u64 {
        let mut h = std::collections::hash_map::DefaultHasher::new();
        self.server.verif_snapshot().hash(&mut h);
        self.now.hash(&mut h);
        self.rng.hash(&mut h);
        self.tokens.hash(&mut h);
        self.model.hash(&mut h);
        h.finish()
    }
}

/// Replay a path (first element = index of the initial configuration, ignored here).
pub fn replay_path(cfg: SrvCfg, path: &[u16]) -> Partial {
    let mut out = Partial::default();
    let mut st = SrvState::new(cfg);
    for (n, a) in path.iter().enumerate().skip(1) {
        st.enter();
        let act = st.cfg.alphabet[*a as usize].clone();
        st.apply(&act, &mut out, &path[..=n]);
    }
    out
}

/// Like `replay_path`, but the configuration's priming actions are judged like any other step
/// (used by the E1 binding, where the backend is a running node).
pub fn replay_with_prime(cfg: SrvCfg, path: &[u16]) -> Partial {
    let mut out = Partial::default();
    let prime = cfg.prime.clone();
    let mut cfg0 = cfg;
    cfg0.prime = vec![];
    let mut st = SrvState::new(cfg0);
    for a in prime {
        st.enter();
        st.apply(&a, &mut out, &[0]);
    }
    for (n, a) in path.iter().enumerate().skip(1) {
        st.enter();
        let act = st.cfg.alphabet[*a as usize].clone();
        st.apply(&act, &mut out, &path[..=n]);
    }
    out
}

pub const FIVE_MIN: u64 = 5 * MIN;
pub const ONE_SEC: u64 = SEC;

/// One step of a recorded history, for the replay through a full threaded node.
#[derive(Clone, Debug)]
pub enum Recorded {
    Tick(u64),
    Exchange { from: SocketAddrV4, request: Vec<u8>, reply: Option<Vec<u8>> },
}

pub struct Recording {
    pub steps: Vec<Recorded>,
    /// Token secrets in the order the server drew them: previous, current, then one per rotation.
    pub secrets: Vec<[u8; 20]>,
    pub node_id: Id20,
}

/// Re-run a path on the E2 machine, recording wire bytes and the secrets the server drew.
pub fn record_path(cfg: SrvCfg, path: &[u16]) -> Recording {
    let prime = cfg.prime.clone();
    let mut cfg0 = cfg.clone();
    cfg0.prime = vec![];
    let mut st = SrvState::new(cfg0);
    st.trace = Some(vec![]);
    let t0 = st.server.verif_snapshot().tokens;
    let mut secrets = vec![t0.prev_secret, t0.curr_secret];
    let mut steps = vec![];
    let mut sink = Partial::default();
    let acts: Vec<Act> = prime.into_iter().chain(path.iter().skip(1).map(|a| cfg.alphabet[*a as usize].clone())).collect();
    for act in acts {
        st.enter();
        let before = st.trace.as_ref().map(|t| t.len()).unwrap_or(0);
        if let Act::Tick(d) = act {
            st.apply(&act, &mut sink, &[0]);
            steps.push(Recorded::Tick(d));
            continue;
        }
        st.apply(&act, &mut sink, &[0]);
        if let Some(t) = st.trace.as_ref() {
            for (from, request, reply) in &t[before..] {
                steps.push(Recorded::Exchange { from: *from, request: request.clone(), reply: reply.clone() });
            }
        }
        let cur = st.server.verif_snapshot().tokens.curr_secret;
        if secrets.last() != Some(&cur) {
            secrets.push(cur);
        }
    }
    Recording { steps, secrets, node_id: [0x5E; 20] }
}
