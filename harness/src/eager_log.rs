//! A `tracing` subscriber that enables every callsite and formats every field of every event
//! into a sink. Log statements are code too: with no subscriber installed (the library's tests,
//! and every other check) the arguments of `debug!` / `trace!` are never even evaluated, so a
//! slice or an `expect` inside one only fails for a user who turns logging on. C05 runs with
//! this subscriber installed; nothing is printed.

use std::fmt::Write;
use std::sync::atomic::{AtomicU64, Ordering};

use tracing::field::{Field, Visit};
use tracing::span::{Attributes, Id, Record};
use tracing::{Event, Metadata, Subscriber};

pub static EVENTS: AtomicU64 = AtomicU64::new(0);

struct Sink(String);

impl Visit for Sink {
    fn record_debug(&mut self, field: &Field, value: &dyn std::fmt::Debug) {
        self.0.clear();
        let _ = write!(self.0, "{}={:?}", field.name(), value);
    }
}

pub struct Eager;

impl Subscriber for Eager {
    fn enabled(&self, _: &Metadata<'_>) -> bool {
        true
    }
    fn new_span(&self, attrs: &Attributes<'_>) -> Id {
        attrs.record(&mut Sink(String::new()));
        Id::from_u64(1)
    }
    fn record(&self, _: &Id, values: &Record<'_>) {
        values.record(&mut Sink(String::new()));
    }
    fn record_follows_from(&self, _: &Id, _: &Id) {}
    fn event(&self, event: &Event<'_>) {
        EVENTS.fetch_add(1, Ordering::Relaxed);
        event.record(&mut Sink(String::new()));
    }
    fn enter(&self, _: &Id) {}
    fn exit(&self, _: &Id) {}
}

/// Install for the whole process (idempotent).
pub fn install() {
    let _ = tracing::subscriber::set_global_default(Eager);
}
