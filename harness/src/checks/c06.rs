//! C06 - every API call terminates with exactly one outcome.
//! Engine E1. Part A: all ordered pairs of API calls on one real node, the second placed at
//! every network event of the first call's lifetime and at +1 s / +4 min / +6 min after it.
//! Part B: every single API call under every single fault (drop / duplicate / delay past the
//! timeout of each datagram, each peer falling silent at each event), pairs of faults in the
//! thorough tier. Part C: the same calls against real server nodes, each crashed at each event.

use std::net::SocketAddrV4;

use dht::verif::{put_raw, AnnouncePeerRequestArguments, PutImmutableRequestArguments, PutMutableRequestArguments};
use dht::{MutableItem, PutRequestSpecific};
use serde_json::{json, Value};

use super::CheckDef;
use crate::epnet::EpNet;
use crate::explore::{Chooser, Explorer};
use crate::krpc::{self, Id20};
use crate::report::{CheckInfo, Partial, Tier, Violation};
use crate::sim::*;

pub fn def() -> CheckDef {
    CheckDef {
        id: "C06",
        info,
        shards: |_| super::cores(),
        run,
        replay,
    }
}

const HORIZON: u64 = 120 * SEC;

fn info(tier: Tier) -> CheckInfo {
    let mut ci = CheckInfo {
        id: "C06",
        level: "model_checking",
        rule: format!(
            "Tier {}: one real node (client mode) with 3 peers. Part A (peers = scripted honest endpoints): every ordered pair from the 13-call menu {{find_node(x), get_closest_nodes(x), get_immutable(x), get_peers(x), put_immutable->x, announce_peer(x), put_mutable->m, find_node(m), put_immutable->y, bootstrapped(), get_mutable(m), announce_signed_peer(s), get_signed_peers(s)}}, the second call placed before every network event of the first call's lifetime and 1 s / 4 min / 6 min after its completion (inside and outside the 5-minute closest-nodes cache). Part B: every single call under every {} of {{drop, duplicate, delay past the request timeout}} over its datagrams and every peer falling silent before each network event. Part C (peers = 3 real server nodes): every single call with each server crashed before each network event{}. Part D: a sync get_peers / get_mutable / get_signed_peers iterator is created and left unread while 4 endpoints answer with values, then info, find_node and put_immutable are issued. Oracle: within {} virtual seconds of the last call being issued every put resolved with exactly one result (its reply channel then yields nothing more), every get stream ended, find_node / get_closest_nodes / bootstrapped returned, and no actor thread died.",
            tier.name(),
            if tier.is_quick() { "single fault" } else { "single fault and pair of faults" },
            if tier.is_quick() { ". Part E: every ordered pair of put/announce calls on different targets issued together, under every single fault" } else { ", and the pairs of part A with the second call at three placements under every single fault" },
            HORIZON / SEC
        ),
        assumptions: vec!["default latency 10 ms; delayed datagrams arrive after 900 ms (> request timeout)".into()],
    };
    ci.rule.push_str(" Added: parts A and B are also run through the blocking Dht API (typed methods on helper threads); held iterators are drained on a helper thread (a stream that never ends is a violation, not a hang).");
    ci
}

pub(crate) const N_APIS: usize = 13;
pub(crate) const API_NAMES: [&str; N_APIS] = ["find_node(x)", "get_closest_nodes(x)", "get_immutable(x)", "get_peers(x)", "put_immutable->x", "announce_peer(x)", "put_mutable->m", "find_node(m)", "put_immutable->y", "bootstrapped()", "get_mutable(m)", "announce_signed_peer(s)", "get_signed_peers(s)"];

const VX: &[u8] = b"value whose hash is x";
const VY: &[u8] = b"value whose hash is y";

fn x() -> Id20 {
    krpc::immutable_target(VX)
}

fn m_item() -> MutableItem {
    MutableItem::new(&krpc::signing_key(0x61), b"mutable", 4, None)
}

struct PutWatch {
    call: usize,
    rx: flume::Receiver<Result<dht::Id, dht::errors::PutError>>,
}

fn issue(w: &mut World, a: usize, api: usize, watches: &mut Vec<PutWatch>) -> usize {
    let raw_put = |w: &mut World, req: PutRequestSpecific, watches: &mut Vec<PutWatch>| -> usize {
        let dht = w.dht(a);
        let rx = put_raw(dht.as_sync(), req, None);
        let rx2 = rx.clone();
        let c = w.call(
            a,
            "put",
            Box::pin(async move {
                match rx2.recv_async().await {
                    Ok(r) => CallResult::Put(r.map_err(|e| PutErr::from_put_error(&e))),
                    Err(_) => CallResult::Panicked("put reply channel closed without a result".into()),
                }
            }),
        );
        watches.push(PutWatch { call: c, rx });
        c
    };
    if w.sync_api {
        // the blocking API: every call is the typed method, on a helper thread of its own
        return match api {
            0 => w.call_find_node(a, x().into()),
            1 => w.call_get_closest_nodes(a, x().into()),
            2 => w.call_get_immutable(a, x().into()),
            3 => w.call_get_peers(a, x().into()),
            4 => w.call_put_immutable(a, VX.to_vec()),
            5 => w.call_announce_peer(a, x().into(), Some(999)),
            6 => w.call_put_mutable(a, m_item(), None),
            7 => w.call_find_node(a, *m_item().target()),
            8 => w.call_put_immutable(a, VY.to_vec()),
            9 => w.call_bootstrapped(a),
            10 => w.call_get_mutable(a, *m_item().key(), None, None),
            11 => w.call_announce_signed_peer(a, S_HASH.into(), krpc::signing_key(0x62)),
            _ => w.call_get_signed_peers(a, S_HASH.into()),
        };
    }
    match api {
        0 => w.call_find_node(a, x().into()),
        1 => w.call_get_closest_nodes(a, x().into()),
        2 => w.call_get_immutable(a, x().into()),
        3 => w.call_get_peers(a, x().into()),
        4 => raw_put(w, PutRequestSpecific::PutImmutable(PutImmutableRequestArguments { target: x().into(), v: VX.into() }), watches),
        5 => raw_put(w, PutRequestSpecific::AnnouncePeer(AnnouncePeerRequestArguments { info_hash: x().into(), port: 999, implied_port: None }), watches),
        6 => raw_put(w, PutRequestSpecific::PutMutable(PutMutableRequestArguments::from(m_item(), None)), watches),
        7 => {
            let t = *m_item().target();
            w.call_find_node(a, t)
        }
        8 => raw_put(w, PutRequestSpecific::PutImmutable(PutImmutableRequestArguments { target: krpc::immutable_target(VY).into(), v: VY.into() }), watches),
        9 => w.call_bootstrapped(a),
        10 => {
            let k = *m_item().key();
            w.call_get_mutable(a, k, None, None)
        }
        11 => {
            let sk = krpc::signing_key(0x62);
            let ann = dht::verif::SignedAnnounce::new(&sk, &S_HASH.into());
            raw_put(
                w,
                PutRequestSpecific::AnnounceSignedPeer(dht::verif::AnnounceSignedPeerRequestArguments { info_hash: S_HASH.into(), t: ann.timestamp(), k: *ann.key(), sig: *ann.signature() }),
                watches,
            )
        }
        _ => w.call_get_signed_peers(a, S_HASH.into()),
    }
}

const S_HASH: Id20 = [0x53; 20];

/// Part D: a sync iterator is created and left unread while other calls are made.
fn open_iterator(which: usize, out: &mut Partial) {
    let mut w = World::new(Chooser::default_run());
    let target: Id20 = match which {
        0 => x(),
        1 => *m_item().target().as_bytes(),
        _ => S_HASH,
    };
    let ids = crate::epnet::ranked_ids(&target, 4);
    let mut net = EpNet::new(&mut w, &ids);
    let item = m_item();
    let sk = krpc::signing_key(0x62);
    for (i, e) in net.eps.iter_mut().enumerate() {
        e.peers.insert(target, vec![SocketAddrV4::new(std::net::Ipv4Addr::new(55, 5, 5, i as u8), 5000)]);
        e.mutable.insert(target, (*item.key(), item.seq(), item.value().to_vec(), item.signature().to_vec()));
        let ts = UNIX_BASE_MICROS + T0 / 1000;
        let mut rec = sk.verifying_key().to_bytes().to_vec();
        rec.extend_from_slice(&ts.to_be_bytes());
        rec.extend_from_slice(&krpc::sign_announce(&sk, &target, ts));
        e.signed.insert(target, vec![rec]);
    }
    let boots = net.addrs();
    let a = w.add_node(NodeCfg::new([9, 9, 9, 9], 7000).bootstrap(&boots).id([0x21; 20]));
    let h = w.now + 3 * SEC;
    w.run_until(h, |w, ev| {
        if let Event::EndpointRecv { ep, dgram } = ev {
            net.handle(w, *ep, dgram);
        }
        false
    });
    let dht = w.dht(a);
    let names = ["get_peers", "get_mutable", "get_signed_peers"];
    // the sync API: creating the iterator enqueues the lookup and returns at once
    enum Held {
        Peers(Box<dyn Iterator<Item = Vec<SocketAddrV4>> + Send>),
        Mutable(Box<dyn Iterator<Item = MutableItem> + Send>),
        Signed(Box<dyn Iterator<Item = Vec<dht::verif::SignedAnnounce>> + Send>),
    }
    let held = match which {
        0 => Held::Peers(Box::new(dht.as_sync().get_peers(target.into()))),
        1 => Held::Mutable(Box::new(dht.as_sync().get_mutable(item.key(), None, None))),
        _ => Held::Signed(Box::new(dht.as_sync().get_signed_peers(target.into()))),
    };
    let h = w.now + 5 * SEC;
    w.run_until(h, |w, ev| {
        if let Event::EndpointRecv { ep, dgram } = ev {
            net.handle(w, *ep, dgram);
        }
        false
    });
    let mut watches = vec![];
    let calls: Vec<usize> = vec![w.call_info(a), issue(&mut w, a, 7, &mut watches), issue(&mut w, a, 8, &mut watches)];
    let h = w.now + HORIZON;
    w.run_until(h, |w, ev| {
        if let Event::EndpointRecv { ep, dgram } = ev {
            net.handle(w, *ep, dgram);
        }
        calls.iter().all(|c| w.result(*c).is_some()) || w.nodes[a].blocked
    });
    out.add("executions", 1);
    out.add("transitions", w.steps);
    let replay = json!({"part": "open-iterator", "which": which});
    if w.nodes[a].blocked {
        out.violation(
            format!("actor-blocked/open-{}-iterator", names[which]),
            format!("with an unread sync {} iterator held open, the node's actor thread blocked inside an iteration (every later call hangs)", names[which]),
            replay.clone(),
        );
    } else if !calls.iter().all(|c| w.result(*c).is_some()) {
        out.violation(format!("never-completes/open-{}-iterator", names[which]), format!("calls made while a sync {} iterator is held open did not complete", names[which]), replay);
    } else {
        out.add("all_calls_completed", 1);
    }
    // now drain it (on a helper thread: a stream that never ends must not hang the check): the
    // lookup is over, so the stream must end
    let drained = run_blocking(move || match held {
        Held::Peers(i) => i.count(),
        Held::Mutable(i) => i.count(),
        Held::Signed(i) => i.count(),
    });
    match drained {
        Some(n) => {
            out.outcomes.insert(format!("open-iterator:{}:items{}", names[which], n.min(5)));
        }
        None => out.violation(
            format!("stream-never-ends/open-{}-iterator", names[which]),
            format!("the lookup behind a sync {} iterator is over (later calls completed, nothing in flight), but draining the iterator blocks for ever", names[which]),
            json!({"part": "open-iterator", "which": which}),
        ),
    }
}

#[derive(Clone, Debug)]
pub(crate) struct Script {
    pub first: usize,
    pub second: Option<usize>,
    /// placement of the second call: Some(n) = before the n-th network event of the first
    /// call's lifetime; None + after = this long after the first call completed
    pub at_event: Option<u32>,
    pub after: u64,
    pub real_peers: bool,
    /// the calls go through the blocking `Dht` API (typed methods, one helper thread per call)
    pub sync: bool,
}

pub(crate) struct Out {
    pub problems: Vec<(String, String)>,
    pub events_first: u32,
    pub steps: u64,
    pub digests: Vec<u64>,
    pub max_completion_ms: u64,
    pub results: Vec<String>,
    /// per-call state still held after everything completed and a quiet period (C20)
    pub leaks: Vec<(String, String)>,
}

/// faults: 0 none, 1 datagram fates + silence choice points enabled
pub(crate) fn scenario(chooser: Chooser, sc: &Script, faults: bool, track: bool) -> (Chooser, Out) {
    let mut w = World::new(chooser);
    w.track_states = track;
    let ids = crate::epnet::ranked_ids(&x(), 3);
    let mut net: Option<EpNet> = None;
    let mut servers: Vec<usize> = vec![];
    let boots: Vec<SocketAddrV4>;
    if sc.real_peers {
        let mut b: Vec<SocketAddrV4> = vec![];
        for i in 0..3 {
            let n = w.add_node(NodeCfg::new([8, 8, i as u8 + 1, 1], 6881).server().bootstrap(&b).id(ids[i]));
            if i == 0 {
                b.push(w.node_addr(n));
            }
            servers.push(n);
            let c = w.call_bootstrapped(n);
            let h = w.now + 30 * SEC;
            w.run_calls(&[c], h);
        }
        boots = b;
    } else {
        let n = EpNet::new(&mut w, &ids);
        boots = n.addrs()[..1].to_vec();
        net = Some(n);
    }
    let a = w.add_node(NodeCfg::new([9, 9, 9, 9], 7000).bootstrap(&boots).id([0x21; 20]));
    let a_addr = w.node_addr(a);
    let mut silent_from: Vec<bool> = vec![false; 3];
    let pump = |w: &mut World, net: &mut Option<EpNet>, ev: &Event, silent: &[bool]| {
        if let (Some(net), Event::EndpointRecv { ep, dgram }) = (net.as_mut(), ev) {
            let i = net.index_of(*ep).expect("ep");
            if !silent[i] {
                net.handle(w, *ep, dgram);
            }
        }
    };
    let h = w.now + 3 * SEC;
    w.run_until(h, |w, ev| {
        pump(w, &mut net, ev, &silent_from);
        false
    });

    // ---- the calls
    w.sync_api = sc.sync;
    w.faults.menu = vec![Fate::Deliver(DEFAULT_LATENCY), Fate::Drop, Fate::Dup(DEFAULT_LATENCY, 40 * MS), Fate::Deliver(900 * MS)];
    w.faults.enabled = faults;
    w.fault_filter = Some(Box::new(move |d: &Datagram| d.to == a_addr || d.from == a_addr));
    let mut watches: Vec<PutWatch> = vec![];
    let mut calls: Vec<(usize, usize, u64)> = vec![]; // (call id, api, issued at)
    let c1 = issue(&mut w, a, sc.first, &mut watches);
    calls.push((c1, sc.first, w.now));
    let mut events = 0u32;
    let mut second_issued = sc.second.is_none();
    let mut first_done_at: Option<u64> = None;
    let mut last_issue = w.now;
    let mut problems: Vec<(String, String)> = vec![];
    if let (Some(0), Some(second)) = (sc.at_event, sc.second) {
        // placement 0: both calls are queued before the node handles either
        let c2 = issue(&mut w, a, second, &mut watches);
        calls.push((c2, second, w.now));
        second_issued = true;
    }
    loop {
        let horizon = last_issue + HORIZON;
        if second_issued && calls.iter().all(|(c, _, _)| w.result(*c).is_some()) {
            break;
        }
        // delayed second call
        if !second_issued && sc.at_event.is_none() {
            if let Some(done) = first_done_at {
                let t = done + sc.after;
                if w.now >= t {
                    let c2 = issue(&mut w, a, sc.second.expect("second"), &mut watches);
                    calls.push((c2, sc.second.expect("second"), w.now));
                    last_issue = w.now;
                    second_issued = true;
                    continue;
                }
            }
        }
        let step_h = if !second_issued && sc.at_event.is_none() && first_done_at.is_some() { first_done_at.expect("done") + sc.after } else { horizon };
        // choice points before each network event: a peer falls silent / a server crashes
        let ev = match w.step(step_h) {
            Some(ev) => ev,
            None => {
                if step_h < horizon {
                    w.advance_to(step_h);
                    continue;
                }
                break;
            }
        };
        let is_net = matches!(ev, Event::EndpointRecv { .. } | Event::Arrived { .. });
        pump(&mut w, &mut net, &ev, &silent_from);
        if first_done_at.is_none() && w.result(c1).is_some() {
            first_done_at = Some(w.now);
            if !second_issued && sc.at_event.is_some() {
                // the first call ended before the requested event: place the second right now
                let c2 = issue(&mut w, a, sc.second.expect("second"), &mut watches);
                calls.push((c2, sc.second.expect("second"), w.now));
                last_issue = w.now;
                second_issued = true;
            }
        }
        if is_net {
            if first_done_at.is_none() {
                events += 1;
            }
            if !second_issued && sc.at_event == Some(events) {
                let c2 = issue(&mut w, a, sc.second.expect("second"), &mut watches);
                calls.push((c2, sc.second.expect("second"), w.now));
                last_issue = w.now;
                second_issued = true;
            }
            if faults {
                // one of the three peers stops answering (scripted) / crashes (real) from here on
                let alive: Vec<usize> = (0..3).filter(|i| if sc.real_peers { w.nodes[servers[*i]].alive } else { !silent_from[*i] }).collect();
                let c = w.chooser.choose("peer-fails", 1 + alive.len() as u32);
                if c > 0 {
                    let i = alive[c as usize - 1];
                    if sc.real_peers {
                        w.crash(servers[i]);
                    } else {
                        silent_from[i] = true;
                    }
                }
            }
        }
    }
    w.faults.enabled = false;
    // ---- oracle
    let mut results = vec![];
    let mut max_completion = 0u64;
    for (c, api, issued) in &calls {
        match w.result(*c) {
            None => problems.push((format!("never-completes/{}", API_NAMES[*api]), format!("{} issued at +{} ms has not completed {} s later", API_NAMES[*api], (issued - calls[0].2) / MS, (w.now - issued) / SEC))),
            Some(CallResult::Panicked(p)) => problems.push((format!("call-panicked/{}", API_NAMES[*api]), p.clone())),
            Some(r) => {
                max_completion = max_completion.max((w.calls[*c].done_at.unwrap_or(w.now) - issued) / MS);
                results.push(match r {
                    CallResult::Put(Ok(_)) => "Ok".to_string(),
                    CallResult::Put(Err(e)) => format!("{e:?}"),
                    CallResult::Bytes(b) => format!("bytes:{}", b.is_some()),
                    CallResult::Nodes(n) => format!("nodes:{}", n.len().min(3)),
                    CallResult::Peers(p) => format!("peers:{}", p.len().min(3)),
                    CallResult::Bool(b) => format!("{b}"),
                    o => format!("{o:?}").chars().take(20).collect(),
                });
            }
        }
    }
    // exactly one outcome: run a little longer, then nothing more may arrive on a put channel
    let h = w.now + 3 * SEC;
    w.run_until(h, |w, ev| {
        pump(w, &mut net, ev, &silent_from);
        false
    });
    for pw in &watches {
        if w.result(pw.call).is_some() {
            match pw.rx.try_recv() {
                Ok(_) => problems.push(("put-result-delivered-twice".into(), "a second result arrived on a put's reply channel".into())),
                Err(flume::TryRecvError::Disconnected) => {}
                Err(flume::TryRecvError::Empty) => problems.push(("put-channel-left-open".into(), "the put completed but its reply channel is still held by the node".into())),
            }
        }
    }
    if w.nodes[a].exited == Some(true) || !w.nodes[a].alive {
        problems.push(("actor-died".into(), "the node's actor thread is gone".into()));
    }
    // ---- quiescence (C20): once every call completed, after a quiet period longer than any
    // request timeout the node must hold no per-call state
    let mut leaks: Vec<(String, String)> = vec![];
    // (also when a call is still pending after the horizon: a caller parked although nothing
    // is in flight any more is a leak in its own right)
    if w.nodes[a].alive {
        let quiet = w.snapshot(a).socket.request_timeout.as_nanos() as u64 + 2 * SEC;
        let h = w.now + quiet;
        w.run_until(h, |w, ev| {
            pump(w, &mut net, ev, &silent_from);
            false
        });
        let s = w.snapshot(a);
        if !s.core.iterative_queries.is_empty() {
            leaks.push(("pending-lookups".into(), format!("{} lookups still registered", s.core.iterative_queries.len())));
        }
        if !s.core.put_queries.is_empty() {
            leaks.push(("pending-puts".into(), format!("{} put queries still registered", s.core.put_queries.len())));
        }
        if !s.put_senders.is_empty() || !s.get_senders.is_empty() {
            leaks.push(("parked-callers".into(), format!("{} put and {} get caller lists still parked", s.put_senders.len(), s.get_senders.len())));
        }
        if s.socket.inflight_unexpired != 0 {
            leaks.push(("unexpired-inflight-requests".into(), format!("{} in-flight requests have not expired", s.socket.inflight_unexpired)));
        }
        if s.socket.inflight.len() > 4 * (s.socket.next_tid as usize).min(64) + 64 {
            leaks.push(("inflight-table-growth".into(), format!("the in-flight table holds {} entries", s.socket.inflight.len())));
        }
    }
    let out = Out { problems, events_first: events, steps: w.steps, digests: w.state_digests.iter().copied().collect(), max_completion_ms: max_completion, results, leaks };
    let ch = std::mem::take(&mut w.chooser);
    (ch, out)
}

fn sc_json(s: &Script) -> Value {
    json!({"first": s.first, "second": s.second, "at_event": s.at_event, "after_ms": s.after / MS, "real_peers": s.real_peers, "sync": s.sync})
}

fn sc_desc(s: &Script) -> String {
    match s.second {
        None => format!("{} ({} peers)", API_NAMES[s.first], if s.real_peers { "real server" } else { "scripted" }),
        Some(b) => format!(
            "{} then {} {}",
            API_NAMES[s.first],
            API_NAMES[b],
            match s.at_event {
                Some(n) => format!("issued before network event #{n} of the first call"),
                None => format!("issued {} s after the first call completed", s.after / SEC),
            }
        ),
    }
}

fn record(s: &Script, choices: &[u32], trace: &[crate::explore::ChoicePoint], o: &Out, out: &mut Partial) {
    out.add("executions", 1);
    out.add("transitions", o.steps);
    out.digests.extend(o.digests.iter());
    out.gauge_max("max_completion_ms", o.max_completion_ms);
    out.outcomes.insert(o.results.join("|"));
    if o.problems.is_empty() {
        out.add("all_calls_completed", 1);
    }
    let devs: Vec<String> = choices
        .iter()
        .enumerate()
        .filter(|(_, c)| **c > 0)
        .map(|(i, c)| if trace[i].label == "fate" { ["", "drop", "dup", "late"][*c as usize].to_string() } else { "peer-fails".to_string() })
        .collect();
    for (key, desc) in &o.problems {
        let placement = match (s.second, s.at_event) {
            (None, _) => "single".to_string(),
            (Some(_), Some(_)) => "overlapping".to_string(),
            (Some(_), None) => format!("after{}s", s.after / SEC),
        };
        out.violation(
            format!("{key}/after:{}/{placement}/{}{}", API_NAMES[s.first], if devs.is_empty() { "no-fault".to_string() } else { devs.join("+") }, format!("{}{}", if s.real_peers { "/real-peers" } else { "" }, if s.sync { "/blocking-api" } else { "" })),
            format!("{}{}{}: {desc}", if s.sync { "[blocking Dht API] " } else { "" }, sc_desc(s), if devs.is_empty() { String::new() } else { format!(" with deviations {devs:?} at choice points {:?}", choices.iter().enumerate().filter(|(_, c)| **c > 0).map(|(i, _)| i).collect::<Vec<_>>()) }),
            json!({"script": sc_json(s), "choices": choices}),
        );
    }
}

fn run(tier: Tier, shard: usize, nshards: usize, _seed: u64) -> Partial {
    let mut out = Partial::default();
    let mut unit = 0usize;
    let mut mine = || {
        unit += 1;
        unit % nshards == shard
    };
    if shard == 0 {
        let s = Script { first: 4, second: Some(2), at_event: Some(3), after: 0, real_peers: false, sync: false };
        let (_, a) = scenario(Chooser::default_run(), &s, false, true);
        let (_, b) = scenario(Chooser::default_run(), &s, false, true);
        assert!(a.steps == b.steps && a.digests.len() == b.digests.len() && a.results == b.results, "MACHINERY: scenario is not deterministic");
    }
    // ---- part A: pairs x placements, through the async API and through the blocking one
    for (first, sync) in (0..N_APIS).flat_map(|f| [(f, false), (f, true)]) {
        // how many network events does the first call's lifetime have?
        let (_, base) = scenario(Chooser::default_run(), &Script { first, second: None, at_event: None, after: 0, real_peers: false, sync }, false, false);
        if mine() {
            record(&Script { first, second: None, at_event: None, after: 0, real_peers: false, sync }, &[], &[], &base, &mut out);
        }
        for second in 0..N_APIS {
            let mut placements: Vec<Script> = (0..=base.events_first).map(|n| Script { first, second: Some(second), at_event: Some(n), after: 0, real_peers: false, sync }).collect();
            for after in [SEC, 4 * MIN, 6 * MIN] {
                placements.push(Script { first, second: Some(second), at_event: None, after, real_peers: false, sync });
            }
            for s in placements {
                if !mine() {
                    continue;
                }
                let (_, o) = scenario(Chooser::default_run(), &s, false, false);
                if sync {
                    out.add("blocking_api_executions", 1);
                }
                record(&s, &[], &[], &o, &mut out);
            }
        }
    }
    // ---- part B / C: faults on single calls
    let bound = if tier.is_quick() { 1 } else { 2 };
    for (real_peers, sync) in [(false, false), (true, false), (false, true)] {
        for first in 0..N_APIS {
            if !mine() {
                continue;
            }
            let s = Script { first, second: None, at_event: None, after: 0, real_peers, sync };
            let mut ex = Explorer::new(if real_peers || sync { 1 } else { bound }, (0, 1));
            if !tier.is_quick() {
                ex.deadline = Some(std::time::Instant::now() + std::time::Duration::from_secs(20 * 60));
            }
            let mut n = 0u64;
            ex.explore(&mut |chooser, _| {
                n += 1;
                let (ch, o) = scenario(chooser, &s, true, n % 97 == 1);
                record(&s, &ch.choices(), &ch.trace, &o, &mut out);
                (ch, true)
            });
            out.capped |= ex.stats.capped;
            out.gauge_max("max_choice_points", ex.stats.max_choice_points);
        }
    }
    // ---- part E: two overlapping puts on different targets under every single fault (their
    // lookups can end by timeout in the same tick when a peer is silent)
    if tier.is_quick() {
        let puts = [(4usize, 0u8), (5, 0), (6, 1), (8, 2), (11, 3)];
        for (first, t1) in puts {
            for (second, t2) in puts {
                if t1 == t2 || !mine() {
                    continue;
                }
                let s = Script { first, second: Some(second), at_event: Some(0), after: 0, real_peers: false, sync: false };
                let mut ex = Explorer::new(1, (0, 1));
                ex.explore(&mut |chooser, _| {
                    let (ch, o) = scenario(chooser, &s, true, false);
                    record(&s, &ch.choices(), &ch.trace, &o, &mut out);
                    out.add("overlapping_put_pairs_under_fault", 1);
                    (ch, true)
                });
            }
        }
    }
    if !tier.is_quick() {
        // pairs under single faults at three placements
        for first in 0..N_APIS {
            for second in 0..N_APIS {
                for (at_event, after) in [(Some(0u32), 0u64), (Some(4), 0), (None, SEC)] {
                    if !mine() {
                        continue;
                    }
                    let s = Script { first, second: Some(second), at_event, after, real_peers: false, sync: false };
                    let mut ex = Explorer::new(1, (0, 1));
                    ex.explore(&mut |chooser, _| {
                        let (ch, o) = scenario(chooser, &s, true, false);
                        record(&s, &ch.choices(), &ch.trace, &o, &mut out);
                        (ch, true)
                    });
                }
            }
        }
    }
    for which in 0..3 {
        if mine() {
            open_iterator(which, &mut out);
        }
    }
    out.witness("scenarios in which every call completed", out.count("all_calls_completed") > 0);
    out.sample(json!({"script": "find_node(x) then put_immutable->x issued 1 s after the first call completed", "peers": "3 scripted honest endpoints"}));
    out.sample(json!({"script": "get_immutable(x)", "deviations": ["late reply at choice point 7", "peer 2 falls silent before network event 3"]}));
    out
}

fn replay(v: &Value) -> Result<Option<Violation>, String> {
    if v.get("part").and_then(|p| p.as_str()) == Some("open-iterator") {
        let mut out = Partial::default();
        open_iterator(v.get("which").and_then(|x| x.as_u64()).ok_or("which")? as usize, &mut out);
        return Ok(out.violations.into_iter().next());
    }
    let s = v.get("script").ok_or("script")?;
    let sc = Script {
        first: s.get("first").and_then(|x| x.as_u64()).ok_or("first")? as usize,
        second: s.get("second").and_then(|x| x.as_u64()).map(|x| x as usize),
        at_event: s.get("at_event").and_then(|x| x.as_u64()).map(|x| x as u32),
        after: s.get("after_ms").and_then(|x| x.as_u64()).unwrap_or(0) * MS,
        real_peers: s.get("real_peers").and_then(|x| x.as_bool()).unwrap_or(false),
        sync: s.get("sync").and_then(|x| x.as_bool()).unwrap_or(false),
    };
    let choices: Vec<u32> = v.get("choices").and_then(|c| c.as_array()).map(|a| a.iter().filter_map(|x| x.as_u64().map(|x| x as u32)).collect()).unwrap_or_default();
    let faults = !choices.is_empty();
    let (ch, o) = scenario(Chooser::new(choices.clone()), &sc, faults, false);
    let mut out = Partial::default();
    record(&sc, &ch.choices(), &ch.trace, &o, &mut out);
    Ok(out.violations.into_iter().next())
}
