//! C17 - local write-conflict detection for concurrent mutable puts.
//! Engine E1. Part 1: a second put_mutable on the same key/salt, in every relation to the
//! first (identical / lower / equal-seq-other-value / higher seq x cas none / = in-flight seq /
//! other), placed before every event of the first put's lifetime and after its completion.
//! Part 2: every split of {ack, 301, 302} among 3-4 scripted storers, for mutable puts and for
//! the other put kinds through the typed APIs.

use serde_json::{json, Value};

use dht::MutableItem;

use super::CheckDef;
use crate::epnet::{EpNet, PutReply};
use crate::explore::Chooser;
use crate::krpc::{self, Id20};
use crate::report::{CheckInfo, Partial, Tier, Violation};
use crate::sim::*;

pub fn def() -> CheckDef {
    CheckDef {
        id: "C17",
        info,
        shards: |_| super::cores(),
        run,
        replay,
    }
}

fn info(tier: Tier) -> CheckInfo {
    let mut ci = CheckInfo {
        id: "C17",
        level: "model_checking",
        rule: format!(
            "Tier {}: one real node, 3 scripted storers. Part 1: P1 = put_mutable(seq 5); P2 on the same key and salt with relation in {{identical item, lower seq, equal seq other value, higher seq}} x cas in {{none, 5, 4}} x salt in {{none, s}}, issued before every event (network event or loop iteration that changes the node's put state) of P1's lifetime and 1 s after its completion. Whether P1 is still in flight when P2 is handled is read from the node's snapshot. Oracle: in flight -> identical: both Ok; lower seq: NotMostRecent; otherwise no cas: ConflictRisk, cas = 5: P2 proceeds and both callers get the network's answer, other cas: CasFailed; a put refused locally is never sent (no storer receives its item); after completion: no local error. Part 2: every split of {{ack, 301, 302}} among {} storers in every arrival order, for put_mutable (301/302 from more than half => CasFailed/NotMostRecent; below a majority either kind of error, Ok only with an ack) and for put_immutable / announce_peer / announce_signed_peer through the typed APIs (never a concurrency error, never a panic).",
            tier.name(),
            if tier.is_quick() { "3" } else { "3 and 4" }
        ),
        assumptions: vec!["scripted storers acknowledge every write in part 1".into()],
    };
    ci.rule.push_str(" Added: both parts also through the blocking Dht API; an accepted second put must reach a storer; every storer reply delivered one, two and three times. Part 3: real storage nodes instead of scripted ones (4 quick; 3, 4, 6 thorough): a stored seq 4, then put(seq 5, cas none / 4) and an identical call before every event of its lifetime, async and blocking API: both return Ok. Also: the second call one second after a first put that failed because no storer answered - never a concurrency error.");
    ci
}

const REL: [&str; 4] = ["identical", "lower-seq", "equal-seq-other-value", "higher-seq"];
const CAS: [&str; 5] = ["no-cas", "cas=inflight-seq", "cas-other", "cas-above-inflight-seq", "cas=i64::MAX"];

fn sk() -> ed25519_dalek::SigningKey {
    krpc::signing_key(0x71)
}

fn item(seq: i64, val: &[u8], salt: Option<&[u8]>) -> MutableItem {
    MutableItem::new(&sk(), val, seq, salt)
}

#[derive(Clone, Debug)]
struct P1Cfg {
    rel: usize,
    cas: usize,
    salted: bool,
    /// Some(n): before the n-th event of P1's lifetime; None: 1 s after P1 completed
    at: Option<u32>,
    /// both puts go through the blocking `Dht` API
    sync: bool,
    /// the storers fall silent once the node has joined: the first put fails (no storage node
    /// answers its lookup); the second call comes after that failure
    dead: bool,
    /// with `dead`: instead of staying silent the storers answer the put's lookup WITHOUT a write
    /// token (nodes that do not store) and report a new public address for the node (its NAT
    /// mapping changed): the first put fails all the same - nobody can be written to
    tokenless: bool,
}

struct Out1 {
    r1: String,
    r2: String,
    in_flight: bool,
    events: u32,
    steps: u64,
    digests: Vec<u64>,
    problems: Vec<(String, String)>,
}

fn fmt(r: Option<&CallResult>) -> String {
    match r {
        Some(CallResult::Put(Ok(_))) => "Ok".into(),
        Some(CallResult::Put(Err(e))) => format!("{e:?}"),
        Some(CallResult::Panicked(p)) => format!("PANIC({})", p.chars().take(60).collect::<String>()),
        Some(o) => format!("{o:?}").chars().take(30).collect(),
        None => "PENDING".into(),
    }
}

fn part1(cfg: &P1Cfg, track: bool) -> Out1 {
    let mut w = World::new(Chooser::default_run());
    w.track_states = track;
    let salt: Option<&[u8]> = if cfg.salted { Some(b"s") } else { None };
    let p1 = item(5, b"first", salt);
    let target: Id20 = *p1.target().as_bytes();
    let ids = crate::epnet::ranked_ids(&target, 3);
    let mut net = EpNet::new(&mut w, &ids);
    let boots = net.addrs()[..1].to_vec();
    let a = w.add_node(NodeCfg::new([9, 9, 9, 9], 7000).bootstrap(&boots).id([0x21; 20]));
    let h = w.now + 3 * SEC;
    w.run_until(h, |w, ev| {
        if let Event::EndpointRecv { ep, dgram } = ev {
            net.handle(w, *ep, dgram);
        }
        false
    });
    let p2 = match cfg.rel {
        0 => p1.clone(),
        1 => item(4, b"older", salt),
        2 => item(5, b"other", salt),
        _ => item(6, b"newer", salt),
    };
    let cas = match cfg.cas {
        0 => None,
        1 => Some(5),
        2 => Some(4),
        3 => Some(6),
        _ => Some(i64::MAX),
    };
    w.sync_api = cfg.sync;
    let c1 = w.call_put_mutable(a, p1, None);
    let mut c2: Option<usize> = None;
    let mut in_flight = false;
    let mut events = 0u32;
    let mut done1: Option<u64> = None;
    let h = w.now + 60 * SEC;
    let iters_at_c1 = w.nodes[a].iterations;
    let issue2 = |w: &mut World, c2: &mut Option<usize>, in_flight: &mut bool| {
        // P2 is handled at the top of the node's next iteration. P1 is in flight then iff its
        // message has not even been consumed yet, or the node's put table holds the target now.
        let snap = w.snapshot(a);
        *in_flight = w.nodes[a].iterations == iters_at_c1 || snap.core.put_queries.iter().any(|q| *q.target.as_bytes() == target);
        if cfg.at.is_none() {
            // the first caller has had its result for a second: that put is complete by
            // definition, whatever the node still keeps about it
            *in_flight = false;
        }
        *c2 = Some(w.call_put_mutable(a, p2.clone(), cas));
    };
    if cfg.at == Some(0) {
        issue2(&mut w, &mut c2, &mut in_flight);
    }
    loop {
        if let Some(d) = done1 {
            if c2.is_none() && cfg.at.is_none() && w.now >= d + SEC {
                issue2(&mut w, &mut c2, &mut in_flight);
            }
        }
        if c2.map(|c| w.result(c).is_some()).unwrap_or(false) && w.result(c1).is_some() {
            break;
        }
        let step_h = match (done1, c2, cfg.at) {
            (Some(d), None, None) => d + SEC,
            _ => h,
        };
        let before = w.snapshot(a);
        let Some(ev) = w.step(step_h) else {
            if step_h < h {
                w.advance_to(step_h);
                continue;
            }
            break;
        };
        if let Event::EndpointRecv { ep, dgram } = &ev {
            if !cfg.dead {
                net.handle(&mut w, *ep, dgram);
            } else if cfg.tokenless {
                let i = net.index_of(*ep).expect("ep");
                if let Some(q) = krpc::Krpc::parse(&dgram.bytes) {
                    if q.is_query() {
                        net.eps[i].issue_token = false;
                        if let Some(bytes) = net.honest_reply(i, &q, dgram.from, w.now) {
                            let (mut tree, _) = crate::bencode::decode(&bytes).expect("own reply");
                            let moved = std::net::SocketAddrV4::new(*dgram.from.ip(), 7001);
                            tree.set("ip", crate::bencode::B::bytes(krpc::compact_addr(&moved)));
                            let from = net.eps[i].addr;
                            w.send_raw(from, dgram.from, crate::bencode::encode(&tree));
                        }
                    }
                }
            }
        }
        if done1.is_none() && w.result(c1).is_some() {
            done1 = Some(w.now);
        }
        // an "event" = a network event, or an iteration that changed the node's put/lookup state
        let changed = match &ev {
            Event::EndpointRecv { .. } | Event::Arrived { .. } => true,
            Event::Iter { node } if *node == a => {
                let after = w.snapshot(a);
                after.core.put_queries.len() != before.core.put_queries.len()
                    || after.core.iterative_queries.len() != before.core.iterative_queries.len()
                    || after.core.put_queries.iter().map(|q| q.inflight_requests.len()).sum::<usize>() != before.core.put_queries.iter().map(|q| q.inflight_requests.len()).sum::<usize>()
            }
            _ => false,
        };
        if changed && done1.is_none() {
            events += 1;
            if c2.is_none() && cfg.at == Some(events) {
                issue2(&mut w, &mut c2, &mut in_flight);
            }
        }
        if done1.is_some() && c2.is_none() && cfg.at.is_some() {
            // P1 finished before the requested event: not an instance of this placement
            break;
        }
    }
    let r1 = fmt(w.result(c1));
    let r2 = fmt(c2.and_then(|c| w.result(c)));
    let mut problems = vec![];
    if c2.is_some() {
        if cfg.dead {
            if ["ConflictRisk", "CasFailed", "NotMostRecent"].iter().any(|e| r2.contains(e)) {
                problems.push((
                    format!("second-put-result/after-failed-first/{}/{}", REL[cfg.rel], CAS[cfg.cas]),
                    format!("the first put failed ({r1}: no storage node answered) and its caller had the error for a second; the second put ({}, {}) was refused locally with {r2} as if the first were still in flight", REL[cfg.rel], CAS[cfg.cas]),
                ));
            }
            if r1 == "Ok" {
                problems.push(("part1-setup/dead-network".into(), format!("the first put returned Ok although no storer answered")));
            }
            // and at rest the node keeps nothing about either put
            let snap = w.snapshot(a);
            if c2.map(|c| w.result(c).is_some()).unwrap_or(false) && snap.core.put_queries.iter().any(|q| *q.target.as_bytes() == target) {
                w.run_for(10 * SEC);
                let snap = w.snapshot(a);
                if snap.core.put_queries.iter().any(|q| *q.target.as_bytes() == target) {
                    problems.push(("put-kept-after-completion".into(), format!("both puts have returned ({r1}, {r2}) and ten more seconds have passed: the node still holds a put query for the target")));
                }
            }
        }
        let expect: Vec<&str> = if cfg.dead {
            vec![r2.as_str()]
        } else if in_flight {
            match (cfg.rel, cfg.cas) {
                (0, _) => vec!["Ok"],
                (1, _) => vec!["NotMostRecent"],
                (_, 0) => vec!["ConflictRisk"],
                (_, 1) => vec!["Ok"],
                _ => vec!["CasFailed"],
            }
        } else {
            vec!["Ok"]
        };
        if !expect.contains(&r2.as_str()) {
            problems.push((
                format!("second-put-result/{}/{}/{}", if in_flight { "in-flight" } else { "after-completion" }, REL[cfg.rel], CAS[cfg.cas]),
                format!("second put ({}, {}) handled {} returned {r2}, expected {expect:?} (first put returned {r1})", REL[cfg.rel], CAS[cfg.cas], if in_flight { "while the first was in flight" } else { "after the first completed" }),
            ));
        }
        // a write that was refused locally must not have gone out: no storer may have received
        // the second item
        if in_flight && cfg.rel != 0 && ["ConflictRisk", "CasFailed", "NotMostRecent"].contains(&r2.as_str()) {
            let want_v: &[u8] = match cfg.rel {
                1 => b"older",
                2 => b"other",
                _ => b"newer",
            };
            let leaked = net.eps.iter().filter(|e| e.puts.iter().any(|p| p.raw.arg_bytes("v") == Some(want_v))).count();
            if leaked > 0 {
                problems.push((
                    format!("refused-put-was-sent/{}/{}", REL[cfg.rel], CAS[cfg.cas]),
                    format!("second put ({}, {}) was refused locally with {r2} while the first was in flight, yet {leaked} storer(s) received its item", REL[cfg.rel], CAS[cfg.cas]),
                ));
            }
        }
        // a second put that was accepted ("it supersedes the in-flight write", or it came after
        // the first completed) and reports Ok must have gone out: some storer received its item
        if r2 == "Ok" && cfg.rel != 0 {
            let want_v: &[u8] = match cfg.rel {
                1 => b"older",
                2 => b"other",
                _ => b"newer",
            };
            let received = net.eps.iter().filter(|e| e.puts.iter().any(|p| p.raw.arg_bytes("v") == Some(want_v))).count();
            if received == 0 {
                problems.push((
                    format!("accepted-put-never-sent/{}/{}/{}", if in_flight { "in-flight" } else { "after-completion" }, REL[cfg.rel], CAS[cfg.cas]),
                    format!("second put ({}, {}) handled {} returned Ok, but no storer ever received its item", REL[cfg.rel], CAS[cfg.cas], if in_flight { "while the first was in flight" } else { "after the first completed" }),
                ));
            }
        }
        // the first call's outcome: Ok unless it was superseded and the network failed
        if r1 != "Ok" && !cfg.dead {
            problems.push((format!("first-put-result/{}/{}", REL[cfg.rel], CAS[cfg.cas]), format!("first put returned {r1} although every storer acknowledges")));
        }
    }
    if let Some(dead) = w.any_actor_panicked() {
        problems.push(("actor-died".into(), format!("actor thread died: node {dead} {}", w.death_reason(dead))));
    }
    Out1 { r1, r2, in_flight, events, steps: w.steps, digests: w.state_digests.iter().copied().collect(), problems }
}

// ------------------------------------------------------------------------------------- part 2

const KINDS: [&str; 4] = ["put_mutable", "put_immutable", "announce_peer", "announce_signed_peer"];

fn permutation(n: usize, mut k: usize) -> Vec<usize> {
    let mut items: Vec<usize> = (0..n).collect();
    let mut out = vec![];
    for i in (1..=n).rev() {
        out.push(items.remove(k % i));
        k /= i;
    }
    out
}

fn part2(kind: usize, replies: &[u8], order: usize, sync: bool, copies: usize) -> (String, u64, Vec<(String, String)>) {
    let mut w = World::new(Chooser::default_run());
    let n = replies.len();
    let mitem = item(5, b"split", None);
    let imm: &[u8] = b"c17 immutable";
    let target: Id20 = match kind {
        0 => *mitem.target().as_bytes(),
        1 => krpc::immutable_target(imm),
        2 => [0x7A; 20],
        _ => [0x7B; 20],
    };
    let ids = crate::epnet::ranked_ids(&target, n);
    let mut net = EpNet::new(&mut w, &ids);
    for (i, r) in replies.iter().enumerate() {
        net.eps[i].put_reply = match r {
            0 => PutReply::Ack,
            1 => PutReply::Error(301),
            _ => PutReply::Error(302),
        };
    }
    let boots = net.addrs()[..1].to_vec();
    let a = w.add_node(NodeCfg::new([9, 9, 9, 9], 7000).bootstrap(&boots).id([0x21; 20]));
    let rank = permutation(n, order);
    let pump = |w: &mut World, net: &mut EpNet, ev: &Event| {
        if let Event::EndpointRecv { ep, dgram } = ev {
            let i = net.index_of(*ep).expect("ep");
            if let Some(q) = krpc::Krpc::parse(&dgram.bytes) {
                if q.is_query() {
                    let is_put = matches!(q.q.as_deref(), Some("put") | Some("announce_peer") | Some("announce_signed_peer"));
                    if let Some(bytes) = net.honest_reply(i, &q, dgram.from, w.now) {
                        let lat = if is_put { (10 + 40 * rank[i] as u64) * MS } else { DEFAULT_LATENCY };
                        let from = net.eps[i].addr;
                        // the network may deliver a storer's reply more than once: one vote all the same
                        for c in 0..(if is_put { copies } else { 1 }) {
                            w.send_raw_with_latency(from, dgram.from, bytes.clone(), lat + c as u64 * 3 * MS);
                        }
                    }
                }
            }
        }
    };
    let h = w.now + 3 * SEC;
    w.run_until(h, |w, ev| {
        pump(w, &mut net, ev);
        false
    });
    w.sync_api = sync;
    let call = match kind {
        0 => w.call_put_mutable(a, mitem, None),
        1 => w.call_put_immutable(a, imm.to_vec()),
        2 => w.call_announce_peer(a, target.into(), Some(1234)),
        _ => w.call_announce_signed_peer(a, target.into(), krpc::signing_key(0x72)),
    };
    let h = w.now + 60 * SEC;
    w.run_until(h, |w, ev| {
        pump(w, &mut net, ev);
        w.result(call).is_some()
    });
    let r = fmt(w.result(call));
    let mut problems = vec![];
    let acks = replies.iter().filter(|r| **r == 0).count();
    let n301 = replies.iter().filter(|r| **r == 1).count();
    let n302 = replies.iter().filter(|r| **r == 2).count();
    let split = format!("ack{acks}-e301x{n301}-e302x{n302}{}", if copies > 1 { format!("-each-reply-x{copies}") } else { String::new() });
    if r.starts_with("PANIC") {
        problems.push((format!("typed-api-panicked/{}", KINDS[kind]), format!("{} with storers answering {split}: the API call panicked in the caller: {r}", KINDS[kind])));
    } else if r == "PENDING" {
        problems.push((format!("never-completes/{}", KINDS[kind]), format!("{} with {split} did not complete", KINDS[kind])));
    } else if kind == 0 {
        let majority = n / 2 + 1;
        if n301 >= majority && r != "CasFailed" {
            problems.push((format!("majority-301-not-reported/{split}"), format!("put_mutable with {split} (arrival order #{order}) returned {r}, expected CasFailed")));
        } else if n302 >= majority && r != "NotMostRecent" {
            problems.push((format!("majority-302-not-reported/{split}"), format!("put_mutable with {split} (arrival order #{order}) returned {r}, expected NotMostRecent")));
        } else if n301 < majority && n302 < majority {
            // below a majority: Ok needs an ack; CasFailed needs a 301; NotMostRecent a 302
            let ok = match r.as_str() {
                "Ok" => acks > 0,
                "CasFailed" => n301 > 0 && acks == 0,
                "NotMostRecent" => n302 > 0 && acks == 0,
                "Timeout" | "NoClosestNodes" => acks == 0,
                other => other.starts_with("ErrorResponse") && acks == 0,
            };
            if !ok {
                problems.push((format!("minority-split/{split}"), format!("put_mutable with {split} (arrival order #{order}) returned {r}")));
            }
        }
    } else {
        let concurrency = matches!(r.as_str(), "CasFailed" | "NotMostRecent" | "ConflictRisk");
        if concurrency {
            problems.push((format!("concurrency-error-for/{}", KINDS[kind]), format!("{} with {split} returned {r}", KINDS[kind])));
        } else if (r == "Ok") != (acks > 0) {
            problems.push((format!("ack-truth/{}", KINDS[kind]), format!("{} with {split} returned {r}", KINDS[kind])));
        }
    }
    if let Some(dead) = w.any_actor_panicked() {
        problems.push(("actor-died".into(), format!("actor thread died: node {dead} {}", w.death_reason(dead))));
    }
    (r, w.steps, problems)
}


// ------------------------------------------------------------------------------------- part 3
// The same duplicate call against REAL storage nodes (which honour cas the BEP44 way): S servers
// and one writer. The writer stores seq 4, then P1 = put(seq 5, cas) and an identical second call
// before every event of P1's lifetime. Both must succeed and seq 5 must be what the network holds.

struct Out3 {
    r1: String,
    r2: String,
    events: u32,
    steps: u64,
    holders: usize,
    problems: Vec<(String, String)>,
}

fn part3(servers: usize, with_cas: bool, at: Option<u32>, sync: bool) -> Out3 {
    let mut w = World::new(Chooser::default_run());
    let addrs: Vec<std::net::SocketAddrV4> = (0..=servers).map(|j| std::net::SocketAddrV4::new([20, 31, j as u8, 7].into(), 6881)).collect();
    let mut nodes = vec![];
    for j in 0..=servers {
        let boots: Vec<std::net::SocketAddrV4> = if j == 0 { vec![] } else { vec![addrs[0]] };
        let mut id = [0u8; 20];
        id[0] = (j as u8 + 1).wrapping_mul(0x25);
        id[19] = j as u8;
        let mut nc = NodeCfg::new([20, 31, j as u8, 7], 6881).bootstrap(&boots).id(id);
        if j < servers {
            nc = nc.server();
        }
        let n = w.add_node(nc);
        nodes.push(n);
        let c = w.call_bootstrapped(n);
        let h = w.now + 60 * SEC;
        w.run_calls(&[c], h);
    }
    w.run_for(2 * SEC);
    let a = nodes[servers];
    let first = item(4, b"stored before", None);
    let target: Id20 = *first.target().as_bytes();
    let c0 = w.call_put_mutable(a, first, None);
    let h = w.now + 60 * SEC;
    w.run_calls(&[c0], h);
    let mut problems = vec![];
    if fmt(w.result(c0)) != "Ok" {
        problems.push(("part3-setup".to_string(), format!("the preparing put of seq 4 returned {}", fmt(w.result(c0)))));
    }
    w.run_for(2 * SEC);
    w.sync_api = sync;
    let p1 = item(5, b"first", None);
    let cas = if with_cas { Some(4) } else { None };
    let c1 = w.call_put_mutable(a, p1.clone(), cas);
    let mut c2: Option<usize> = None;
    let mut events = 0u32;
    let mut done1 = false;
    if at == Some(0) {
        c2 = Some(w.call_put_mutable(a, p1.clone(), cas));
    }
    let h = w.now + 60 * SEC;
    let sig = |s: &dht::verif::ActorSnapshot| (s.core.put_queries.len(), s.core.iterative_queries.len(), s.core.put_queries.iter().map(|q| q.inflight_requests.len()).sum::<usize>());
    let mut before = sig(&w.snapshot(a));
    loop {
        if w.result(c1).is_some() && c2.map(|c| w.result(c).is_some()).unwrap_or(true) {
            break;
        }
        let Some(ev) = w.step(h) else { break };
        if !done1 && w.result(c1).is_some() {
            done1 = true;
        }
        if let Event::Iter { node } = &ev {
            if *node == a && !done1 {
                let after = sig(&w.snapshot(a));
                if after != before {
                    before = after;
                    events += 1;
                    if c2.is_none() && at == Some(events) {
                        c2 = Some(w.call_put_mutable(a, p1.clone(), cas));
                    }
                }
            }
        }
    }
    let r1 = fmt(w.result(c1));
    let r2 = fmt(c2.and_then(|c| w.result(c)));
    w.sync_api = false;
    w.run_for(2 * SEC);
    let mut holders = 0;
    for n in &nodes[..servers] {
        let s = w.snapshot(*n);
        if s.core.server.mutable.iter().any(|m| *m.target.as_bytes() == target && m.seq == 5) {
            holders += 1;
        }
    }
    if c2.is_some() {
        let tag = if with_cas { "with-cas" } else { "no-cas" };
        if r2 != "Ok" {
            problems.push((format!("identical-put-fails/real-storers/second/{tag}"), format!("an identical put_mutable (seq 5, cas {cas:?}) issued while the first was in flight returned {r2} (first: {r1}); {holders} of {servers} storage nodes hold seq 5")));
        }
        if r1 != "Ok" {
            problems.push((format!("identical-put-fails/real-storers/first/{tag}"), format!("put_mutable (seq 5, cas {cas:?}) returned {r1} after an identical call was made while it was in flight (second: {r2}); {holders} of {servers} storage nodes hold seq 5")));
        }
    } else if at.is_none() && r1 != "Ok" {
        problems.push(("part3-setup".to_string(), format!("the undisturbed put of seq 5 returned {r1}")));
    }
    if let Some(dead) = w.any_actor_panicked() {
        problems.push(("actor-died".into(), format!("actor thread died: node {dead} {}", w.death_reason(dead))));
    }
    Out3 { r1, r2, events, steps: w.steps, holders, problems }
}

fn run(tier: Tier, shard: usize, nshards: usize, _seed: u64) -> Partial {
    let mut out = Partial::default();
    let mut unit = 0usize;
    let mut mine = || {
        unit += 1;
        unit % nshards == shard
    };
    // ---- part 1
    for salted in [false, true] {
        // number of events in P1's lifetime (placement None never issues P2 early)
        let base = part1(&P1Cfg { rel: 0, cas: 0, salted, at: None, sync: false, dead: false, tokenless: false }, false);
        out.gauge_max("events_in_first_put_lifetime", base.events as u64);
        for rel in 0..4 {
            for cas in 0..CAS.len() {
                let mut placements: Vec<Option<u32>> = (0..=base.events).map(Some).collect();
                placements.push(None);
                for (at, sync) in placements.into_iter().flat_map(|p| [(p, false), (p, true)]) {
                    if !mine() {
                        continue;
                    }
                    let cfg = P1Cfg { rel, cas, salted, at, sync, dead: false, tokenless: false };
                    let o = part1(&cfg, at == Some(2));
                    out.add("executions", 1);
                    out.add("transitions", o.steps);
                    out.digests.extend(o.digests.iter());
                    if o.r2 != "PENDING" {
                        out.add(if o.in_flight { "second_handled_in_flight" } else { "second_handled_after" }, 1);
                    }
                    out.outcomes.insert(format!("{}:{}:{}:{}->{}|{}", REL[rel], CAS[cas], if o.in_flight { "inflight" } else { "after" }, salted, o.r1, o.r2));
                    if sync {
                        out.add("blocking_api_executions", 1);
                    }
                    for (k, d) in &o.problems {
                        out.violation(format!("{k}{}", if sync { "/blocking-api" } else { "" }), format!("{}{d} [placement {at:?}, salted {salted}]", if sync { "[blocking Dht API] " } else { "" }), json!({"part": 1, "rel": rel, "cas": cas, "salted": salted, "at": at, "sync": sync}));
                    }
                }
                // the second call after a first put that FAILED (silent storers)
                for (sync, tokenless) in [(false, false), (true, false), (false, true), (true, true)] {
                    if !mine() {
                        continue;
                    }
                    let o = part1(&P1Cfg { rel, cas, salted, at: None, sync, dead: true, tokenless }, false);
                    out.add("executions", 1);
                    out.add("transitions", o.steps);
                    out.add("second_after_failed_first", (o.r2 != "PENDING" && o.r1 != "Ok") as u64);
                    out.outcomes.insert(format!("dead:{}:{}:{}->{}|{}", REL[rel], CAS[cas], salted, o.r1, o.r2));
                    for (k, d) in &o.problems {
                        out.violation(format!("{k}{}{}", if tokenless { "/tokenless-storers-new-address" } else { "" }, if sync { "/blocking-api" } else { "" }), format!("{}{}{d} [salted {salted}]", if sync { "[blocking Dht API] " } else { "" }, if tokenless { "[the storers answer without a token and report a new address] " } else { "" }), json!({"part": 1, "rel": rel, "cas": cas, "salted": salted, "at": null, "sync": sync, "dead": true, "tokenless": tokenless}));
                    }
                }
            }
        }
    }
    // ---- part 2
    let ns: &[usize] = if tier.is_quick() { &[3] } else { &[3, 4] };
    for &n in ns {
        for kind in 0..4 {
            for c in 0..3usize.pow(n as u32) {
                let replies: Vec<u8> = (0..n).map(|i| ((c / 3usize.pow(i as u32)) % 3) as u8).collect();
                let orders: usize = if kind == 0 { (1..=n).product() } else { 1 };
                for (order, sync, copies) in (0..orders).flat_map(|o| [(o, false, 1), (o, true, 1), (o, false, 2), (o, false, 3)]) {
                    if !mine() {
                        continue;
                    }
                    let (r, steps, problems) = part2(kind, &replies, order, sync, copies);
                    out.add("executions", 1);
                    out.add("transitions", steps);
                    out.outcomes.insert(format!("split:{}:{replies:?}->{r}", KINDS[kind]));
                    for (k, d) in problems {
                        out.violation(format!("{k}{}", if sync { "/blocking-api" } else { "" }), format!("{}{d}", if sync { "[blocking Dht API] " } else { "" }), json!({"part": 2, "kind": kind, "replies": replies, "order": order, "sync": sync, "copies": copies}));
                    }
                }
            }
        }
    }
    // ---- part 3
    for &servers in if tier.is_quick() { &[4usize][..] } else { &[3usize, 4, 6][..] } {
        for with_cas in [false, true] {
            let base = part3(servers, with_cas, None, false);
            out.gauge_max("events_in_first_put_lifetime_real_storers", base.events as u64);
            for (k, d) in &base.problems {
                out.violation(k.clone(), d.clone(), json!({"part": 3, "servers": servers, "with_cas": with_cas, "at": null, "sync": false}));
            }
            for (at, sync) in (0..=base.events).flat_map(|e| [(Some(e), false), (Some(e), true)]) {
                if !mine() {
                    continue;
                }
                let o = part3(servers, with_cas, at, sync);
                out.add("executions", 1);
                out.add("transitions", o.steps);
                out.add("duplicate_calls_against_real_storers", (o.r2 != "PENDING") as u64);
                out.outcomes.insert(format!("real:{servers}:{with_cas}->{}|{}|holders{}", o.r1, o.r2, o.holders));
                for (k, d) in &o.problems {
                    out.violation(format!("{k}{}", if sync { "/blocking-api" } else { "" }), format!("{}{d} [placement {at:?}, {servers} storage nodes]", if sync { "[blocking Dht API] " } else { "" }), json!({"part": 3, "servers": servers, "with_cas": with_cas, "at": at, "sync": sync}));
                }
            }
        }
    }
    out.witness("second put handled while the first was in flight", out.count("second_handled_in_flight") > 0 || shard != 0);
    out.witness("second put handled after a failed first put", out.count("second_after_failed_first") > 0 || shard != 0);
    out.witness("second put handled after the first completed", out.count("second_handled_after") > 0 || shard != 0);
    out.sample(json!({"part": 1, "second": "equal-seq-other-value", "cas": "no-cas", "placement": "before event 4 of the first put (store phase)"}));
    out.sample(json!({"part": 2, "kind": "put_mutable", "replies": ["ack", "301", "301"], "arrival_order": 3}));
    out
}

fn replay(v: &Value) -> Result<Option<Violation>, String> {
    let mut out = Partial::default();
    if v.get("part").and_then(|p| p.as_u64()) == Some(3) {
        let servers = v.get("servers").and_then(|x| x.as_u64()).ok_or("servers")? as usize;
        let with_cas = v.get("with_cas").and_then(|x| x.as_bool()).ok_or("with_cas")?;
        let at = v.get("at").and_then(|x| x.as_u64()).map(|x| x as u32);
        let sync = v.get("sync").and_then(|x| x.as_bool()).unwrap_or(false);
        for (k, d) in part3(servers, with_cas, at, sync).problems {
            out.violation(format!("{k}{}", if sync { "/blocking-api" } else { "" }), d, v.clone());
        }
    } else if v.get("part").and_then(|p| p.as_u64()) == Some(2) {
        let kind = v.get("kind").and_then(|x| x.as_u64()).ok_or("kind")? as usize;
        let order = v.get("order").and_then(|x| x.as_u64()).ok_or("order")? as usize;
        let replies: Vec<u8> = v.get("replies").and_then(|x| x.as_array()).ok_or("replies")?.iter().filter_map(|x| x.as_u64().map(|x| x as u8)).collect();
        let sync = v.get("sync").and_then(|x| x.as_bool()).unwrap_or(false);
        let copies = v.get("copies").and_then(|x| x.as_u64()).unwrap_or(1) as usize;
        for (k, d) in part2(kind, &replies, order, sync, copies).2 {
            out.violation(format!("{k}{}", if sync { "/blocking-api" } else { "" }), d, v.clone());
        }
    } else {
        let cfg = P1Cfg {
            rel: v.get("rel").and_then(|x| x.as_u64()).ok_or("rel")? as usize,
            cas: v.get("cas").and_then(|x| x.as_u64()).ok_or("cas")? as usize,
            salted: v.get("salted").and_then(|x| x.as_bool()).unwrap_or(false),
            at: v.get("at").and_then(|x| x.as_u64()).map(|x| x as u32),
            sync: v.get("sync").and_then(|x| x.as_bool()).unwrap_or(false),
            dead: v.get("dead").and_then(|x| x.as_bool()).unwrap_or(false),
            tokenless: v.get("tokenless").and_then(|x| x.as_bool()).unwrap_or(false),
        };
        let sync = cfg.sync;
        for (k, d) in part1(&cfg, false).problems {
            out.violation(format!("{k}{}", if sync { "/blocking-api" } else { "" }), d, v.clone());
        }
    }
    Ok(out.violations.into_iter().next())
}
