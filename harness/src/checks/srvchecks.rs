//! C03, C04, C15 (and the store-capacity clause of C20): explicit-state search over the real
//! `Server` with the reference model of `srv.rs` in lock-step.

use std::net::Ipv4Addr;

use serde_json::{json, Value};

use super::CheckDef;
use crate::bfs::Bfs;
use crate::report::{CheckInfo, Partial, Tier, Violation};
use crate::sim::{MIN, SEC};
use crate::srv::{replay_path, src_addr, Act, Cas, Sig, SrvCfg, SrvState, Tok, VetoFilter, N_SOURCES};

fn base(name: &'static str, alphabet: Vec<Act>, props: &[&'static str]) -> SrvCfg {
    SrvCfg {
        name,
        alphabet,
        cap_values: 8,
        cap_mutable: None,
        cap_hashes: 4,
        cap_peers: 4,
        veto_ip: None,
        prime: vec![
            Act::Get { src: 0, target: 6, seq: None },
            Act::Get { src: 2, target: 6, seq: None },
            Act::Get { src: 3, target: 6, seq: None },
        ],
        properties: props.to_vec(),
    }
}

const TICKS: [u64; 3] = [SEC, 4 * MIN + 59 * SEC, 5 * MIN + SEC];

fn token_variants() -> Vec<Tok> {
    vec![Tok::OtherIp, Tok::Foreign, Tok::Empty, Tok::Mutated(0), Tok::Mutated(3), Tok::Oldest]
}

/// One info hash announced to by 24 peers (more than the 20 a reply carries), plain and signed:
/// replies are then a sample of the store. A short alphabet on top: reads, a new announcer, an
/// old one announcing again, and announcers 25-27 (the 27th overflows the capacity of 26).
fn many_announcers(name: &'static str, props: &[&'static str]) -> SrvCfg {
    let a = vec![
        Act::GetPeers { src: 0, ih: 0 },
        Act::GetSigned { src: 2, ih: 0 },
        Act::Announce { src: 0, ih: 0, port: 7777, implied: None, tok: Tok::Fresh },
        Act::Announce { src: 4, ih: 0, port: 9999, implied: None, tok: Tok::Fresh },
        Act::Announce { src: 2, ih: 0, port: 0, implied: Some(1), tok: Tok::Fresh },
        Act::Announce { src: 3, ih: 0, port: 5, implied: None, tok: Tok::Fresh },
        Act::AnnounceSigned { src: 0, ih: 0, key: 0, dt: 0, sig_ok: true, tok: Tok::Fresh },
        Act::AnnounceSigned { src: 2, ih: 0, key: 1, dt: 0, sig_ok: true, tok: Tok::Fresh },
        Act::AnnounceSigned { src: 2, ih: 0, key: 2, dt: 0, sig_ok: true, tok: Tok::Fresh },
    ];
    let mut c = base(name, a, props);
    c.cap_hashes = 2;
    c.cap_peers = 26;
    for src in 4..28u8 {
        c.prime.push(Act::GetPeers { src, ih: 0 });
        c.prime.push(Act::Announce { src, ih: 0, port: 2000 + src as u16, implied: None, tok: Tok::Fresh });
        c.prime.push(Act::AnnounceSigned { src, ih: 0, key: src, dt: 0, sig_ok: true, tok: Tok::Fresh });
    }
    c
}

pub fn cfgs_c03() -> Vec<SrvCfg> {
    let p = &["C03"];
    let mut v = vec![];
    // --- immutable
    let mut a = vec![
        Act::Get { src: 0, target: 3, seq: None },
        Act::Get { src: 2, target: 3, seq: None },
        Act::Get { src: 0, target: 4, seq: None },
    ];
    for val in 0..4u8 {
        a.push(Act::PutImm { src: 0, v: val, tok: Tok::Fresh });
    }
    a.push(Act::PutImm { src: 1, v: 0, tok: Tok::Fresh });
    a.push(Act::PutImm { src: 2, v: 1, tok: Tok::Fresh });
    for t in token_variants() {
        a.push(Act::PutImm { src: 0, v: 0, tok: t });
    }
    a.push(Act::PutImm { src: 0, v: 2, tok: Tok::Empty });
    a.push(Act::PutImm { src: 0, v: 6, tok: Tok::Fresh });
    a.push(Act::PutImm { src: 2, v: 7, tok: Tok::Fresh });
    a.push(Act::PutImm { src: 0, v: 8, tok: Tok::Fresh });
    a.push(Act::PutImm { src: 0, v: 9, tok: Tok::Fresh });
    for d in TICKS {
        a.push(Act::Tick(d));
    }
    v.push(base("c03-immutable", a, p));
    // --- mutable
    let mut a = vec![
        Act::Get { src: 0, target: 0, seq: None },
        Act::Get { src: 2, target: 0, seq: None },
        Act::Get { src: 0, target: 1, seq: None },
        Act::Get { src: 0, target: 5, seq: None },
    ];
    let pm = |salt: u8, val: u8, sig: Sig, tok: Tok| Act::PutMut { src: 0, key: 0, salt, seq: 1, val, cas: Cas::None, sig, tok };
    a.push(pm(0, 0, Sig::Valid, Tok::Fresh));
    a.push(pm(1, 0, Sig::Valid, Tok::Fresh));
    a.push(pm(2, 0, Sig::Valid, Tok::Fresh));
    a.push(pm(3, 0, Sig::Valid, Tok::Fresh));
    a.push(pm(0, 2, Sig::Valid, Tok::Fresh));
    a.push(pm(0, 3, Sig::Valid, Tok::Fresh));
    // sizes that look small in a narrower integer, and a present-but-empty salt
    a.push(pm(5, 0, Sig::Valid, Tok::Fresh));
    a.push(pm(6, 0, Sig::Valid, Tok::Fresh));
    a.push(pm(7, 0, Sig::Valid, Tok::Fresh));
    a.push(pm(0, 4, Sig::Valid, Tok::Fresh));
    a.push(pm(0, 5, Sig::Valid, Tok::Fresh));
    a.push(pm(4, 1, Sig::Valid, Tok::Fresh));
    a.push(pm(0, 0, Sig::Invalid, Tok::Fresh));
    a.push(pm(0, 0, Sig::WrongTarget, Tok::Fresh));
    a.push(pm(3, 3, Sig::Invalid, Tok::Fresh));
    a.push(pm(0, 1, Sig::ReplayStored, Tok::Fresh));
    a.push(Act::PutMut { src: 2, key: 1, salt: 0, seq: 2, val: 1, cas: Cas::None, sig: Sig::Valid, tok: Tok::Fresh });
    for t in token_variants() {
        a.push(pm(0, 0, Sig::Valid, t));
    }
    a.push(Act::Tick(5 * MIN + SEC));
    v.push(base("c03-mutable", a, p));
    // --- announce_peer
    let mut a = vec![
        Act::GetPeers { src: 0, ih: 0 },
        Act::GetPeers { src: 2, ih: 0 },
        Act::GetPeers { src: 1, ih: 1 },
    ];
    a.push(Act::Announce { src: 0, ih: 0, port: 7777, implied: None, tok: Tok::Fresh });
    a.push(Act::Announce { src: 0, ih: 0, port: 7777, implied: Some(0), tok: Tok::Fresh });
    a.push(Act::Announce { src: 1, ih: 0, port: 8888, implied: Some(1), tok: Tok::Fresh });
    a.push(Act::Announce { src: 2, ih: 0, port: 0, implied: Some(1), tok: Tok::Fresh });
    a.push(Act::Announce { src: 2, ih: 1, port: 65535, implied: None, tok: Tok::Fresh });
    for t in token_variants() {
        a.push(Act::Announce { src: 0, ih: 0, port: 7777, implied: None, tok: t });
    }
    for d in TICKS {
        a.push(Act::Tick(d));
    }
    v.push(base("c03-announce", a, p));
    // --- announce_signed_peer
    let mut a = vec![Act::GetSigned { src: 0, ih: 0 }, Act::GetSigned { src: 2, ih: 0 }, Act::GetPeers { src: 0, ih: 0 }];
    for dt in [0i64, 44_000, -44_000, 46_000, -46_000, 45_900, -45_200] {
        a.push(Act::AnnounceSigned { src: 0, ih: 0, key: 0, dt, sig_ok: true, tok: Tok::Fresh });
    }
    a.push(Act::AnnounceSigned { src: 0, ih: 0, key: 0, dt: 0, sig_ok: false, tok: Tok::Fresh });
    a.push(Act::AnnounceSigned { src: 2, ih: 0, key: 1, dt: 1_000, sig_ok: true, tok: Tok::Fresh });
    for t in token_variants() {
        a.push(Act::AnnounceSigned { src: 0, ih: 0, key: 0, dt: 0, sig_ok: true, tok: t });
    }
    a.push(Act::Tick(SEC));
    a.push(Act::Tick(5 * MIN + SEC));
    v.push(base("c03-signed", a, p));
    // --- the same announcer announces again (other port, implied instead of explicit, newer
    // timestamp): the latest accepted announcement is what is served
    let a = vec![
        Act::GetPeers { src: 0, ih: 0 },
        Act::GetPeers { src: 2, ih: 0 },
        Act::GetSigned { src: 0, ih: 0 },
        Act::Announce { src: 0, ih: 0, port: 7777, implied: None, tok: Tok::Fresh },
        Act::Announce { src: 0, ih: 0, port: 7778, implied: None, tok: Tok::Fresh },
        Act::Announce { src: 0, ih: 0, port: 7779, implied: Some(1), tok: Tok::Fresh },
        Act::Announce { src: 1, ih: 0, port: 7777, implied: None, tok: Tok::Fresh },
        Act::Announce { src: 2, ih: 0, port: 7777, implied: None, tok: Tok::Fresh },
        Act::Announce { src: 2, ih: 0, port: 0, implied: Some(1), tok: Tok::Fresh },
        // BEP5: "present and non-zero" - other implementations send values other than 1
        Act::Announce { src: 1, ih: 0, port: 7780, implied: Some(2), tok: Tok::Fresh },
        Act::Announce { src: 2, ih: 0, port: 7781, implied: Some(255), tok: Tok::Fresh },
        Act::AnnounceSigned { src: 0, ih: 0, key: 0, dt: 0, sig_ok: true, tok: Tok::Fresh },
        Act::AnnounceSigned { src: 0, ih: 0, key: 0, dt: 2_000, sig_ok: true, tok: Tok::Fresh },
        Act::AnnounceSigned { src: 2, ih: 0, key: 0, dt: -3_000, sig_ok: true, tok: Tok::Fresh },
        Act::AnnounceSigned { src: 2, ih: 0, key: 1, dt: 0, sig_ok: true, tok: Tok::Fresh },
        Act::Tick(SEC),
    ];
    v.push(base("c03-reannounce", a, p));
    v.push(many_announcers("c03-many-announcers", p));
    // --- request filter vetoing ip2
    let a = vec![
        Act::Get { src: 0, target: 3, seq: None },
        Act::Get { src: 2, target: 3, seq: None },
        Act::GetPeers { src: 2, ih: 0 },
        Act::PutImm { src: 0, v: 0, tok: Tok::Fresh },
        Act::PutImm { src: 2, v: 0, tok: Tok::OtherIp },
        Act::PutImm { src: 2, v: 0, tok: Tok::Fresh },
        Act::Announce { src: 2, ih: 0, port: 1, implied: None, tok: Tok::OtherIp },
        Act::PutMut { src: 2, key: 0, salt: 0, seq: 1, val: 0, cas: Cas::None, sig: Sig::Valid, tok: Tok::OtherIp },
        Act::Tick(5 * MIN + SEC),
    ];
    let mut c = base("c03-filter", a, p);
    c.veto_ip = Some(Ipv4Addr::new(2, 2, 2, 2));
    v.push(c);
    v
}

pub fn cfgs_c04() -> Vec<SrvCfg> {
    let p = &["C04"];
    let mut v = vec![];
    for cap in [1usize, 2, 8] {
        let mut a = vec![
            Act::Get { src: 0, target: 0, seq: None },
            Act::Get { src: 2, target: 0, seq: None },
            Act::Get { src: 0, target: 2, seq: None },
        ];
        for f in [0i64, 1, 2, 3, 4] {
            a.push(Act::Get { src: 0, target: 0, seq: Some(f) });
        }
        for seq in [1i64, 2, 3, 4] {
            for val in [0u8, 1] {
                a.push(Act::PutMut { src: 0, key: 0, salt: 0, seq, val, cas: Cas::None, sig: Sig::Valid, tok: Tok::Fresh });
            }
            a.push(Act::PutMut { src: 0, key: 0, salt: 0, seq, val: 0, cas: Cas::Match, sig: Sig::Valid, tok: Tok::Fresh });
            a.push(Act::PutMut { src: 0, key: 0, salt: 0, seq, val: 0, cas: Cas::Mismatch, sig: Sig::Valid, tok: Tok::Fresh });
        }
        // a second writer, a second key and a salted slot of the first key
        a.push(Act::PutMut { src: 2, key: 0, salt: 0, seq: 2, val: 1, cas: Cas::None, sig: Sig::Valid, tok: Tok::Fresh });
        a.push(Act::PutMut { src: 2, key: 0, salt: 0, seq: 1, val: 1, cas: Cas::Fixed(7), sig: Sig::Valid, tok: Tok::Fresh });
        a.push(Act::PutMut { src: 2, key: 1, salt: 0, seq: 1, val: 0, cas: Cas::None, sig: Sig::Valid, tok: Tok::Fresh });
        a.push(Act::PutMut { src: 2, key: 1, salt: 0, seq: 3, val: 1, cas: Cas::Match, sig: Sig::Valid, tok: Tok::Fresh });
        a.push(Act::PutMut { src: 0, key: 0, salt: 1, seq: 1, val: 0, cas: Cas::Fixed(3), sig: Sig::Valid, tok: Tok::Fresh });
        a.push(Act::PutMut { src: 0, key: 0, salt: 1, seq: 2, val: 1, cas: Cas::None, sig: Sig::Valid, tok: Tok::Fresh });
        a.push(Act::PutMut { src: 0, key: 0, salt: 1, seq: 1, val: 1, cas: Cas::Mismatch, sig: Sig::Valid, tok: Tok::Fresh });
        // a present-but-empty salt: the same target as the unsalted slot, so seq and cas apply across the two
        a.push(Act::PutMut { src: 0, key: 0, salt: 4, seq: 1, val: 1, cas: Cas::None, sig: Sig::Valid, tok: Tok::Fresh });
        a.push(Act::PutMut { src: 0, key: 0, salt: 4, seq: 3, val: 0, cas: Cas::Mismatch, sig: Sig::Valid, tok: Tok::Fresh });
        a.push(Act::PutMut { src: 0, key: 0, salt: 4, seq: 3, val: 0, cas: Cas::None, sig: Sig::Valid, tok: Tok::Fresh });
        a.push(Act::Get { src: 0, target: 1, seq: None });
        a.push(Act::Get { src: 0, target: 1, seq: Some(1) });
        let mut c = base(
            match cap {
                1 => "c04-cap1",
                2 => "c04-cap2",
                _ => "c04-cap8",
            },
            a,
            p,
        );
        c.cap_values = cap;
        v.push(c);
    }
    // sequence numbers at and below zero are ordinary sequence numbers
    {
        let mut a = vec![
            Act::Get { src: 0, target: 7, seq: None },
            Act::Get { src: 0, target: 7, seq: Some(-2) },
            Act::Get { src: 0, target: 7, seq: Some(0) },
            Act::Get { src: 0, target: 7, seq: Some(i64::MIN) },
        ];
        for (seq, val, cas) in [(0i64, 0u8, Cas::None), (-3, 1, Cas::None), (-1, 1, Cas::Fixed(-3)), (-1, 0, Cas::Fixed(0)), (i64::MIN, 0, Cas::None), (1, 1, Cas::Match), (i64::MAX, 0, Cas::None)] {
            a.push(Act::PutMut { src: 0, key: 2, salt: 0, seq, val, cas, sig: Sig::Valid, tok: Tok::Fresh });
        }
        let mut c = base("c04-nonpositive-seq", a, p);
        c.cap_values = 2;
        v.push(c);
    }
    v
}

pub fn cfgs_c15() -> Vec<SrvCfg> {
    let p = &["C15"];
    let mut a = vec![
        Act::Get { src: 0, target: 3, seq: None },
        Act::Get { src: 2, target: 3, seq: None },
        Act::Get { src: 3, target: 3, seq: None },
    ];
    for (src, tok) in [
        (0u8, Tok::Fresh),
        (0, Tok::Oldest),
        (1, Tok::Fresh),
        (0, Tok::OtherIp),
        (3, Tok::OtherIp),
        (2, Tok::OtherIp),
        (0, Tok::Foreign),
        (0, Tok::Empty),
        (0, Tok::Mutated(0)),
        (0, Tok::Mutated(1)),
        (0, Tok::Mutated(2)),
        (0, Tok::Mutated(3)),
        (0, Tok::Resized(3)),
        (0, Tok::Resized(5)),
    ] {
        a.push(Act::PutImm { src, v: 0, tok });
    }
    a.push(Act::Announce { src: 2, ih: 0, port: 5, implied: None, tok: Tok::Fresh });
    for d in [4 * MIN + 59 * SEC, 5 * MIN + SEC, 2 * SEC] {
        a.push(Act::Tick(d));
    }
    // writes only: nobody asks for a token while the clock runs (rotation must not depend on it)
    let b = vec![
        Act::PutImm { src: 0, v: 0, tok: Tok::Fresh },
        Act::Announce { src: 2, ih: 0, port: 5, implied: None, tok: Tok::Fresh },
        Act::PutImm { src: 1, v: 1, tok: Tok::Oldest },
        Act::Other { src: 3, find_node: false },
        Act::Other { src: 0, find_node: true },
        Act::Tick(4 * MIN + 59 * SEC),
        Act::Tick(2 * SEC),
    ];
    // secret-free guesses, on a fresh server and after rotations
    let mut c = vec![Act::Get { src: 0, target: 3, seq: None }];
    for k in 0..5u8 {
        c.push(Act::PutImm { src: 0, v: 0, tok: Tok::Guess(k) });
    }
    c.push(Act::PutImm { src: 2, v: 0, tok: Tok::Guess(0) });
    c.push(Act::Announce { src: 3, ih: 0, port: 5, implied: None, tok: Tok::Guess(0) });
    c.push(Act::Tick(5 * MIN + SEC));
    // a token issued to one IP presented from each of the 32 addresses one bit away from it
    let mut d = vec![Act::Get { src: 0, target: 3, seq: None }];
    for bit in 0..32u8 {
        d.push(Act::PutImm { src: crate::srv::NEIGHBOURS_FROM + bit, v: 0, tok: Tok::Of(0) });
    }
    for bit in [0u8, 9, 17, 26, 31] {
        d.push(Act::Announce { src: crate::srv::NEIGHBOURS_FROM + bit, ih: 0, port: 5, implied: None, tok: Tok::Of(0) });
    }
    d.push(Act::PutImm { src: 0, v: 0, tok: Tok::Fresh });
    // a sender without a token of its own probes an item that is stored: stale seq, failing
    // cas, the same item again - the answer is 203, never the 301/302 that would tell it which
    // seq the node holds
    let mut e = vec![
        Act::Get { src: 0, target: 7, seq: None },
        Act::Get { src: 2, target: 7, seq: None },
        Act::PutMut { src: 0, key: 2, salt: 0, seq: 5, val: 0, cas: Cas::None, sig: Sig::Valid, tok: Tok::Fresh },
    ];
    for (src, tok) in [(3u8, Tok::OtherIp), (3, Tok::Guess(0)), (3, Tok::Empty), (2, Tok::Foreign), (2, Tok::Mutated(1)), (2, Tok::Fresh)] {
        e.push(Act::PutMut { src, key: 2, salt: 0, seq: 3, val: 1, cas: Cas::None, sig: Sig::Valid, tok });
        e.push(Act::PutMut { src, key: 2, salt: 0, seq: 9, val: 1, cas: Cas::Mismatch, sig: Sig::Valid, tok });
    }
    e.push(Act::PutMut { src: 3, key: 2, salt: 0, seq: 5, val: 0, cas: Cas::None, sig: Sig::Valid, tok: Tok::OtherIp });
    vec![base("c15-tokens", a, p), base("c15-writes-only", b, p), base("c15-guesses", c, p), base("c15-ip-neighbours", d, p), base("c15-unauthorised-probes", e, p)]
}

pub fn cfgs_c20() -> Vec<SrvCfg> {
    let p = &["C20"];
    let mut v = vec![];
    // (values, info-hashes, peers per hash): symmetric 1..3 and two asymmetric shapes
    // (immutable values, info-hashes, peers per hash, mutable values if different)
    for (cap, cap_h, cap_p, cap_m) in [(1usize, 1usize, 1usize, None), (2, 2, 2, None), (3, 3, 3, None), (2, 1, 3, None), (2, 3, 1, None), (1, 2, 2, Some(2usize)), (2, 2, 2, Some(1))] {
        let mut a = vec![];
        for t in [3u8, 4, 0, 2] {
            a.push(Act::Get { src: 0, target: t, seq: None });
        }
        a.push(Act::GetPeers { src: 0, ih: 0 });
        a.push(Act::GetPeers { src: 0, ih: 1 });
        a.push(Act::GetPeers { src: 0, ih: 2 });
        a.push(Act::GetSigned { src: 0, ih: 0 });
        a.push(Act::GetSigned { src: 0, ih: 1 });
        for val in [0u8, 1, 4, 5] {
            a.push(Act::PutImm { src: 0, v: val, tok: Tok::Fresh });
        }
        for (key, salt) in [(0u8, 0u8), (0, 1), (1, 0), (2, 0)] {
            a.push(Act::PutMut { src: 0, key, salt, seq: 1, val: 0, cas: Cas::None, sig: Sig::Valid, tok: Tok::Fresh });
        }
        for ih in 0..3u8 {
            a.push(Act::Announce { src: 0, ih, port: 1000 + ih as u16, implied: None, tok: Tok::Fresh });
        }
        a.push(Act::Announce { src: 1, ih: 0, port: 0, implied: Some(1), tok: Tok::Fresh });
        a.push(Act::Announce { src: 2, ih: 0, port: 9, implied: None, tok: Tok::Fresh });
        a.push(Act::Announce { src: 3, ih: 0, port: 9, implied: None, tok: Tok::Fresh });
        a.push(Act::Get { src: 2, target: 3, seq: None });
        a.push(Act::Get { src: 3, target: 3, seq: None });
        for (ih, key) in [(0u8, 0u8), (0, 1), (0, 2), (1, 0), (2, 0)] {
            a.push(Act::AnnounceSigned { src: 0, ih, key, dt: 0, sig_ok: true, tok: Tok::Fresh });
        }
        let mut c = base(
            match (cap, cap_h, cap_p, cap_m) {
                (1, _, _, Some(_)) => "c20-immutable1-mutable2",
                (_, _, _, Some(_)) => "c20-immutable2-mutable1",
                (1, _, _, _) => "c20-cap1",
                (2, 2, 2, _) => "c20-cap2",
                (3, _, _, _) => "c20-cap3",
                (2, 1, 3, _) => "c20-hashes1-peers3",
                _ => "c20-hashes3-peers1",
            },
            a,
            p,
        );
        c.cap_values = cap;
        c.cap_mutable = cap_m;
        c.cap_hashes = cap_h;
        c.cap_peers = cap_p;
        v.push(c);
    }
    v.push(many_announcers("c20-many-announcers", p));
    v
}

/// Binding of the E2 search to the running system: one explored history is run again with a
/// full threaded node (real actor loop, socket layer, `Core::handle_request`) on the simulated
/// network standing in for the `Server` clone - the same request builder, the same reference
/// model and the same oracle (replies, stored state after every step, token verdicts), tokens
/// taken from what the node itself issued, so nothing depends on the two sharing randomness.
struct NodeRemote {
    w: crate::sim::World,
    n: usize,
    node_addr: std::net::SocketAddrV4,
}

impl crate::srv::Remote for NodeRemote {
    fn exchange(&mut self, from: std::net::SocketAddrV4, bytes: &[u8]) -> Result<Option<Vec<u8>>, String> {
        use crate::sim::Event;
        let mut got: Option<Vec<u8>> = None;
        self.w.send_raw_with_latency(from, self.node_addr, bytes.to_vec(), 0);
        let h = self.w.now + 2 * crate::sim::MS;
        self.w.run_until(h, |_, ev| {
            if let Event::EndpointRecv { dgram, .. } = ev {
                if dgram.to == from {
                    got = Some(dgram.bytes.clone());
                    return true;
                }
            }
            false
        });
        if self.w.nodes[self.n].exited.is_some() {
            return Err("the node's actor thread died".into());
        }
        Ok(got)
    }
    fn snapshot(&mut self) -> dht::verif::ServerSnapshot {
        self.w.snapshot(self.n).core.server
    }
    fn advance(&mut self, d: u64) {
        let t = self.w.now + d;
        self.w.advance_to(t);
    }
    fn now(&self) -> u64 {
        self.w.now
    }
}

/// Returns the oracle's findings for `path` executed against a full node.
pub fn e1_replay(cfg: &SrvCfg, path: &[u16]) -> Partial {
    use crate::explore::Chooser;
    use crate::sim::{NodeCfg, World};
    let mut w = World::new(Chooser::default_run());
    w.default_latency = 0;
    w.keep_log = false;
    for i in 0..N_SOURCES {
        w.add_endpoint(src_addr(i as u8));
    }
    let mut nc = NodeCfg::new([5, 5, 5, 5], 6881).server();
    let mut settings = dht::ServerSettings {
        max_info_hashes: cfg.cap_hashes,
        max_peers_per_info_hash: cfg.cap_peers,
        max_immutable_values: cfg.cap_values,
        max_mutable_values: cfg.cap_mutable.unwrap_or(cfg.cap_values),
        ..Default::default()
    };
    if let Some(ip) = cfg.veto_ip {
        settings.filter = Box::new(VetoFilter { ip });
    }
    nc.server_settings = Some(settings);
    let n = w.add_node(nc);
    let node_addr = w.node_addr(n);
    let prev = crate::srv::set_remote(Some(Box::new(NodeRemote { w, n, node_addr })));
    assert!(prev.is_none(), "MACHINERY: nested remote backends");
    let res = super::catch(|| crate::srv::replay_with_prime(cfg.clone(), path));
    // dropping the backend drops its world
    drop(crate::srv::set_remote(None));
    match res {
        Ok(out) => out,
        Err(e) => {
            let mut out = Partial::default();
            out.violation("e1/replay-panicked".to_string(), format!("replaying the history against a full node panicked: {e}"), json!({"cfg": cfg.name, "path": path, "e1": true}));
            out
        }
    }
}

/// Replay a selection of the discovered states' shortest paths through full nodes.
fn bind_paths(cfg: &SrvCfg, paths: &[Vec<u16>], budget: usize, prop: &'static str, out: &mut Partial) {
    let stride = (paths.len() / budget.max(1)).max(1);
    for (i, p) in paths.iter().enumerate() {
        if !(p.len() <= 3 || i % stride == 0) {
            continue;
        }
        let r = e1_replay(cfg, p);
        out.add("e1_replays", 1);
        out.add("e1_replies_compared", r.count("reads") + r.count("writes_accepted") + r.count("writes_rejected"));
        if let Some(v) = r.violations.into_iter().next() {
            let key = v.key.split_once(':').map(|(_, k)| k.to_string()).unwrap_or(v.key.clone());
            out.violation(format!("{prop}:e1/{key}"), format!("[against a full threaded node] {}", v.desc), json!({"cfg": cfg.name, "path": p, "e1": true}));
            return;
        }
    }
}

pub fn run_cfgs(cfgs: Vec<SrvCfg>, depth: usize, max_states: usize) -> Partial {
    run_cfgs_bound(cfgs, depth, max_states, 0, "C03")
}

pub fn run_cfgs_bound(cfgs: Vec<SrvCfg>, depth: usize, max_states: usize, replay_budget: usize, prop: &'static str) -> Partial {
    let mut out = Partial::default();
    for cfg in cfgs {
        let name = cfg.name;
        let n_actions = cfg.alphabet.len();
        // the priming steps are judged like every other step
        let primed = crate::srv::replay_with_prime(cfg.clone(), &[0]);
        let init = SrvState::new(cfg);
        let depth = match name {
            "c15-writes-only" => depth + 4,
            // every neighbour right after the token was issued, and after one more request
            "c15-ip-neighbours" => 2,
            "c15-unauthorised-probes" => 3,
            _ => depth,
        };
        let bfs = Bfs { max_depth: depth, max_states, threads: super::cores(), collect_paths: replay_budget > 0 };
        let mut part = Partial::default();
        part.violations.extend(primed.violations);
        let stats = bfs.run(vec![init], &mut part);
        if replay_budget > 0 {
            if let Some(cfg) = find_cfg(name) {
                bind_paths(&cfg, &stats.paths, replay_budget, prop, &mut part);
            }
        }
        part.notes.push(format!(
            "{name}: alphabet {n_actions}, depth {}, states {}, transitions {}, frontier sizes {:?}{}",
            stats.depth_reached,
            stats.states,
            stats.transitions,
            stats.frontier_sizes,
            if stats.capped { " (CAPPED)" } else { "" }
        ));
        out.merge(part);
    }
    out
}

fn with_witnesses(mut out: Partial) -> Partial {
    let acc = out.count("writes_accepted");
    let rej = out.count("writes_rejected");
    out.witness("a write was accepted", acc > 0);
    out.witness("a write was rejected", rej > 0);
    out.witness("a read was served", out.count("reads") > 0);
    out
}

pub fn find_cfg(name: &str) -> Option<SrvCfg> {
    cfgs_c03()
        .into_iter()
        .chain(cfgs_c04())
        .chain(cfgs_c15())
        .chain(cfgs_c20())
        .find(|c| c.name == name)
}

fn replay_srv(v: &Value) -> Result<Option<Violation>, String> {
    let name = v.get("cfg").and_then(|c| c.as_str()).ok_or("cfg")?;
    let path: Vec<u16> = v
        .get("path")
        .and_then(|p| p.as_array())
        .ok_or("path")?
        .iter()
        .filter_map(|x| x.as_u64().map(|x| x as u16))
        .collect();
    let cfg = find_cfg(name).ok_or("unknown cfg")?;
    if v.get("e1").and_then(|e| e.as_bool()) == Some(true) {
        return Ok(e1_replay(&cfg, &path).violations.into_iter().next().map(|x| Violation { key: format!("e1/{}", x.key), desc: x.desc, replay: v.clone() }));
    }
    let out = replay_path(cfg, &path);
    Ok(out.violations.into_iter().next())
}

fn sample(out: &mut Partial, cfg: SrvCfg, path: &[u16]) {
    let st = SrvState::new(cfg.clone());
    out.sample(json!({"cfg": cfg.name, "history": st.trace(path)}));
}

pub fn def_c03() -> CheckDef {
    CheckDef {
        id: "C03",
        info: |tier| CheckInfo {
            id: "C03",
            level: "model_checking",
            rule: format!("Explicit-state BFS (depth {}) over request histories against one real Server (clone per state), five sub-alphabets (immutable, mutable, announce_peer, announce_signed_peer, request filter) of 9-25 actions each: token-yielding reads from 3 source addresses (2 IPs), writes with valid/oversize/wrong-hash/bad-signature/wrong-target/oversize-salt payloads, timestamps at 0/+-44/+-46/+45.9/-45.2 s, tokens fresh / issued to another IP / from another server / empty / one byte mutated / older, clock steps 1 s, 4m59s, 5m01s. Every transition goes independent encoder -> real decoder -> real Server::handle_request -> real encoder -> independent reader and is compared with a reference model (accepted-write stores + issued tokens). States = distinct (real server snapshot, clock, rng cursor, client tokens, model). Added sub-alphabets: the same announcer announcing again (other port, implied port, newer / older timestamp), and one info hash with 24 announcers, plain and signed (replies are samples: 1..=20 distinct accepted ones; the 27th announcer overflows the capacity of 26).", if tier.is_quick() { 6 } else { 8 }),
            assumptions: vec![
                "token freshness oracle: must accept up to 5 min after issue to the same IP; must reject tokens never issued to that IP; in between, either answer (refined in C15)".into(),
                "store capacities are set to 8/4/4 instead of the defaults (same code path, smaller tables)".into(),
                "the Core/actor/socket layers above Server::handle_request are exercised by the E1 checks".into(),
            ],
        },
        shards: |_| 1,
        run: |tier, _, _, _| {
            let mut out = with_witnesses(run_cfgs_bound(cfgs_c03(), if tier.is_quick() { 6 } else { 8 }, if tier.is_quick() { 400_000 } else { 3_000_000 }, if tier.is_quick() { 300 } else { 4000 }, "C03"));
            let n = out.count("e1_replays");
            out.witness("paths were replayed through full nodes", n > 0);
            sample(&mut out, cfgs_c03().remove(1), &[0, 0, 4, 11, 0]);
            out
        },
        replay: replay_srv,
    }
}

pub fn def_c04() -> CheckDef {
    CheckDef {
        id: "C04",
        info: |tier| CheckInfo {
            id: "C04",
            level: "model_checking",
            rule: format!("Explicit-state BFS (depth {}, or until no new state is found) over put/get histories against one real Server with mutable-store capacity 1, 2 and 8: puts with seq in 1..4, two values, cas absent/matching/mismatching/arbitrary on an empty slot, two writers, two keys and a salted slot; gets without and with seq filter 0..4. Reference: BEP44 state machine (last accepted item per target, exact LRU); invariant on every transition: stored seq never decreases. Equal seq with a different value is left unspecified (either outcome accepted). A valid write refused with 301/302 (e.g. cas on an empty slot) is reported here.", if tier.is_quick() { 6 } else { 12 }),
            assumptions: vec!["tokens are always fresh here (token rules are C03/C15)".into()],
        },
        shards: |_| 1,
        run: |tier, _, _, _| {
            let mut out = with_witnesses(run_cfgs_bound(cfgs_c04(), if tier.is_quick() { 6 } else { 12 }, if tier.is_quick() { 400_000 } else { 3_000_000 }, if tier.is_quick() { 300 } else { 2000 }, "C04"));
            let n = out.count("e1_replays");
            out.witness("paths were replayed through full nodes", n > 0);
            sample(&mut out, cfgs_c04().remove(0), &[0, 0, 9, 7, 3]);
            out
        },
        replay: replay_srv,
    }
}

pub fn def_c15() -> CheckDef {
    CheckDef {
        id: "C15",
        info: |tier| CheckInfo {
            id: "C15",
            level: "model_checking",
            rule: format!("Explicit-state BFS (depth {}) over timelines against one real Server: token-yielding gets from IPs a, a' (one low bit away) and b; writes presenting the latest / the oldest remembered own token, another IP's token, a token of another server instance, empty, every single-byte mutation, 3- and 5-byte resizes; clock steps 2 s, 4m59s, 5m01s so that ages 0..15+ min arise with and without intermediate requests (rotation is lazy). Oracle: never-issued-to-this-IP => 203; same IP and age <= 5 min => accepted; requests in every 5-minute period and age > 10 min + largest gap => 203; otherwise either. Added: a token presented from each of the 32 addresses that differ from its owner's in exactly one bit.", if tier.is_quick() { 6 } else { 8 }),
            assumptions: vec!["the 2^32 token values are not enumerated; structure-preserving mutations only".into()],
        },
        shards: |_| 1,
        run: |tier, _, _, _| {
            let mut out = with_witnesses(run_cfgs_bound(cfgs_c15(), if tier.is_quick() { 6 } else { 8 }, if tier.is_quick() { 400_000 } else { 4_000_000 }, if tier.is_quick() { 300 } else { 4000 }, "C15"));
            let n = out.count("e1_replays");
            out.witness("paths were replayed through full nodes", n > 0);
            sample(&mut out, cfgs_c15().remove(0), &[0, 0, 19, 19, 3]);
            out
        },
        replay: replay_srv,
    }
}

pub fn run_c20_stores(tier: Tier) -> Partial {
    run_cfgs(cfgs_c20(), if tier.is_quick() { 4 } else { 6 }, if tier.is_quick() { 600_000 } else { 6_000_000 })
}
