//! C12 - routing table structural and Sybil-limit invariants.
//! Engine E2: BFS over operation sequences; the state is the real `RoutingTable` (it is
//! `Clone`) plus the virtual clock; invariants are evaluated on every state and a transition
//! relation on every step.

use std::collections::BTreeMap;
use std::hash::{Hash, Hasher};
use std::net::{Ipv4Addr, SocketAddrV4};
use std::sync::Arc;

use dht::verif::{table_reset_id, TableSnapshot};
use dht::{Id, Node, RoutingTable};
use serde_json::{json, Value};

use super::{catch, quiet, CheckDef};
use crate::bfs::{Bfs, Machine};
use crate::krpc::{bep42_id, bep42_valid, Id20};
use crate::report::{hex, CheckInfo, Partial, Tier, Violation};
use crate::sim::{self, MIN};

pub fn def() -> CheckDef {
    CheckDef {
        id: "C12",
        info,
        shards: |_| 1,
        run,
        replay,
    }
}

fn depth(tier: Tier) -> usize {
    if tier.is_quick() {
        5
    } else {
        6
    }
}

fn info(tier: Tier) -> CheckInfo {
    CheckInfo {
        id: "C12",
        level: "model_checking",
        rule: format!(
            "Explicit-state BFS (depth {}) whose state is the real RoutingTable + virtual clock, from 6 initial states (empty; one bucket pre-filled through real add() calls with 19 and with 20 fresh nodes; the same aged 14 and 16 minutes; a 20-node bucket whose head is stale and whose tail is fresh) over a 22-action alphabet: add of new ids into the full bucket / another bucket, re-add of a present id with same address / new port / new IP, an insecure id on the IP of a present secure node and vice versa, a second secure id with the same and with a different 21-bit prefix on one IP, an id first seen as insecure on an unrelated IP that later shows up on an occupied IP for which it is secure, add(self id), remove present/absent, re-key to an id in another bucket class and to the id of a present node, clock steps 1/14/16 min. Every state: no self id, unique ids, bucket key = distance, buckets <= 20, size/iteration/is_empty agree, per-IP Sybil limits, to_bootstrap = non-stale entries. Every add: an accepted node's entry is stamped with the current time, a node that is already an entry (same id and address, alone on its IP) is accepted and re-stamped even in a full bucket, nothing foreign appears and at most the stale head of a full bucket (or the same-id entry being replaced) disappears. Address classes: 26 addresses on both sides of every BEP42 exemption boundary (10/8, 172.16/12, 192.168/16, 169.254/16, 127/8) x a family of six ids (two insecure, secure, secure with the same prefix, secure with another prefix, one matching 20 of the 21 prefix bits) added to an empty table in all 720 orders (every fourth address; 120 of them on the others), the same invariants after every add. Distance classes: one node per first-differing bit (all 160) added to one table in three orders, the same invariants after every add (the bucket key against the harness' own bitwise distance).",
            depth(tier)
        ),
        assumptions: vec![
            "node ids/IPs come from a fixed pool that realises each relation the rules inspect".into(),
            "BEP42 security decided by the harness' independent CRC32C reference".into(),
        ],
    }
}

#[derive(Clone, Debug)]
struct Pn {
    id: Id20,
    addr: SocketAddrV4,
}

#[derive(Clone, Debug)]
enum Op {
    Add(usize),
    Remove(usize),
    RemoveAbsent,
    Rekey(usize),
    Tick(u64),
}

#[derive(Clone)]
struct Cfg {
    own: Vec<Id20>,
    pool: Vec<Pn>,
    ops: Vec<Op>,
}

#[derive(Clone)]
struct St {
    cfg: Arc<Cfg>,
    table: RoutingTable,
    now: u64,
    init: usize,
}

const STALE: u64 = 15 * MIN;

fn fill_id(own: &Id20, i: usize) -> Id20 {
    // first bit differs from own => bucket 160; unique tails
    let mut id = [0u8; 20];
    id[0] = (own[0] ^ 0x80) | (i as u8 & 0x3f);
    id[1] = i as u8;
    id[10] = (i * 7) as u8;
    id[19] = 0xAA; // r that does not match: insecure on public IPs
    id
}

fn fill_node(own: &Id20, i: usize) -> Pn {
    Pn {
        id: fill_id(own, i),
        addr: SocketAddrV4::new(Ipv4Addr::new(60, 1, (i / 200) as u8, (i % 200) as u8 + 1), 6881),
    }
}

fn build_cfg() -> Cfg {
    let own: Id20 = [0x0f; 20];
    let ip_x = Ipv4Addr::new(80, 1, 2, 3);
    let mut f = [0x77u8; 20];
    f[0] = own[0] ^ 0x80;
    let s1 = Pn { id: bep42_id(ip_x, &f, 1), addr: SocketAddrV4::new(ip_x, 1000) };
    // the id of s2 (secure for ip X, same prefix as s1) first seen on an unrelated IP, where it
    // is just an insecure id: a tracked id that later moves onto the occupied IP
    let s2_elsewhere_ip = Ipv4Addr::new(82, 4, 4, 4);
    let mut f2 = [0x66u8; 20];
    f2[0] = own[0] ^ 0x80;
    let s2 = Pn { id: bep42_id(ip_x, &f2, 1), addr: SocketAddrV4::new(ip_x, 1001) }; // same prefix
    let s2_id = s2.id;
    let s3 = Pn { id: bep42_id(ip_x, &f2, 2), addr: SocketAddrV4::new(ip_x, 1002) }; // other prefix
    let mut ins = fill_id(&own, 50);
    ins[5] = 0x99;
    let i1 = Pn { id: ins, addr: SocketAddrV4::new(ip_x, 1003) }; // insecure on ip X
    let ip_y = Ipv4Addr::new(81, 9, 9, 9);
    let mut ins2 = fill_id(&own, 51);
    ins2[5] = 0x98;
    let i2 = Pn { id: ins2, addr: SocketAddrV4::new(ip_y, 2000) }; // insecure on ip Y
    let mut f3 = [0x55u8; 20];
    f3[0] = own[0] ^ 0x80;
    let s4 = Pn { id: bep42_id(ip_y, &f3, 3), addr: SocketAddrV4::new(ip_y, 2001) }; // secure on ip Y
    assert!(bep42_valid(&s1.id, ip_x) && bep42_valid(&s2.id, ip_x) && bep42_valid(&s3.id, ip_x));
    assert!(!bep42_valid(&i1.id, ip_x) && !bep42_valid(&i2.id, ip_y) && bep42_valid(&s4.id, ip_y));
    assert_eq!(&s1.id[..2], &s2.id[..2]);
    // pool indices:
    // 0,1: new ids in the (full) far bucket; 2: new id in a near bucket
    // 3: fill node 0 again (same address), 4: same IP new port, 5: new IP
    // 6..: the Sybil family; 12: self id
    let n0 = fill_node(&own, 0);
    let mut near = own;
    near[2] ^= 0x10;
    near[19] = 0xAB;
    let pool = vec![
        fill_node(&own, 100),
        fill_node(&own, 101),
        Pn { id: near, addr: SocketAddrV4::new(Ipv4Addr::new(61, 2, 3, 4), 7000) },
        n0.clone(),
        Pn { id: n0.id, addr: SocketAddrV4::new(*n0.addr.ip(), 9999) },
        Pn { id: n0.id, addr: SocketAddrV4::new(Ipv4Addr::new(62, 5, 5, 5), 6881) },
        s1,
        s2,
        s3,
        i1,
        i2,
        s4,
        Pn { id: own, addr: SocketAddrV4::new(Ipv4Addr::new(63, 1, 1, 1), 1) },
        Pn { id: s2_id, addr: SocketAddrV4::new(s2_elsewhere_ip, 3000) },
    ];
    assert!(!bep42_valid(&pool[13].id, s2_elsewhere_ip));
    let mut own2 = own;
    own2[0] ^= 0x80; // the far bucket's nodes become near
    let own3 = pool[6].id; // re-key to the id of a node that may be present
    let ops = vec![
        Op::Add(0),
        Op::Add(1),
        Op::Add(2),
        Op::Add(3),
        Op::Add(4),
        Op::Add(5),
        Op::Add(6),
        Op::Add(7),
        Op::Add(8),
        Op::Add(9),
        Op::Add(10),
        Op::Add(11),
        Op::Add(12),
        Op::Add(13),
        Op::Remove(3),
        Op::Remove(6),
        Op::RemoveAbsent,
        Op::Rekey(1),
        Op::Rekey(2),
        Op::Tick(MIN),
        Op::Tick(14 * MIN),
        Op::Tick(16 * MIN),
    ];
    Cfg { own: vec![own, own2, own3], pool, ops }
}

fn node_of(p: &Pn) -> Node {
    Node::new(p.id.into(), p.addr)
}

struct View {
    own: Id20,
    buckets: Vec<(u8, Vec<(Id20, SocketAddrV4, u64)>)>,
}

fn view(s: &TableSnapshot) -> View {
    View {
        own: *s.id.as_bytes(),
        buckets: s
            .buckets
            .iter()
            .map(|(k, v)| (*k, v.iter().map(|n| (*n.id.as_bytes(), n.address, n.last_seen)).collect()))
            .collect(),
    }
}

fn distance(a: &Id20, b: &Id20) -> u8 {
    for bit in 0..160 {
        if (a[bit / 8] ^ b[bit / 8]) & (0x80 >> (bit % 8)) != 0 {
            return (160 - bit) as u8;
        }
    }
    0
}

impl St {
    fn viol(&self, out: &mut Partial, key: &str, desc: String, path: &[u16]) {
        let hist: Vec<String> = path.iter().skip(1).map(|i| format!("{:?}", self.cfg.ops[*i as usize])).collect();
        out.violation(
            format!("table/{key}"),
            format!("{desc}; initial state {}, ops {hist:?}", path[0]),
            json!({"path": path}),
        );
    }

    fn entries(v: &View) -> Vec<(Id20, SocketAddrV4, u64, u8, usize)> {
        let mut e = vec![];
        for (k, b) in &v.buckets {
            for (i, n) in b.iter().enumerate() {
                e.push((n.0, n.1, n.2, *k, i));
            }
        }
        e
    }

    fn check_invariants(&self, out: &mut Partial, path: &[u16]) {
        let snap = self.table.verif_snapshot();
        let v = view(&snap);
        let entries = Self::entries(&v);
        let now = self.now;
        // no self id
        if entries.iter().any(|e| e.0 == v.own) {
            self.viol(out, "contains-own-id", "the table contains its own id".into(), path);
        }
        // unique ids
        let mut ids: Vec<Id20> = entries.iter().map(|e| e.0).collect();
        ids.sort();
        if ids.windows(2).any(|w| w[0] == w[1]) {
            self.viol(out, "duplicate-id", "two entries share one id".into(), path);
        }
        // bucket key = distance, bucket size
        for e in &entries {
            if distance(&v.own, &e.0) != e.3 {
                self.viol(out, "wrong-bucket", format!("entry {} sits in bucket {} but its distance is {}", hex(&e.0[..4]), e.3, distance(&v.own, &e.0)), path);
            }
        }
        if v.buckets.iter().any(|(_, b)| b.len() > 20) {
            self.viol(out, "bucket-overflow", "a bucket holds more than 20 entries".into(), path);
        }
        // size / iteration / is_empty
        let iterated: Vec<(Id20, SocketAddrV4)> = self.table.nodes().map(|n| (*n.id().as_bytes(), n.address())).collect();
        let mut a: Vec<(Id20, SocketAddrV4)> = entries.iter().map(|e| (e.0, e.1)).collect();
        let mut b = iterated.clone();
        a.sort();
        b.sort();
        if a != b || self.table.size() != entries.len() || self.table.is_empty() != entries.is_empty() || self.table.to_owned_nodes().len() != entries.len() {
            self.viol(
                out,
                "size-iteration-disagree",
                format!("size()={} is_empty()={} nodes() yields {} but the buckets hold {}", self.table.size(), self.table.is_empty(), iterated.len(), entries.len()),
                path,
            );
        }
        // Sybil limits per IP
        let mut by_ip: BTreeMap<Ipv4Addr, Vec<&(Id20, SocketAddrV4, u64, u8, usize)>> = BTreeMap::new();
        for e in &entries {
            by_ip.entry(*e.1.ip()).or_default().push(e);
        }
        for (ip, es) in by_ip {
            let insecure = es.iter().filter(|e| !bep42_valid(&e.0, ip)).count();
            if insecure > 1 {
                self.viol(out, "two-insecure-on-one-ip", format!("{insecure} insecure entries on {ip}"), path);
            }
            let mut prefixes: Vec<[u8; 3]> = es.iter().filter(|e| bep42_valid(&e.0, ip)).map(|e| [e.0[0], e.0[1], e.0[2] & 0xf8]).collect();
            prefixes.sort();
            if prefixes.windows(2).any(|w| w[0] == w[1]) {
                self.viol(out, "two-secure-same-prefix-on-one-ip", format!("two secure entries with one 21-bit prefix on {ip}"), path);
            }
        }
        // to_bootstrap = non-stale entries
        let mut want: Vec<String> = entries.iter().filter(|e| now - e.2 <= STALE).map(|e| e.1.to_string()).collect();
        let mut got = self.table.to_bootstrap();
        want.sort();
        got.sort();
        if want != got {
            self.viol(out, "to_bootstrap", format!("to_bootstrap() lists {} addresses, {} entries are not stale", got.len(), want.len()), path);
        }
    }
}

impl Machine for St {
    fn action_count(&self) -> usize {
        self.cfg.ops.len()
    }
    fn describe(&self, i: usize) -> String {
        format!("{:?}", self.cfg.ops[i])
    }
    fn enter(&self) {
        sim::local_set_clock(self.now);
    }
    fn digest(&self) -> u64 {
        let mut h = std::collections::hash_map::DefaultHasher::new();
        self.table.verif_snapshot().hash(&mut h);
        self.now.hash(&mut h);
        h.finish()
    }
    fn step(&mut self, i: usize, path: &[u16], out: &mut Partial) -> bool {
        let op = self.cfg.ops[i].clone();
        let before = view(&self.table.verif_snapshot());
        let before_entries = Self::entries(&before);
        let now = self.now;
        match op {
            Op::Tick(d) => {
                self.now += d;
                sim::local_set_clock(self.now);
            }
            Op::Add(p) => {
                let n = self.cfg.pool[p].clone();
                let r = quiet(|| catch(|| self.table.add(node_of(&n))));
                let after = view(&self.table.verif_snapshot());
                let after_entries = Self::entries(&after);
                let ret = match r {
                    Ok(b) => b,
                    Err(e) => {
                        self.viol(out, "add-panic", format!("add panicked: {e}"), path);
                        return false;
                    }
                };
                out.add(if ret { "adds_accepted" } else { "adds_refused" }, 1);
                let key = |e: &(Id20, SocketAddrV4, u64, u8, usize)| (e.0, e.1);
                let b: Vec<_> = before_entries.iter().map(key).collect();
                let a: Vec<_> = after_entries.iter().map(key).collect();
                // nothing foreign appears
                if a.iter().any(|x| !b.contains(x) && *x != (n.id, n.addr)) {
                    self.viol(out, "add/foreign-entry", "an entry that was never added appeared".into(), path);
                }
                let present_after = a.contains(&(n.id, n.addr));
                if ret && !present_after {
                    self.viol(out, "add/returned-true-but-absent", "add() returned true but the node is not in the table".into(), path);
                }
                if !ret && (a.len() != b.len() || a.iter().any(|x| !b.contains(x))) {
                    self.viol(out, "add/returned-false-but-changed", "add() returned false but the table changed".into(), path);
                }
                // a node that is heard from again (the very entry, same id and address) is
                // refreshed: "least recently seen" and "stale" are defined by these timestamps
                // (an entry that shares its IP with another entry is left out: there the per-IP
                // rule, which the code applies to refreshes as well, may refuse)
                let same_present = b.contains(&(n.id, n.addr)) && !b.iter().any(|x| x.1.ip() == n.addr.ip() && x.0 != n.id);
                if same_present && !ret {
                    self.viol(out, "add/heard-again-refused", "add() of a node that is already an entry (same id, same address) returned false: it is never marked as heard from".into(), path);
                }
                if ret || same_present {
                    if let Some(e) = after_entries.iter().find(|e| (e.0, e.1) == (n.id, n.addr)) {
                        if e.2 != now {
                            self.viol(
                                out,
                                "add/heard-again-not-refreshed",
                                format!("after add() of {} its entry says it was last heard from {} s ago", hex(&n.id[..4]), (now - e.2) / 1_000_000_000),
                                path,
                            );
                        } else if same_present {
                            out.add("refreshes", 1);
                        }
                    }
                }
                // what disappeared
                let removed: Vec<&(Id20, SocketAddrV4, u64, u8, usize)> = before_entries.iter().filter(|e| !a.contains(&key(e))).collect();
                for e in &removed {
                    let same_id = e.0 == n.id && present_after;
                    let bucket_len = before.buckets.iter().find(|(k, _)| *k == e.3).map(|(_, v)| v.len()).unwrap_or(0);
                    let stale_head = e.4 == 0 && bucket_len >= 20 && now - e.2 > STALE && e.3 == distance(&before.own, &n.id);
                    if !(same_id || stale_head) {
                        let fresh = now - e.2 <= STALE;
                        self.viol(
                            out,
                            if fresh { "add/evicted-fresh-node" } else { "add/evicted-wrong-node" },
                            format!(
                                "add removed entry {} (age {} s, position {} of {} in bucket {})",
                                hex(&e.0[..4]),
                                (now - e.2) / 1_000_000_000,
                                e.4,
                                bucket_len,
                                e.3
                            ),
                            path,
                        );
                    }
                }
                if removed.len() > 1 {
                    self.viol(out, "add/evicted-several", format!("one add removed {} entries", removed.len()), path);
                }
                if removed.iter().any(|e| e.4 == 0 && now - e.2 > STALE) {
                    out.add("stale_evictions", 1);
                }
            }
            Op::Remove(p) => {
                let id = self.cfg.pool[p].id;
                self.table.remove(&Id::from(id));
                let after = Self::entries(&view(&self.table.verif_snapshot()));
                let want: Vec<_> = before_entries.iter().filter(|e| e.0 != id).map(|e| (e.0, e.1)).collect();
                let got: Vec<_> = after.iter().map(|e| (e.0, e.1)).collect();
                if want != got {
                    self.viol(out, "remove", "remove() did not remove exactly the entries with that id".into(), path);
                }
            }
            Op::RemoveAbsent => {
                self.table.remove(&Id::from([0xEEu8; 20]));
                let after = Self::entries(&view(&self.table.verif_snapshot()));
                if after.len() != before_entries.len() {
                    self.viol(out, "remove-absent", "removing an absent id changed the table".into(), path);
                }
            }
            Op::Rekey(o) => {
                let id = self.cfg.own[o];
                let r = quiet(|| catch(|| table_reset_id(&mut self.table, id.into())));
                if let Err(e) = r {
                    self.viol(out, "rekey-panic", format!("re-key panicked: {e}"), path);
                    return false;
                }
                out.add("rekeys", 1);
                let after = view(&self.table.verif_snapshot());
                if after.own != id {
                    self.viol(out, "rekey/id", "re-key did not change the table's id".into(), path);
                }
                let b: Vec<_> = before_entries.iter().map(|e| (e.0, e.1)).collect();
                if Self::entries(&after).iter().any(|e| !b.contains(&(e.0, e.1))) {
                    self.viol(out, "rekey/foreign-entry", "re-key introduced an entry".into(), path);
                }
            }
        }
        self.check_invariants(out, path);
        true
    }
}

fn initial_states(cfg: &Arc<Cfg>) -> Vec<St> {
    sim::install_env();
    let own = cfg.own[0];
    let mut v = vec![];
    // (number of fill nodes, age in minutes, extra: stale head with fresh tail)
    for (idx, (n, age, mixed)) in [(0usize, 0u64, false), (19, 0, false), (20, 0, false), (20, 14, false), (20, 16, false), (20, 16, true)].into_iter().enumerate() {
        sim::enter_local(sim::T0, 7);
        let mut table = RoutingTable::new(own.into());
        let mut now = sim::T0;
        for i in 0..n {
            if mixed && i == 1 {
                now += age * MIN;
                sim::local_set_clock(now);
            }
            assert!(table.add(node_of(&fill_node(&own, i))), "fill add {i}");
        }
        if !mixed {
            now += age * MIN;
        }
        v.push(St { cfg: cfg.clone(), table, now, init: idx });
    }
    v
}

/// Address classes: the per-IP rules on addresses at both sides of every exemption boundary of
/// BEP42 (10/8, 172.16/12, 192.168/16, 169.254/16, 127/8). A family of six ids per address -
/// two that are insecure there (on a public address), one secure, one secure with the same
/// 21-bit prefix, one secure with another prefix, one that matches 20 of the 21 prefix bits - is
/// added to an empty table in all 720 orders (every fourth address; 120 of them on the others);
/// every state is judged by the same invariants as the search.
const SWEEP_IPS: [[u8; 4]; 26] = [
    [9, 255, 255, 255], [10, 0, 0, 0], [10, 255, 255, 255], [11, 0, 0, 0],
    [172, 15, 255, 255], [172, 16, 0, 0], [172, 31, 255, 255], [172, 32, 0, 0], [172, 64, 3, 3], [172, 200, 1, 1], [172, 255, 255, 255], [172, 0, 0, 1],
    [192, 167, 255, 255], [192, 168, 0, 0], [192, 168, 255, 255], [192, 169, 0, 0], [192, 0, 2, 1], [193, 168, 1, 1],
    [169, 253, 255, 255], [169, 254, 0, 0], [169, 254, 255, 255], [169, 255, 0, 0],
    [126, 255, 255, 255], [127, 0, 0, 1], [127, 255, 255, 255], [128, 0, 0, 0],
];

fn sweep_family(own: &Id20, ip: Ipv4Addr) -> Vec<Pn> {
    let mut f = [0x42u8; 20];
    f[0] = own[0] ^ 0x80;
    let mut a = fill_id(own, 7);
    a[5] = 0x31;
    let mut b = fill_id(own, 8);
    b[5] = 0x32;
    let mut f2 = f;
    f2[7] = 0x43;
    let fam = vec![
        Pn { id: a, addr: SocketAddrV4::new(ip, 4000) },
        Pn { id: b, addr: SocketAddrV4::new(ip, 4001) },
        Pn { id: bep42_id(ip, &f, 1), addr: SocketAddrV4::new(ip, 4002) },
        Pn { id: bep42_id(ip, &f2, 1), addr: SocketAddrV4::new(ip, 4003) },
        Pn { id: bep42_id(ip, &f2, 2), addr: SocketAddrV4::new(ip, 4004) },
        // almost secure: the BEP42 id for r = 3 with the last of its 21 prefix bits flipped
        Pn {
            id: {
                let mut f3 = f;
                f3[9] = 0x44;
                let mut id = bep42_id(ip, &f3, 3);
                id[2] ^= 0x08;
                id
            },
            addr: SocketAddrV4::new(ip, 4005),
        },
    ];
    fam
}

/// Distance classes: one node per first-differing bit (all 160), added to one table in
/// ascending, descending and interleaved order; every state judged by the same invariants
/// (the bucket key is compared with the harness' own bitwise distance).
fn distance_sweep(cfg: &Arc<Cfg>, order: usize, out: &mut Partial) {
    sim::install_env();
    sim::enter_local(sim::T0, 7);
    let own = cfg.own[0];
    let mut st = St { cfg: cfg.clone(), table: RoutingTable::new(own.into()), now: sim::T0, init: 0 };
    let bits: Vec<usize> = match order {
        0 => (0..160).collect(),
        1 => (0..160).rev().collect(),
        _ => (0..160).map(|i| (i * 67) % 160).collect(),
    };
    for (step, bit) in bits.iter().enumerate() {
        let mut id = own;
        id[bit / 8] ^= 0x80 >> (bit % 8);
        // (tail bits after the first differing one vary too)
        if bit / 8 + 1 < 20 {
            id[19] ^= (*bit as u8) | 1;
        }
        let ip = Ipv4Addr::new(70, 1 + (bit / 200) as u8, 1, 1 + (*bit % 200) as u8);
        let accepted = st.table.add(node_of(&Pn { id, addr: SocketAddrV4::new(ip, 6881) }));
        out.add("distance_class_adds", 1);
        if !accepted {
            out.violation("table/distance-class-add-refused", format!("a node whose id first differs from the table's at bit {bit} (own IP, empty bucket) was refused"), json!({"distance_sweep": order}));
        }
        let mut tmp = Partial::default();
        st.check_invariants(&mut tmp, &[0]);
        for v in tmp.violations {
            out.violation(format!("{}/distance-class", v.key), format!("{} [one node per first-differing bit, order #{order}, after add #{} (bit {bit})]", v.desc, step + 1), json!({"distance_sweep": order}));
        }
    }
    if st.table.size() != 160 {
        out.violation("table/distance-class-size", format!("160 nodes at 160 different distances were added, the table holds {}", st.table.size()), json!({"distance_sweep": order}));
    }
}

fn nth_permutation(n: usize, mut k: usize) -> Vec<usize> {
    let mut items: Vec<usize> = (0..n).collect();
    let mut out = vec![];
    for i in (1..=n).rev() {
        let f: usize = (1..i).product();
        out.push(items.remove(k / f));
        k %= f;
    }
    out
}

fn ip_sweep_one(cfg: &Arc<Cfg>, ip_index: usize, order: usize, out: &mut Partial) {
    sim::install_env();
    sim::enter_local(sim::T0, 7);
    let own = cfg.own[0];
    let ip = Ipv4Addr::from(SWEEP_IPS[ip_index]);
    let fam = sweep_family(&own, ip);
    let mut st = St { cfg: cfg.clone(), table: RoutingTable::new(own.into()), now: sim::T0, init: 0 };
    let perm = nth_permutation(fam.len(), order);
    for (step, &i) in perm.iter().enumerate() {
        let accepted = st.table.add(node_of(&fam[i]));
        out.add("address_class_adds", 1);
        out.add(if accepted { "address_class_adds_accepted" } else { "address_class_adds_refused" }, 1);
        let mut tmp = Partial::default();
        st.check_invariants(&mut tmp, &[0]);
        for v in tmp.violations {
            out.violation(
                format!("{}/address-class/{}", v.key, if bep42_valid(&[0xEE; 20], ip) { "exempt" } else { "public" }),
                format!("{} [family of six ids on {ip}, add order {:?}, after add #{}]", v.desc, perm, step + 1),
                json!({"ip_sweep": ip_index, "order": order}),
            );
        }
    }
}

fn run(tier: Tier, _s: usize, _n: usize, _seed: u64) -> Partial {
    let cfg = Arc::new(build_cfg());
    let inits = initial_states(&cfg);
    let mut out = Partial::default();
    // invariants on the initial states themselves
    for (i, st) in inits.iter().enumerate() {
        st.enter();
        st.check_invariants(&mut out, &[i as u16]);
    }
    for ip_index in 0..SWEEP_IPS.len() {
        // (all 720 orders on every fourth address, every sixth order on the others)
        for order in (0..720).step_by(if ip_index % 4 == 3 { 1 } else { 6 }) {
            ip_sweep_one(&cfg, ip_index, order, &mut out);
        }
    }
    for order in 0..3 {
        distance_sweep(&cfg, order, &mut out);
    }
    out.witness("the address-class sweep saw accepted and refused adds", out.count("address_class_adds_accepted") > 0 && out.count("address_class_adds_refused") > 0);
    let bfs = Bfs { max_depth: depth(tier), max_states: if tier.is_quick() { 3_000_000 } else { 30_000_000 }, threads: super::cores(), collect_paths: false };
    let stats = bfs.run(inits, &mut out);
    out.notes.push(format!(
        "alphabet {}, depth {}, states {}, transitions {}, frontier sizes {:?}{}",
        cfg.ops.len(),
        stats.depth_reached,
        stats.states,
        stats.transitions,
        stats.frontier_sizes,
        if stats.capped { " (CAPPED)" } else { "" }
    ));
    out.sample(json!({"initial": "20 fresh fill nodes in bucket 160, aged 16 min", "ops": ["Add(new id in the full bucket)", "Add(secure id on 80.1.2.3)", "Add(insecure id on 80.1.2.3)", "Rekey(to the id of the secure node)"]}));
    out.witness("an add was accepted", out.count("adds_accepted") > 0);
    out.witness("an add was refused", out.count("adds_refused") > 0);
    out.witness("a stale head was evicted", out.count("stale_evictions") > 0);
    out.witness("a re-key happened", out.count("rekeys") > 0);
    out.witness("a present node was heard from again and refreshed", out.count("refreshes") > 0);
    out
}

fn replay(v: &Value) -> Result<Option<Violation>, String> {
    if let Some(order) = v.get("distance_sweep").and_then(|x| x.as_u64()) {
        let cfg = Arc::new(build_cfg());
        let mut out = Partial::default();
        distance_sweep(&cfg, order as usize, &mut out);
        return Ok(out.violations.into_iter().next());
    }
    if let Some(ip_index) = v.get("ip_sweep").and_then(|x| x.as_u64()) {
        let cfg = Arc::new(build_cfg());
        let mut out = Partial::default();
        ip_sweep_one(&cfg, ip_index as usize, v.get("order").and_then(|x| x.as_u64()).ok_or("order")? as usize, &mut out);
        return Ok(out.violations.into_iter().next());
    }
    let path: Vec<u16> = v.get("path").and_then(|p| p.as_array()).ok_or("path")?.iter().filter_map(|x| x.as_u64().map(|x| x as u16)).collect();
    let cfg = Arc::new(build_cfg());
    let mut inits = initial_states(&cfg);
    let first = *path.first().ok_or("empty path")? as usize;
    if first >= inits.len() {
        return Err("bad initial state".into());
    }
    let mut st = inits.swap_remove(first);
    let _ = st.init;
    let mut out = Partial::default();
    st.enter();
    st.check_invariants(&mut out, &path[..1]);
    for n in 1..path.len() {
        st.enter();
        st.step(path[n] as usize, &path[..=n], &mut out);
    }
    Ok(out.violations.into_iter().next())
}
