//! C02 - lookups only return authentic data, whatever responders send.
//! Engine E1: one real reader, 2-3 Byzantine scripted endpoints; every assignment of an answer
//! from a forgery menu to every endpoint in every arrival order, for every lookup API, with an
//! optional second caller joining the lookup while it is still active.

use std::net::{Ipv4Addr, SocketAddrV4};

use dht::MutableItem;
use serde_json::{json, Value};

use super::CheckDef;
use crate::bencode::B;
use crate::epnet::EpNet;
use crate::explore::Chooser;
use crate::krpc::{self, Id20, Krpc};
use crate::report::{CheckInfo, Partial, Tier, Violation};
use crate::sim::*;

pub fn def() -> CheckDef {
    CheckDef {
        id: "C02",
        info,
        shards: |_| super::cores(),
        run,
        replay,
    }
}

const APIS: [&str; 6] = ["get_immutable", "get_mutable", "get_mutable(salt)", "get_mutable_most_recent(salt)", "get_signed_peers", "get_immutable(a key's slot)"];

fn info(tier: Tier) -> CheckInfo {
    let mut ci = CheckInfo {
        id: "C02",
        level: "model_checking",
        rule: format!(
            "Tier {}: one real reader and {} scripted endpoints; for each lookup API (get_immutable, get_mutable without and with salt, get_mutable_most_recent, get_signed_peers) every assignment of an answer from the forgery menu to every endpoint, in every arrival order, with and without a second identical call joining the lookup 100 ms later while a slow endpoint keeps it open (and, for salted mutable items - the salt is the longest legal one, 64 bytes - a get issued while the node's own put_mutable lookup for that key is in flight, and a second caller asking for the same key under a salt one byte longer, judged against its own salt). Menus - immutable: no value, right value, other bytes, one-bit flip, value of another target, empty, a mutable reply, a peers reply; mutable: no value, right item, valid item of another key, right key but other salt, seq / value / signature altered after signing, k not a curve point, the item of the unsalted slot, an immutable reply; signed peers: [valid], [valid,forged], [forged,valid], valid for another infohash, key/signature mismatch, altered timestamp, empty list, a peers reply. Oracle: every element surfaced by the API is re-verified independently (SHA-1 of the BEP44 encoding; Ed25519 over the BEP44 signable with the requested salt, key = requested key; Ed25519 over infohash||t).",
            tier.name(),
            3
        ),
        assumptions: vec!["trusted base of the oracle: sha1_smol and ed25519-dalek signature verification".into(), "forgery classes, not all byte strings".into()],
    };
    ci.rule.push_str(" Added: signed-peer lists of 16 records with the forged one last; the node's own put of every kind in flight; lookups also through the blocking Dht API; a server-mode reader all of whose responders report endpoint 0's own address as the reader's public address, confirmed by a ping from that address (immutable, salted mutable and signed-peers lookups); get_immutable of a target that is the unsalted slot of a key the responders own, answered with that key's genuine items (nothing hashes to the target: nothing may be yielded).");
    ci
}

const MENU: usize = 8;
const MUT_MENU: usize = 10;

struct Keys {
    sk: ed25519_dalek::SigningKey,
    sk2: ed25519_dalek::SigningKey,
    pk: [u8; 32],
    pk2: [u8; 32],
}

fn keys() -> Keys {
    let sk = krpc::signing_key(0x51);
    let sk2 = krpc::signing_key(0x52);
    Keys { pk: sk.verifying_key().to_bytes(), pk2: sk2.verifying_key().to_bytes(), sk, sk2 }
}

const IMM: &[u8] = b"the authentic immutable value";
/// The longest salt BEP44 allows (64 bytes).
const SALT: &[u8] = b"salty-salty-salty-salty-salty-salty-salty-salty-salty-salty-64b!!";
/// One byte longer: shares its first 64 bytes with `SALT` (too long to publish under, but a
/// reader may ask for it).
const SALT65: &[u8] = b"salty-salty-salty-salty-salty-salty-salty-salty-salty-salty-64b!!x";
const INFOHASH: Id20 = [0x5A; 20];

fn target_of(api: usize) -> Id20 {
    let k = keys();
    match api {
        0 => krpc::immutable_target(IMM),
        1 => krpc::mutable_target(&k.pk, None),
        2 | 3 => krpc::mutable_target(&k.pk, Some(SALT)),
        // api 5: get_immutable of a target that IS the unsalted slot of a key the responders own
        // (targets come from untrusted places); nothing hashes to it, so nothing may be yielded
        5 => krpc::mutable_target(&k.pk, None),
        _ => INFOHASH,
    }
}

fn salt_of(api: usize) -> Option<&'static [u8]> {
    if api == 2 || api == 3 {
        Some(SALT)
    } else {
        None
    }
}

fn menu_len(api: usize) -> usize {
    if api == 5 {
        return 4;
    }
    if (1..=4).contains(&api) {
        MUT_MENU
    } else {
        MENU
    }
}

/// Classes beyond the cube menu: they are crossed with one other endpoint's full menu (and a
/// third endpoint that holds nothing or the authentic answer) instead of the full cube.
fn extra_len(api: usize) -> usize {
    match api {
        1..=3 => 2,
        4 => 2,
        _ => 0,
    }
}

fn menu_name(api: usize, v: usize) -> &'static str {
    match api {
        5 => ["no-value", "the-key's-genuine-item", "the-key's-genuine-binary-item", "other-bytes"][v],
        0 => ["no-value", "right-value", "other-bytes", "bit-flip", "value-of-other-target", "empty", "mutable-reply", "peers-reply"][v],
        1..=3 => ["no-value", "right-item", "other-key-valid", "other-salt", "seq-altered", "value-altered", "sig-altered", "bad-curve-point", "unsalted-slot-item", "immutable-reply", "right-binary-item", "binary-value-byte-swapped"][v],
        _ => ["valid", "valid+forged", "forged+valid", "other-infohash", "key-sig-mismatch", "ts-altered", "empty-list", "peers-reply", "15-valid+forged-last", "16-valid", "same-key-twice-older-first", "genuine-records-dated-ahead"][v],
    }
}

/// Reply fields (beyond id/token/nodes) of endpoint behaviour `v` for `api`.
fn forged_fields(api: usize, v: usize, now_micros: u64) -> Vec<(&'static str, B)> {
    let k = keys();
    let mitem = |sk: &ed25519_dalek::SigningKey, pk: &[u8; 32], seq: i64, val: &[u8], salt: Option<&[u8]>| -> Vec<(&'static str, B)> {
        vec![("k", B::bytes(pk)), ("seq", B::Int(seq as i128)), ("v", B::bytes(val)), ("sig", B::bytes(krpc::sign_mutable(sk, seq, val, salt)))]
    };
    match api {
        5 => match v {
            0 => vec![],
            1 => mitem(&k.sk, &k.pk, 3, b"a genuine item of the key", None),
            2 => mitem(&k.sk, &k.pk, 4, &[0xff, 0x01, 0x80, 0xf0, 0x90, 0x80], None),
            _ => vec![("v", B::bytes(b"completely different bytes"))],
        },
        0 => match v {
            0 => vec![],
            1 => vec![("v", B::bytes(IMM))],
            2 => vec![("v", B::bytes(b"completely different bytes"))],
            3 => {
                let mut x = IMM.to_vec();
                x[3] ^= 0x01;
                vec![("v", B::bytes(x))]
            }
            4 => vec![("v", B::bytes(b"valid for another target"))],
            5 => vec![("v", B::bytes(b""))],
            6 => mitem(&k.sk, &k.pk, 1, IMM, None),
            _ => vec![("values", B::List(vec![B::bytes([1, 2, 3, 4, 0, 80])]))],
        },
        1..=3 => {
            let salt = salt_of(api);
            match v {
                0 => vec![],
                1 => mitem(&k.sk, &k.pk, 3, b"right", salt),
                2 => mitem(&k.sk2, &k.pk2, 9, b"signed by another key", salt),
                3 => mitem(&k.sk, &k.pk, 9, b"right key other salt", Some(b"other")),
                4 => {
                    let mut f = mitem(&k.sk, &k.pk, 3, b"right", salt);
                    f[1] = ("seq", B::Int(99));
                    f
                }
                5 => {
                    let mut f = mitem(&k.sk, &k.pk, 3, b"right", salt);
                    f[2] = ("v", B::bytes(b"wrong"));
                    f
                }
                6 => {
                    let mut f = mitem(&k.sk, &k.pk, 3, b"right", salt);
                    let mut s = krpc::sign_mutable(&k.sk, 3, b"right", salt).to_vec();
                    s[7] ^= 0x20;
                    f[3] = ("sig", B::bytes(s));
                    f
                }
                7 => {
                    let mut f = mitem(&k.sk, &k.pk, 3, b"right", salt);
                    // y = 2 is not on the curve for this encoding
                    let mut bad = [0u8; 32];
                    bad[0] = 2;
                    f[0] = ("k", B::bytes(bad));
                    f
                }
                // an authentic item of the same key published WITHOUT salt (replay across salts),
                // for the unsalted API: an authentic item published WITH a salt
                8 => mitem(&k.sk, &k.pk, 7, b"from the other slot", if salt.is_some() { None } else { Some(SALT) }),
                9 => vec![("v", B::bytes(IMM))],
                // a value that is not text: authentic ...
                10 => mitem(&k.sk, &k.pk, 4, &[0xff, 0x01, 0x80, 0xf0, 0x90, 0x80], salt),
                // ... and the same key, seq and signature replayed over a value in which invalid
                // UTF-8 bytes were swapped for other invalid ones
                // (the signature is the one the LIBRARY makes for the original value - what a
                // publisher using this library puts on the network - and the swapped value reads
                // the same as the original once invalid sequences are replaced by U+FFFD)
                _ => {
                    let orig: [u8; 6] = [0xff, 0x01, 0x80, 0xf0, 0x90, 0x80];
                    let published = MutableItem::new(&k.sk, &orig, 4, salt);
                    vec![("k", B::bytes(k.pk)), ("seq", B::Int(4)), ("v", B::bytes([0xfe, 0x01, 0x81, 0xf0, 0x90, 0x80])), ("sig", B::bytes(published.signature()))]
                }
            }
        }
        _ => {
            let rec = |sk: &ed25519_dalek::SigningKey, pk: &[u8; 32], ih: &Id20, ts: u64, ts_wire: u64| {
                let mut b = pk.to_vec();
                b.extend_from_slice(&ts_wire.to_be_bytes());
                b.extend_from_slice(&krpc::sign_announce(sk, ih, ts));
                B::bytes(b)
            };
            let valid = rec(&k.sk, &k.pk, &INFOHASH, now_micros, now_micros);
            let forged = rec(&k.sk, &k.pk2, &INFOHASH, now_micros, now_micros);
            match v {
                0 => vec![("peers", B::List(vec![valid]))],
                1 => vec![("peers", B::List(vec![valid, forged]))],
                2 => vec![("peers", B::List(vec![forged, valid]))],
                3 => vec![("peers", B::List(vec![rec(&k.sk, &k.pk, &[0x11; 20], now_micros, now_micros)]))],
                4 => vec![("peers", B::List(vec![forged]))],
                5 => vec![("peers", B::List(vec![rec(&k.sk, &k.pk, &INFOHASH, now_micros, now_micros + 1)]))],
                6 => vec![("peers", B::List(vec![]))],
                7 => vec![("values", B::List(vec![B::bytes([1, 2, 3, 4, 0, 80])]))],
                // (10: see below)
                // long lists (16 records is about what fits a datagram next to the node list):
                // every record must be verified, not only the first few
                10 => {
                    // two genuine records of one key, the older first (a store keyed by public key
                    // never sends that; a reader must not fuse them into a record nobody signed)
                    let older = now_micros.saturating_sub(5_000_000);
                    vec![("peers", B::List(vec![rec(&k.sk, &k.pk, &INFOHASH, older, older), valid]))]
                }
                11 => {
                    // genuine records dated ahead of the reader's clock (an announcer whose clock
                    // runs fast): whatever the reader does with them, it must not hand out a record
                    // with another timestamp than the signed one
                    let sk3 = krpc::signing_key(0x53);
                    let ahead = now_micros + 30_000_000;
                    let far = now_micros + 3_600_000_000;
                    vec![("peers", B::List(vec![rec(&k.sk, &k.pk, &INFOHASH, ahead, ahead), rec(&sk3, &sk3.verifying_key().to_bytes(), &INFOHASH, far, far)]))]
                }
                8 | 9 => {
                    let mut l: Vec<B> = (0..15u8)
                        .map(|i| {
                            let ski = krpc::signing_key(0x70 + i);
                            rec(&ski, &ski.verifying_key().to_bytes(), &INFOHASH, now_micros, now_micros)
                        })
                        .collect();
                    l.push(if v == 8 { rec(&k.sk, &k.pk, &[0x11; 20], now_micros, now_micros) } else { valid });
                    vec![("peers", B::List(l))]
                }
                _ => unreachable!(),
            }
        }
    }
}

fn permutation(n: usize, mut k: usize) -> Vec<usize> {
    let mut items: Vec<usize> = (0..n).collect();
    let mut out = vec![];
    for i in (1..=n).rev() {
        out.push(items.remove(k % i));
        k /= i;
    }
    out
}

#[derive(Clone, Debug)]
struct Cfg {
    api: usize,
    answers: Vec<usize>,
    order: usize,
    /// 0 none, 1 second identical call 100 ms later, 2 (salted mutable only) the get is issued
    /// while the node's own put_mutable for the key is looking up, 3 (salted mutable only) a
    /// second caller asks 100 ms later for the same key under a salt one byte longer
    join: usize,
    /// the lookups go through the blocking `Dht` API
    sync: bool,
}

struct Out {
    bad: Vec<(String, String)>,
    yielded: usize,
    positive_control: bool,
    steps: u64,
    digests: Vec<u64>,
    done: bool,
}

fn verify_result(_api: usize, r: &CallResult, target: &Id20, salt: Option<&[u8]>) -> (Vec<(String, String)>, usize) {
    let k = keys();
    let mut bad = vec![];
    let mut n = 0;
    let check_item = |item: &MutableItem, bad: &mut Vec<(String, String)>| {
        let ok = item.key() == &k.pk
            && item.salt() == salt
            && krpc::verify_mutable(item.key(), item.seq(), item.value(), salt, item.signature())
            && item.target().as_bytes() == target;
        if !ok {
            let class = if item.key() != &k.pk {
                "other-key"
            } else if item.salt() != salt {
                "other-salt"
            } else {
                "bad-signature"
            };
            bad.push((format!("unauthentic-mutable/{class}"), format!("yielded seq={} value={:?} key={}", item.seq(), String::from_utf8_lossy(item.value()), crate::report::hex(&item.key()[..4]))));
        }
    };
    match r {
        CallResult::Bytes(Some(v)) => {
            n += 1;
            if krpc::immutable_target(v) != *target {
                bad.push(("unauthentic-immutable".into(), format!("yielded {:?} whose hash is not the target", String::from_utf8_lossy(v))));
            }
        }
        CallResult::Bytes(None) => {}
        CallResult::Mutables(items) => {
            for i in items {
                n += 1;
                check_item(i, &mut bad);
            }
        }
        CallResult::Mutable(Some(i)) => {
            n += 1;
            check_item(i, &mut bad);
        }
        CallResult::Mutable(None) => {}
        CallResult::SignedPeers(batches) => {
            for b in batches {
                for a in b {
                    n += 1;
                    if !krpc::verify_announce(a.key(), target, a.timestamp(), a.signature()) {
                        bad.push(("unauthentic-signed-peer".into(), format!("yielded an announcement of key {} that does not verify", crate::report::hex(&a.key()[..4]))));
                    }
                }
            }
        }
        CallResult::Panicked(p) => bad.push(("api-panicked".into(), p.clone())),
        other => bad.push(("unexpected-result".into(), format!("{other:?}"))),
    }
    (bad, n)
}

fn scenario(cfg: &Cfg, track: bool) -> Out {
    let mut w = World::new(Chooser::default_run());
    w.track_states = track;
    let target = target_of(cfg.api);
    let n = cfg.answers.len();
    let ids = crate::epnet::ranked_ids(&target, n);
    let mut net = EpNet::new(&mut w, &ids);
    let eps = net.addrs();
    // join mode 4: the reader runs in server mode and every responder reports endpoint 0's own
    // address as the reader's public address; endpoint 0 then pings the reader from that address
    // (which the reader takes for its confirming self ping). Responders do not earn trust that way.
    let pose = cfg.join == 4;
    let mut ncfg = NodeCfg::new([9, 9, 9, 9], 7000).bootstrap(&eps).id([0x21; 20]);
    if pose {
        ncfg = ncfg.server();
    }
    let a = w.add_node(ncfg);
    let a_addr = w.node_addr(a);
    let vote = eps[0];
    // (every honest answer of join mode 4 carries the lying `ip` field)
    let lying = |net: &mut EpNet, w: &mut World, ep: usize, dgram: &crate::sim::Datagram| {
        let i = net.index_of(ep).expect("ep");
        if let Some(q) = Krpc::parse(&dgram.bytes) {
            if q.is_query() {
                if let Some(bytes) = net.honest_reply(i, &q, dgram.from, w.now) {
                    let (mut tree, _) = crate::bencode::decode(&bytes).expect("own reply");
                    tree.set("ip", B::bytes(krpc::compact_addr(&vote)));
                    let from = net.eps[i].addr;
                    w.send_raw(from, dgram.from, crate::bencode::encode(&tree));
                }
            }
        }
    };
    let h = w.now + 3 * SEC;
    w.run_until(h, |w, ev| {
        if let Event::EndpointRecv { ep, dgram } = ev {
            if pose {
                lying(&mut net, w, *ep, dgram);
            } else {
                net.handle(w, *ep, dgram);
            }
        }
        false
    });
    if pose {
        w.send_raw(vote, a_addr, krpc::q_ping(&[0x70, 0x6f, 0x73, 0x65], &net.eps[0].id));
        let h = w.now + SEC;
        w.run_until(h, |w, ev| {
            if let Event::EndpointRecv { ep, dgram } = ev {
                lying(&mut net, w, *ep, dgram);
            }
            false
        });
    }
    let lat_rank = permutation(n, cfg.order);
    let k = keys();
    w.sync_api = cfg.sync;
    let start_call = |w: &mut World| match cfg.api {
        0 | 5 => w.call_get_immutable(a, target.into()),
        1 => w.call_get_mutable(a, k.pk, None, None),
        2 => w.call_get_mutable(a, k.pk, Some(SALT.to_vec()), None),
        3 => w.call_get_mutable_most_recent(a, k.pk, Some(SALT.to_vec())),
        _ => w.call_get_signed_peers(a, target.into()),
    };
    let mut calls = vec![];
    if cfg.join == 2 {
        // the node's own put for the same target starts the lookup; the get joins it
        match cfg.api {
            0 => {
                w.call_put_immutable(a, IMM.to_vec());
            }
            1 => {
                w.call_put_mutable(a, MutableItem::new(&k.sk, b"own put", 1, None), None);
            }
            2 | 3 => {
                w.call_put_mutable(a, MutableItem::new(&k.sk, b"own put", 1, Some(SALT)), None);
            }
            _ => {
                w.call_announce_signed_peer(a, INFOHASH.into(), k.sk.clone());
            }
        }
    }
    calls.push(start_call(&mut w));
    let join_at = w.now + 100 * MS;
    let mut joined = cfg.join != 1 && cfg.join != 3;
    if pose {
        out_posed(&mut w, a, vote);
    }
    let lookup_q: &str = match cfg.api {
        4 => "get_signed_peers",
        _ => "get",
    };
    let h = w.now + 30 * SEC;
    loop {
        if !joined && w.now >= join_at {
            if cfg.join == 3 {
                calls.push(w.call_get_mutable(a, k.pk, Some(SALT65.to_vec()), None));
            } else {
                calls.push(start_call(&mut w));
            }
            joined = true;
        }
        let next_h = if joined { h } else { join_at };
        let Some(ev) = w.step(next_h) else {
            if !joined {
                w.advance_to(join_at);
                continue;
            }
            break;
        };
        if let Event::EndpointRecv { ep, dgram } = &ev {
            let i = net.index_of(*ep).expect("ep");
            if let Some(q) = Krpc::parse(&dgram.bytes) {
                if q.is_query() && q.q.as_deref() == Some(lookup_q) && q.query_target() == Some(target) {
                    let v = cfg.answers[i];
                    let mut r = vec![("id", B::bytes(net.eps[i].id)), ("token", B::bytes(&net.eps[i].token)), ("nodes", B::bytes(krpc::compact_nodes(&net.closest_for(i, &target))))];
                    r.extend(forged_fields(cfg.api, v, UNIX_BASE_MICROS + w.now / 1000));
                    let bytes = krpc::response(&q.t, r, Some(if pose { &vote } else { &dgram.from }), Some(&krpc::VERSION_RS));
                    // distinct latencies give the arrival order; with a joiner the last one is slow
                    let mut lat = (10 + 40 * lat_rank[i] as u64) * MS;
                    if cfg.join >= 1 && lat_rank[i] == n - 1 {
                        lat = 400 * MS;
                    }
                    let from = net.eps[i].addr;
                    w.send_raw_with_latency(from, dgram.from, bytes, lat);
                } else if pose {
                    lying(&mut net, &mut w, *ep, dgram);
                } else {
                    net.handle(&mut w, *ep, dgram);
                }
            }
        }
        if joined && calls.iter().all(|c| w.result(*c).is_some()) {
            break;
        }
    }
    let mut bad = vec![];
    let mut yielded = 0;
    let done = calls.iter().all(|c| w.result(*c).is_some());
    for (ci, c) in calls.iter().enumerate() {
        if let Some(r) = w.result(*c) {
            // the second caller of join mode 3 asked for another salt: judged against that one
            let other_salt = cfg.join == 3 && ci == 1;
            let (salt, tgt) = if other_salt { (Some(SALT65), krpc::mutable_target(&k.pk, Some(SALT65))) } else { (salt_of(cfg.api), target) };
            let (b, n) = verify_result(cfg.api, r, &tgt, salt);
            bad.extend(b);
            yielded += n;
        }
    }
    if let Some(dead) = w.any_actor_panicked() {
        bad.push(("actor-died".into(), format!("actor thread panicked: node {dead} {}", w.death_reason(dead))));
    }
    // positive control: an authentic answer was offered and something was yielded
    let authentic = match cfg.api {
        0 | 1 | 2 | 3 => 1,
        5 => usize::MAX,
        _ => 0,
    };
    let offered = cfg.answers.iter().any(|a| *a == authentic);
    Out { bad, yielded, positive_control: offered && yielded > 0, steps: w.steps, digests: w.state_digests.iter().copied().collect(), done }
}

/// (vacuity record for join mode 4: did the reader take the responder's address for its own?)
fn out_posed(w: &mut World, a: usize, vote: std::net::SocketAddrV4) {
    let s = w.snapshot(a);
    POSED.with(|p| p.set(p.get() + (s.core.public_address == Some(vote) && !s.core.firewalled) as u64));
}

thread_local! {
    static POSED: std::cell::Cell<u64> = const { std::cell::Cell::new(0) };
}

fn configs(tier: Tier) -> Vec<Cfg> {
    let n = 3;
    let orders: usize = (1..=n).product();
    let mut v = vec![];
    for api in 0..6 {
        let ml = menu_len(api);
        for c in 0..ml.pow(n as u32) {
            let answers: Vec<usize> = (0..n).map(|i| (c / ml.pow(i as u32)) % ml).collect();
            for order in 0..orders {
                for join in 0..5 {
                    if join == 3 && api != 2 {
                        continue;
                    }
                    if api == 5 && join >= 2 {
                        continue;
                    }
                    if join == 4 && (!(api == 0 || api == 2 || api == 4) || (tier.is_quick() && order != 0)) {
                        continue;
                    }
                    if join >= 1 && tier.is_quick() && (order % 2 == 1 || (join == 2 && api != 2 && order != 0)) {
                        // quick: joiners with half of the arrival orders (own put of the other kinds: one order)
                        continue;
                    }
                    v.push(Cfg { api, answers: answers.clone(), order, join, sync: false });
                    // the same lookups through the blocking API
                    if join <= 1 && (!tier.is_quick() || order % 3 == join) {
                        v.push(Cfg { api, answers: answers.clone(), order, join, sync: true });
                    }
                }
            }
        }
    }
    // classes beyond the cube menu
    for api in 0..5 {
        let ml = menu_len(api);
        let authentic = if api == 4 { 0 } else { 1 };
        for extra in ml..ml + extra_len(api) {
            for pos in 0..n {
                for x in 0..ml + extra_len(api) {
                    for y in [if api == 4 { 6 } else { 0 }, authentic] {
                        let mut answers = vec![0usize; n];
                        answers[pos] = extra;
                        answers[(pos + 1) % n] = x;
                        answers[(pos + 2) % n] = y;
                        for order in 0..orders {
                            for (join, sync) in [(0, false), (1, false), (0, true)] {
                                if tier.is_quick() && join + (sync as usize) > 0 && order % 2 == 1 {
                                    continue;
                                }
                                v.push(Cfg { api, answers: answers.clone(), order, join, sync });
                            }
                        }
                    }
                }
            }
        }
    }
    v
}

fn cfg_json(c: &Cfg) -> Value {
    json!({"api": c.api, "answers": c.answers, "order": c.order, "join": c.join, "sync": c.sync})
}

fn record(c: &Cfg, o: &Out, out: &mut Partial) {
    out.add("executions", 1);
    out.add("transitions", o.steps);
    out.digests.extend(o.digests.iter());
    out.add("elements_yielded", o.yielded as u64);
    if o.positive_control {
        out.add("positive_controls", 1);
        if c.sync {
            out.add("positive_controls_blocking_api", 1);
        }
    }
    if !o.done {
        out.add("non_instances_pending", 1);
    }
    out.outcomes.insert(format!("{}:yielded{}:join{}", APIS[c.api], o.yielded.min(4), c.join));
    let names: Vec<&str> = c.answers.iter().map(|a| menu_name(c.api, *a)).collect();
    for (key, desc) in &o.bad {
        // key: API + what surfaced + which forgery classes were on offer
        let mut offered: Vec<&str> = names.clone();
        offered.sort();
        offered.dedup();
        out.violation(
            format!("{key}/{}/join{}/{}{}", APIS[c.api], c.join, offered.join("+"), if c.sync { "/blocking-api" } else { "" }),
            format!("{}{} with endpoint answers {names:?}, arrival order #{}, join mode {}: {desc}", if c.sync { "[blocking Dht API] " } else { "" }, APIS[c.api], c.order, c.join),
            cfg_json(c),
        );
    }
}

fn run(tier: Tier, shard: usize, nshards: usize, _seed: u64) -> Partial {
    let mut out = Partial::default();
    let cfgs = configs(tier);
    if shard == 0 {
        let c = &cfgs[cfgs.len() / 3];
        let (a, b) = (scenario(c, true), scenario(c, true));
        assert!(a.steps == b.steps && a.digests.len() == b.digests.len() && a.yielded == b.yielded, "MACHINERY: scenario is not deterministic");
    }
    for (i, c) in cfgs.iter().enumerate() {
        if i % nshards != shard {
            continue;
        }
        let o = scenario(c, i % 64 == shard);
        record(c, &o, &mut out);
    }
    out.add("readers_that_took_a_responders_address_for_their_own", POSED.with(|p| p.get()));
    out.witness("authentic values are yielded among forgeries", out.count("positive_controls") > 0);
    out.sample(json!({"api": "get_mutable(salt)", "answers": ["other-key-valid", "right-item", "unsalted-slot-item"], "arrival_order": 4, "join": 1}));
    let _ = (Ipv4Addr::LOCALHOST, SocketAddrV4::new(Ipv4Addr::LOCALHOST, 0));
    out
}

fn replay(v: &Value) -> Result<Option<Violation>, String> {
    let cfg = Cfg {
        api: v.get("api").and_then(|x| x.as_u64()).ok_or("api")? as usize,
        answers: v.get("answers").and_then(|x| x.as_array()).ok_or("answers")?.iter().filter_map(|x| x.as_u64().map(|x| x as usize)).collect(),
        order: v.get("order").and_then(|x| x.as_u64()).ok_or("order")? as usize,
        join: v.get("join").and_then(|x| x.as_u64()).ok_or("join")? as usize,
        sync: v.get("sync").and_then(|x| x.as_bool()).unwrap_or(false),
    };
    let o = scenario(&cfg, false);
    let mut out = Partial::default();
    record(&cfg, &o, &mut out);
    Ok(out.violations.into_iter().next())
}
