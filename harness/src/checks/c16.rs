//! C16 - get_mutable_most_recent returns the newest item seen.
//! Engine E3: the harness plays the actor side of a real `Dht` handle's channel, so the real
//! `Dht::get_mutable_most_recent` / `AsyncDht::get_mutable_most_recent` consume exactly the
//! stream it feeds; all streams up to a length bound over a small item alphabet are enumerated.

use std::future::Future;
use std::pin::Pin;
use std::sync::mpsc;
use std::task::{Context, Poll, Waker};

use dht::verif::{fake_dht, FakeActor, FakeRequest, ResponseSender};
use dht::MutableItem;
use serde_json::{json, Value};

use super::{par_local, CheckDef};
use crate::krpc::signing_key;
use crate::report::{CheckInfo, Partial, Tier, Violation};

pub fn def() -> CheckDef {
    CheckDef {
        id: "C16",
        info,
        shards: |_| super::cores(),
        run,
        replay,
    }
}

const SEQS: [i64; 4] = [1, 2, 3, 7];
const VALUES: [&[u8]; 2] = [b"a", b"b"];

fn max_len(tier: Tier) -> usize {
    if tier.is_quick() {
        5
    } else {
        7
    }
}

fn info(tier: Tier) -> CheckInfo {
    let mut ci = CheckInfo {
        id: "C16",
        level: "exploration",
        rule: format!(
            "All streams of length 0..={} over the 8-item alphabet seq in {{1,2,3,7}} x value in {{a,b}} (every permutation of every multiset: gaps, duplicates, ties), each fed through a real Dht handle's channel to both Dht::get_mutable_most_recent (sync, on a caller thread) and AsyncDht::get_mutable_most_recent (polled by the harness). Plus, on a real node over the simulated network (E1): every assignment of one of {{nothing, (-1,a), (0,a), (0,b), (1,a)}} to each of 3 replicas in every arrival order of their answers, through the real lookup and AsyncDht::get_mutable_most_recent - alone, and joining the still-active lookup of the node's own put_mutable of an older item (seq -2) after one / two of the replicas have already answered it (the own item counts as seen). Distinct = distinct (flavour, stream) / (assignment, order); every case is non-trivial except the empty ones.",
            max_len(tier)
        ),
        assumptions: vec![
            "items delivered by the actor are authentic (C02's business); the fold only sees seq and value".into(),
            "flume channels are FIFO".into(),
        ],
    };
    ci.rule.push_str(" Added: the live part with one or two earlier callers that take one item and drop their stream, and through the blocking Dht API. The live lookups are also run for a salted item (alone, and while the node's own put of that salted item is in flight).");
    ci
}

fn items() -> Vec<MutableItem> {
    let sk = signing_key(7);
    let mut v = vec![];
    for s in SEQS {
        for val in VALUES {
            v.push(MutableItem::new(&sk, val, s, None));
        }
    }
    v
}

fn expected(stream: &[usize], items: &[MutableItem]) -> Option<(i64, Vec<u8>)> {
    let max_seq = stream.iter().map(|i| items[*i].seq()).max()?;
    let best = stream
        .iter()
        .filter(|i| items[**i].seq() == max_seq)
        .map(|i| items[*i].value().to_vec())
        .max()?;
    Some((max_seq, best))
}

fn classify(stream: &[usize], items: &[MutableItem], got: &Option<(i64, Vec<u8>)>) -> &'static str {
    let exp = expected(stream, items);
    match (&exp, got) {
        (None, Some(_)) => "some-for-empty-stream",
        (Some(_), None) => "none-for-nonempty-stream",
        (Some(e), Some(g)) if e.0 != g.0 => {
            if g.0 == items[stream[0]].seq() {
                "keeps-first-item-ignores-later-higher-seq"
            } else {
                "wrong-seq"
            }
        }
        (Some(_), Some(_)) => "tie-break-not-greatest-value",
        (None, None) => "ok",
    }
}

fn feed(fake: &FakeActor, stream: &[usize], items: &[MutableItem], blocking: bool) -> bool {
    let req = if blocking {
        fake.recv()
    } else {
        fake.try_recv()
    };
    match req {
        Some(FakeRequest::Get(_, ResponseSender::Mutable(tx))) => {
            for i in stream {
                let _ = tx.send(items[*i].clone());
            }
            true
        }
        _ => false,
    }
}

fn run_async(stream: &[usize], items: &[MutableItem], key: &[u8; 32]) -> Result<Option<(i64, Vec<u8>)>, String> {
    let (dht, fake) = fake_dht();
    let adht = dht.as_async();
    let mut fut: Pin<Box<dyn Future<Output = Option<MutableItem>>>> =
        Box::pin(async move { adht.get_mutable_most_recent(key, None).await });
    let mut cx = Context::from_waker(Waker::noop());
    match fut.as_mut().poll(&mut cx) {
        Poll::Pending => {}
        Poll::Ready(r) => return Ok(r.map(|i| (i.seq(), i.value().to_vec()))),
    }
    if !feed(&fake, stream, items, false) {
        return Err("the call did not enqueue a mutable lookup".into());
    }
    for _ in 0..(stream.len() + 4) {
        if let Poll::Ready(r) = fut.as_mut().poll(&mut cx) {
            return Ok(r.map(|i| (i.seq(), i.value().to_vec())));
        }
    }
    Err("future still pending after the stream ended".into())
}

/// A persistent "actor" thread serving sync calls: for every Get it takes the next scripted
/// stream from `scripts`.
struct SyncRig {
    dht: dht::Dht,
    scripts: mpsc::Sender<Vec<usize>>,
}

fn sync_rig(items: Vec<MutableItem>) -> SyncRig {
    let (dht, fake) = fake_dht();
    let (tx, rx) = mpsc::channel::<Vec<usize>>();
    std::thread::spawn(move || {
        while let Ok(stream) = rx.recv() {
            if !feed(&fake, &stream, &items, true) {
                break;
            }
        }
    });
    SyncRig { dht, scripts: tx }
}

fn run_sync(rig: &SyncRig, stream: &[usize], key: &[u8; 32]) -> Option<(i64, Vec<u8>)> {
    rig.scripts.send(stream.to_vec()).expect("rig alive");
    rig.dht
        .get_mutable_most_recent(key, None)
        .map(|i| (i.seq(), i.value().to_vec()))
}

fn check_one(
    flavour: &'static str,
    stream: &[usize],
    items: &[MutableItem],
    got: Option<(i64, Vec<u8>)>,
    out: &mut Partial,
) {
    out.add("evaluations", 1);
    if !stream.is_empty() {
        out.add("distinct_nontrivial", 1);
    }
    let exp = expected(stream, items);
    if got.is_some() {
        out.add("returned_some", 1);
    }
    if got != exp {
        let class = classify(stream, items, &got);
        let pretty: Vec<String> = stream
            .iter()
            .map(|i| format!("{}{}", items[*i].seq(), String::from_utf8_lossy(items[*i].value())))
            .collect();
        out.violation(
            format!("most-recent/{flavour}/{class}"),
            format!("{flavour}: stream {pretty:?} -> got {got:?}, expected {exp:?}"),
            json!({"flavour": flavour, "stream": stream}),
        );
    }
}

fn nth_stream(mut n: usize, len: usize) -> Vec<usize> {
    let mut s = vec![];
    for _ in 0..len {
        s.push(n % 8);
        n /= 8;
    }
    s
}

/// E1 part: a real node looks the key up over 3 scripted replicas holding different versions;
/// every assignment of a version (or nothing) to every replica in every arrival order.
/// (sequence numbers around zero: they are signed, and 0 is BEP44's first version)
const VERSIONS: [Option<(i64, &[u8])>; 5] = [None, Some((-1, b"a")), Some((0, b"a")), Some((0, b"b")), Some((1, b"a"))];

/// mode 0: plain; 1 / 2: the node's own put_mutable of an OLDER item (seq -2) for the same key
/// is in flight and one / two of the three replicas have already answered its lookup when the
/// call is made, so the call joins that still-active lookup.
fn live(assign: &[usize; 3], order: usize, mode: usize, sync: bool, salted: bool, out: &mut Partial) {
    use crate::epnet::EpNet;
    use crate::explore::Chooser;
    use crate::sim::*;
    let sk = signing_key(7);
    let pk = sk.verifying_key().to_bytes();
    let salt: Option<&[u8]> = if salted { Some(b"c16 salt") } else { None };
    let target = crate::krpc::mutable_target(&pk, salt);
    let mut w = World::new(Chooser::default_run());
    let ids = crate::epnet::ranked_ids(&target, 3);
    let mut net = EpNet::new(&mut w, &ids);
    for (i, a) in assign.iter().enumerate() {
        if let Some((seq, val)) = VERSIONS[*a] {
            net.eps[i].mutable.insert(target, (pk, seq, val.to_vec(), crate::krpc::sign_mutable(&sk, seq, val, salt).to_vec()));
        }
    }
    let boots = net.addrs();
    let a = w.add_node(NodeCfg::new([9, 9, 9, 9], 7000).bootstrap(&boots).id([0x21; 20]));
    let h = w.now + 2 * SEC;
    w.run_until(h, |w, ev| {
        if let Event::EndpointRecv { ep, dgram } = ev {
            net.handle(w, *ep, dgram);
        }
        false
    });
    let rank: Vec<usize> = {
        let mut items = vec![0usize, 1, 2];
        let mut k = order;
        let mut o = vec![];
        for i in (1..=3).rev() {
            o.push(items.remove(k % i));
            k /= i;
        }
        o
    };
    let pump = |w: &mut World, net: &mut EpNet, ev: &Event, rank: &[usize]| {
        if let Event::EndpointRecv { ep, dgram } = ev {
            let i = net.index_of(*ep).expect("ep");
            if let Some(q) = crate::krpc::Krpc::parse(&dgram.bytes) {
                if q.is_query() {
                    if let Some(bytes) = net.honest_reply(i, &q, dgram.from, w.now) {
                        let from = net.eps[i].addr;
                        w.send_raw_with_latency(from, dgram.from, bytes, (10 + 40 * rank[i] as u64) * MS);
                    }
                }
            }
        }
    };
    if mode == 1 || mode == 2 {
        for e in net.eps.iter_mut() {
            e.store_puts = false;
        }
        let own = dht::MutableItem::new(&sk, b"mine (older)", -2, salt);
        let _ = w.call_put_mutable(a, own, None);
        // until `mode` of the three replicas' answers to the put's lookup have reached the node
        let mut arrived = 0;
        let a_addr = w.node_addr(a);
        let h = w.now + 5 * SEC;
        w.run_until(h, |w, ev| {
            pump(w, &mut net, ev, &rank);
            if let Event::Arrived { node, id } = ev {
                if *node == a {
                    let is_get_reply = w.sent().any(|(d, _)| d.id == *id && d.to == a_addr && crate::krpc::Krpc::parse(&d.bytes).map(|k| k.is_response() && k.res_bytes("token").is_some()).unwrap_or(false));
                    if is_get_reply {
                        arrived += 1;
                    }
                }
            }
            arrived >= mode
        });
        // let the actor handle that datagram before the call is queued (a queued call is
        // served before the socket is read)
        let h = w.now + MS;
        w.run_until(h, |w, ev| {
            pump(w, &mut net, ev, &rank);
            false
        });
    }
    w.sync_api = sync;
    if mode >= 3 {
        // one (mode 3) or two (mode 4) earlier callers use the `get_mutable(..).next()` pattern:
        // they take the first item and drop their stream while the lookup is still running
        let firsts: Vec<usize> = (0..mode - 2).map(|_| w.call_get_mutable_first(a, pk, salt.map(|s| s.to_vec()))).collect();
        let h = w.now + 30 * SEC;
        w.run_until(h, |w, ev| {
            pump(w, &mut net, ev, &rank);
            firsts.iter().all(|c| w.result(*c).is_some())
        });
        out.add("live_with_dropped_co_callers", 1);
    }
    let call = w.call_get_mutable_most_recent(a, pk, salt.map(|s| s.to_vec()));
    let h = w.now + 30 * SEC;
    w.run_until(h, |w, ev| {
        if let Event::EndpointRecv { ep, dgram } = ev {
            let i = net.index_of(*ep).expect("ep");
            if let Some(q) = crate::krpc::Krpc::parse(&dgram.bytes) {
                if q.is_query() {
                    if let Some(bytes) = net.honest_reply(i, &q, dgram.from, w.now) {
                        let from = net.eps[i].addr;
                        w.send_raw_with_latency(from, dgram.from, bytes, (10 + 40 * rank[i] as u64) * MS);
                    }
                }
            }
        }
        w.result(call).is_some()
    });
    out.add("evaluations", 1);
    out.add("distinct_nontrivial", 1);
    out.add("live_lookups", 1);
    let mut held: Vec<(i64, Vec<u8>)> = assign.iter().filter_map(|a| VERSIONS[*a].map(|(s, v)| (s, v.to_vec()))).collect();
    if mode == 1 || mode == 2 {
        // the node's own in-flight item is an item it has seen
        held.push((-2, b"mine (older)".to_vec()));
    }
    let want = held.iter().map(|h| h.0).max().map(|m| (m, held.iter().filter(|h| h.0 == m).map(|h| h.1.clone()).max().expect("max")));
    // what comes back is one of the items that were delivered, whole: its signature covers its value
    if let Some(CallResult::Mutable(Some(i))) = w.result(call) {
        if i.key() != &pk || !crate::krpc::verify_mutable(i.key(), i.seq(), i.value(), salt, i.signature()) {
            out.violation(
                format!("most-recent/live/returned-item-not-authentic{}", if salted { "/salted" } else { "" }),
                format!("{}get_mutable_most_recent returned seq {} value {:?} under a signature that does not cover them (replicas hold versions {:?}, arrival order #{order})", if sync { "[blocking Dht API] " } else { "" }, i.seq(), String::from_utf8_lossy(i.value()), assign),
                json!({"part": "live", "assign": assign, "order": order, "mode": mode, "sync": sync, "salted": salted}),
            );
        }
    }
    let got = match w.result(call) {
        Some(CallResult::Mutable(r)) => r.as_ref().map(|i| (i.seq(), i.value().to_vec())),
        other => {
            out.violation("most-recent/live/no-result", format!("{other:?}"), json!({"part": "live", "assign": assign, "order": order, "mode": mode, "sync": sync, "salted": salted}));
            return;
        }
    };
    if got.is_some() {
        out.add("returned_some", 1);
    }
    if got != want {
        let class = match (&got, &want) {
            (None, Some(_)) => "none-although-a-replica-answered",
            (Some(g), Some(w)) if g.0 != w.0 => "not-the-highest-seq",
            (Some(_), Some(_)) => "tie-break-not-greatest-value",
            _ => "some-for-nothing",
        };
        out.violation(
            format!("most-recent/live/{class}{}{}", ["", "/own-put-in-flight", "/own-put-in-flight", "/co-caller-dropped-its-stream", "/co-caller-dropped-its-stream"][mode], if salted { "/salted" } else { "" }),
            format!("{}replicas hold {held:?} (arrival order #{order}); get_mutable_most_recent returned {got:?}, expected {want:?}", if sync { "[blocking Dht API] " } else { "" }),
            json!({"part": "live", "assign": assign, "order": order, "mode": mode, "sync": sync, "salted": salted}),
        );
    }
}

fn run(tier: Tier, shard: usize, nshards: usize, _seed: u64) -> Partial {
    let ml = max_len(tier);
    // one worker process per core: each takes its slice of the streams and of the live lookups
    let mut merged = par_local(1, |_, _| {
        let (chunk, chunks) = (shard, nshards);
        let mut out = Partial::default();
        let items = items();
        let key = *items[0].key();
        let rig = sync_rig(items.clone());
        let mut idx = 0usize;
        for len in 0..=ml {
            for n in 0..8usize.pow(len as u32) {
                idx += 1;
                if idx % chunks != chunk {
                    continue;
                }
                let stream = nth_stream(n, len);
                match run_async(&stream, &items, &key) {
                    Ok(got) => check_one("async", &stream, &items, got, &mut out),
                    Err(e) => out.violation(
                        "most-recent/async/no-result",
                        e,
                        json!({"flavour":"async","stream":stream}),
                    ),
                }
                // the sync flavour costs a thread hand-off per stream: one length shorter
                if len < ml || tier.is_quick() {
                    let got = run_sync(&rig, &stream, &key);
                    check_one("sync", &stream, &items, got, &mut out);
                }
            }
        }
        out
    });
    // E1 part (real node, real lookup): 5^3 assignments x 6 arrival orders, on this thread
    let mut unit = 0usize;
    for c in 0..125usize {
        let assign = [c % 5, (c / 5) % 5, (c / 25) % 5];
        for order in 0..6 {
            for (mode, sync, salted) in [(0, false, false), (1, false, false), (2, false, false), (3, false, false), (4, false, false), (0, true, false), (3, true, false), (0, false, true), (1, false, true), (2, true, true)] {
                unit += 1;
                if unit % nshards == shard {
                    live(&assign, order, mode, sync, salted, &mut merged);
                    merged.add("live_salted", salted as u64);
                }
            }
        }
    }
    merged.sample(json!({"flavour":"async","stream":["1a","2b","2a"],"expected":"seq 2 value b"}));
    merged.sample(json!({"flavour":"sync","stream":["3a","7a","1b"],"expected":"seq 7 value a"}));
    let some = merged.count("returned_some");
    merged.witness("some calls returned an item", some > 0);
    merged
}

fn replay(v: &Value) -> Result<Option<Violation>, String> {
    crate::sim::install_env();
    let mut out = Partial::default();
    if v.get("part").and_then(|p| p.as_str()) == Some("live") {
        let a: Vec<usize> = v.get("assign").and_then(|a| a.as_array()).ok_or("assign")?.iter().filter_map(|x| x.as_u64().map(|x| x as usize)).collect();
        if a.len() != 3 {
            return Err("assign".into());
        }
        live(&[a[0], a[1], a[2]], v.get("order").and_then(|o| o.as_u64()).unwrap_or(0) as usize, v.get("mode").and_then(|o| o.as_u64()).unwrap_or(0) as usize, v.get("sync").and_then(|o| o.as_bool()).unwrap_or(false), v.get("salted").and_then(|o| o.as_bool()).unwrap_or(false), &mut out);
        return Ok(out.violations.into_iter().next());
    }
    crate::sim::enter_local(crate::sim::T0, 1);
    let stream: Vec<usize> = v
        .get("stream")
        .and_then(|s| s.as_array())
        .ok_or("stream")?
        .iter()
        .filter_map(|x| x.as_u64().map(|x| x as usize))
        .collect();
    let items = items();
    let key = *items[0].key();
    match v.get("flavour").and_then(|f| f.as_str()) {
        Some("async") => {
            let got = run_async(&stream, &items, &key)?;
            check_one("async", &stream, &items, got, &mut out);
        }
        Some("sync") => {
            let rig = sync_rig(items.clone());
            let got = run_sync(&rig, &stream, &key);
            check_one("sync", &stream, &items, got, &mut out);
        }
        _ => return Err("flavour".into()),
    }
    Ok(out.violations.into_iter().next())
}
