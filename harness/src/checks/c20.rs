//! C20 - bounded state: no leaks at quiescence, caps respected, stats consistent.
//! (a) E1: the call-overlap and fault schedules of C06, each followed by a quiet period and a
//!     snapshot of the node's per-call state. (b) E2: store capacities 1..3 with exact LRU
//!     (srvchecks) and a 1003-target history that rolls the lookup cache. (c) E1: every history
//!     of lookups/puts up to a depth over a small target set, the statistics counters compared
//!     with the aggregate over the cached lookups after every completed lookup.

use std::net::SocketAddrV4;

use dht::verif::{ActorSnapshot, CachedQuerySnapshot, TableSnapshot};
use serde_json::{json, Value};

use super::c06::{self, Script};
use super::CheckDef;
use crate::epnet::EpNet;
use crate::explore::{Chooser, Explorer};
use crate::krpc::{self, Id20};
use crate::report::{CheckInfo, Partial, Tier, Violation};
use crate::sim::*;

pub fn def() -> CheckDef {
    CheckDef {
        id: "C20",
        info,
        shards: |_| super::cores(),
        run,
        replay,
    }
}

fn depth(tier: Tier) -> usize {
    if tier.is_quick() {
        3
    } else {
        4
    }
}

fn info(tier: Tier) -> CheckInfo {
    let mut ci = CheckInfo {
        id: "C20",
        level: "model_checking",
        rule: format!(
            "Tier {}: (a) quiescence - every schedule of C06 part A at every placement (before each network event of the first call, and 1 s after it) per ordered pair of the 13 API calls and every single-fault schedule of C06 part B on every single call is extended by a quiet period longer than the request timeout, then the node's snapshot must show no lookups, puts, parked callers or unexpired in-flight requests and a bounded in-flight table. (b) caps - explicit-state BFS (depth {}) over the real Server with capacities 1, 2, 3 for values, info-hashes and peers per hash (and the asymmetric shapes 1 hash x 3 peers, 3 hashes x 1 peer) against an exact-LRU reference (a use = an accepted put or a served get; a rejected put may refresh the item it was compared with), and one history of 1003 distinct lookup targets with repeats against a real node: the lookup cache never exceeds 1000 entries and evicts in LRU order. (c) stats - every history of depth {} over {{find_node, get_immutable, get_peers, get_signed_peers, put_immutable}} x targets {{own id, t1, t2}} on a real node with 4 endpoints, plus a 3-hour run (12 refreshes) and the cache-rolling history: after every completed lookup the five counters of both routing tables equal the aggregate over the cached lookups in the same snapshot (find_node entries count only towards the general size estimate), never wrap, and Info::dht_size_estimate = sum / max(count,1).",
            tier.name(),
            if tier.is_quick() { 4 } else { 6 },
            depth(tier)
        ),
        assumptions: vec!["floating-point sums are compared with a relative tolerance of 1e-9".into()],
    };
    ci.rule.push_str(" Added: 24 announcers on one info hash in the store search; histories with a target whose lookups nobody answers, looked up twice with one other step before, between or after. Also: histories that return to a target six idle minutes later (its cached lookup's tokens have expired); an adaptive node configured with capacities (2x1 peers, 2 values, 1 item) whose stores are filled after it turned into a server: the configured capacities are in force before and after the switch.");
    ci
}

// ------------------------------------------------------------------------------------------ (a)

fn part_a(tier: Tier, mine: &mut dyn FnMut() -> bool, out: &mut Partial) {
    let rec = |sc: &Script, choices: &[u32], o: &c06::Out, out: &mut Partial| {
        out.add("executions", 1);
        out.add("transitions", o.steps);
        out.digests.extend(o.digests.iter());
        if o.problems.is_empty() {
            out.add("quiescent_snapshots", 1);
        }
        for (k, d) in &o.leaks {
            let devs = choices.iter().filter(|c| **c > 0).count();
            out.violation(
                format!("leak/{k}/after:{}{}{}", c06::API_NAMES[sc.first], sc.second.map(|s| format!("+{}", c06::API_NAMES[s])).unwrap_or_default(), if devs > 0 { "/with-fault" } else { "" }),
                format!("{} then {:?} (placement {:?}/{} s, choices {choices:?}): after the horizon and a quiet period: {d}", c06::API_NAMES[sc.first], sc.second.map(|s| c06::API_NAMES[s]), sc.at_event, sc.after / SEC),
                json!({"part": "a", "first": sc.first, "second": sc.second, "at_event": sc.at_event, "after_ms": sc.after / MS, "choices": choices}),
            );
        }
    };
    for first in 0..c06::N_APIS {
        // every placement of the second call inside the first call's lifetime, and 1 s after it
        let (_, base) = c06::scenario(Chooser::default_run(), &Script { first, second: None, at_event: None, after: 0, real_peers: false, sync: false }, false, false);
        let mut placements: Vec<(Option<u32>, u64)> = (0..=base.events_first).map(|n| (Some(n), 0u64)).collect();
        placements.push((None, SEC));
        for second in 0..c06::N_APIS {
            for (at_event, after) in placements.clone() {
                if !mine() {
                    continue;
                }
                let sc = Script { first, second: Some(second), at_event, after, real_peers: false, sync: false };
                let (_, o) = c06::scenario(Chooser::default_run(), &sc, false, false);
                rec(&sc, &[], &o, out);
            }
        }
    }
    for first in 0..c06::N_APIS {
        if !mine() {
            continue;
        }
        let sc = Script { first, second: None, at_event: None, after: 0, real_peers: false, sync: false };
        let mut ex = Explorer::new(if tier.is_quick() { 1 } else { 2 }, (0, 1));
        if !tier.is_quick() {
            ex.deadline = Some(std::time::Instant::now() + std::time::Duration::from_secs(15 * 60));
        }
        ex.explore(&mut |chooser, _| {
            let (ch, o) = c06::scenario(chooser, &sc, true, false);
            rec(&sc, &ch.choices(), &o, out);
            (ch, true)
        });
        out.capped |= ex.stats.capped;
    }
}

// ------------------------------------------------------------------------------------------ (c)

fn table_entries(t: &TableSnapshot) -> usize {
    t.buckets.iter().map(|(_, b)| b.len()).sum()
}

/// Sums are maintained by adding and subtracting samples; `scale` is the largest magnitude
/// that ever went through the sum, which bounds the rounding residue.
fn close(a: f64, b: f64, scale: f64) -> bool {
    (a - b).abs() <= 1e-9 * a.abs().max(b.abs()).max(1.0) + 1e-12 * scale
}

/// Compare the counters of both tables with the aggregate over the cached lookups.
fn stats_problems(s: &ActorSnapshot, scale: &mut f64) -> Vec<(String, String)> {
    for c in &s.core.cached_iterative_queries {
        *scale = scale.max(c.dht_size_estimate.abs()).max(c.responders_dht_size_estimate.abs());
    }
    *scale = scale.max(s.core.routing_table.dht_size_estimates_sum.abs()).max(s.core.routing_table.responders_size_estimates_sum.abs());
    let scale = *scale;
    let mut v = vec![];
    let cached: &Vec<CachedQuerySnapshot> = &s.core.cached_iterative_queries;
    for (name, table, signed) in [("main", &s.core.routing_table, false), ("signed-peers", &s.core.signed_peers_routing_table, true)] {
        // which cached lookups feed this table: get_signed_peers (kind 3) -> signed table
        let feeds: Vec<&CachedQuerySnapshot> = cached.iter().filter(|c| (c.request_kind == 3) == signed).collect();
        let n_all = feeds.len();
        let sum_all: f64 = feeds.iter().map(|c| c.dht_size_estimate).sum();
        let storage: Vec<&&CachedQuerySnapshot> = feeds.iter().filter(|c| c.request_kind != 1).collect();
        // general size estimate: every cached lookup of this table
        if table.dht_size_estimates_count != n_all || !close(table.dht_size_estimates_sum, sum_all, scale) {
            v.push((
                format!("size-estimate-counters/{name}"),
                format!("{name} table: dht_size_estimates count={} sum={:.6e}, the {} cached lookups give count={} sum={:.6e}", table.dht_size_estimates_count, table.dht_size_estimates_sum, cached.len(), n_all, sum_all),
            ));
        }
        // responder statistics: either reading (with / without find_node entries)
        let fits = |set: &[&CachedQuerySnapshot]| {
            table.responders_samples_count == set.len()
                && close(table.responders_size_estimates_sum, set.iter().map(|c| c.responders_dht_size_estimate).sum(), scale)
                && table.responders_subnets_sum == set.iter().map(|c| c.subnets as usize).sum::<usize>()
        };
        let storage_refs: Vec<&CachedQuerySnapshot> = storage.iter().map(|c| **c).collect();
        if !(fits(&storage_refs) || fits(&feeds)) {
            v.push((
                format!("responder-counters/{name}"),
                format!(
                    "{name} table: responders count={} size_sum={:.6e} subnets_sum={}; cached storage lookups: {} (with find_node entries: {})",
                    table.responders_samples_count,
                    table.responders_size_estimates_sum,
                    table.responders_subnets_sum,
                    storage_refs.len(),
                    feeds.len()
                ),
            ));
        }
        if table.dht_size_estimates_count > 1000 || table.responders_samples_count > 1000 {
            v.push((format!("counter-wrapped/{name}"), format!("{name} table: a sample counter exceeds the cache size ({} / {})", table.dht_size_estimates_count, table.responders_samples_count)));
        }
        let _ = table_entries(table);
    }
    if cached.len() > 1000 {
        v.push(("lookup-cache-exceeds-capacity".into(), format!("{} cached lookups", cached.len())));
    }
    v
}

const OPS: [&str; 6] = ["find_node", "get_immutable", "get_peers", "get_signed_peers", "put_immutable", "six-minutes-pass"];

/// Target 3 is the one nobody answers lookups for (its lookups have candidates and no responder).
fn targets(own: Id20) -> [Id20; 4] {
    [own, krpc::immutable_target(b"c20 value one"), krpc::immutable_target(b"c20 value two"), krpc::immutable_target(b"c20 unanswered")]
}

/// Run one history (list of (op, target index)) on a fresh node; check stats after each lookup.
fn history(h: &[(usize, usize)], out: &mut Partial) {
    let mut w = World::new(Chooser::default_run());
    let own: Id20 = [0x21; 20];
    let ts = targets(own);
    let ids = crate::epnet::ranked_ids(&ts[1], 4);
    let mut net = EpNet::new(&mut w, &ids);
    // the node closest to t1 answers without a write token (a BEP5-only node): the closest
    // nodes of a lookup then differ from its token-bearing responders, and so do the two size
    // estimates that are added to and later subtracted from the counters
    net.eps[0].issue_token = false;
    let boots = net.addrs()[..1].to_vec();
    let a = w.add_node(NodeCfg::new([9, 9, 9, 9], 7000).bootstrap(&boots).id(own));
    let silent_target = ts[3];
    let pump = |w: &mut World, net: &mut EpNet, ev: &Event| {
        if let Event::EndpointRecv { ep, dgram } = ev {
            // every request about target 3 goes unanswered
            if krpc::Krpc::parse(&dgram.bytes).and_then(|q| q.query_target()) == Some(silent_target) {
                return;
            }
            net.handle(w, *ep, dgram);
        }
    };
    let hz = w.now + 3 * SEC;
    w.run_until(hz, |w, ev| {
        pump(w, &mut net, ev);
        false
    });
    let values: [&[u8]; 4] = [b"c20 own", b"c20 value one", b"c20 value two", b"c20 unanswered"];
    let mut scale = 0f64;
    let mut problems: Vec<(String, String)> = stats_problems(&w.snapshot(a), &mut scale);
    for (step, (op, t)) in h.iter().enumerate() {
        if *op == 5 {
            // six idle minutes: every write token the node was given expires (5 minutes)
            let hz = w.now + 6 * MIN;
            w.run_until(hz, |w, ev| {
                pump(w, &mut net, ev);
                false
            });
            continue;
        }
        let call = match op {
            0 => w.call_find_node(a, ts[*t].into()),
            1 => w.call_get_immutable(a, ts[*t].into()),
            2 => w.call_get_peers(a, ts[*t].into()),
            3 => w.call_get_signed_peers(a, ts[*t].into()),
            _ => w.call_put_immutable(a, values[*t].to_vec()),
        };
        let hz = w.now + 60 * SEC;
        w.run_until(hz, |w, ev| {
            pump(w, &mut net, ev);
            w.result(call).is_some()
        });
        w.run_for(SEC);
        let snap = w.snapshot(a);
        for (k, d) in stats_problems(&snap, &mut scale) {
            problems.push((k, format!("after step {} ({} on target {}): {d}", step + 1, OPS[*op], t)));
        }
        // Info agrees with the counters
        let ic = w.call_info(a);
        let hz = w.now + 5 * SEC;
        w.run_until(hz, |w, ev| {
            pump(w, &mut net, ev);
            w.result(ic).is_some()
        });
        if let Some(CallResult::Info(info)) = w.result(ic) {
            let t = &snap.core.routing_table;
            let want = t.dht_size_estimates_sum as usize / t.dht_size_estimates_count.max(1);
            if info.dht_size_estimate().0 != want {
                problems.push(("info-size-estimate".into(), format!("Info::dht_size_estimate = {}, sum/max(count,1) = {want}", info.dht_size_estimate().0)));
            }
        }
        if !problems.is_empty() {
            break;
        }
    }
    out.add("executions", 1);
    out.add("transitions", w.steps);
    out.add("histories", 1);
    if problems.is_empty() {
        out.add("consistent_histories", 1);
    }
    let names: Vec<String> = h.iter().map(|(o, t)| format!("{}({})", OPS[*o], ["own", "t1", "t2", "unanswered"][*t])).collect();
    let mut seen = std::collections::BTreeSet::new();
    for (k, d) in problems {
        // which op kinds were involved (the finding key), not the exact history
        let mut kinds: Vec<&str> = h.iter().map(|(o, _)| OPS[*o]).collect();
        kinds.sort();
        kinds.dedup();
        let repeated = h.iter().enumerate().any(|(i, x)| h[..i].contains(x));
        let key = format!("stats/{k}/{}{}{}", kinds.join("+"), if repeated { "/repeated-target" } else { "" }, if h.iter().any(|(_, t)| *t == 3) { "/unanswered-lookup" } else { "" });
        if seen.insert(key.clone()) {
            out.violation(key, format!("history {names:?}: {d}"), json!({"part": "c", "history": h.iter().map(|(o, t)| vec![*o, *t]).collect::<Vec<_>>()}));
        }
    }
}

/// A network of `m` peers (1 or 2) and lookups whose target IS a peer's id: the closest set of
/// such a lookup can consist of nodes at distance zero only. Counters after every step as in
/// `history`.
fn target_is_a_peer(m: usize, ops: &[usize], out: &mut Partial) {
    let mut w = World::new(Chooser::default_run());
    let own: Id20 = [0x21; 20];
    let mut base = [0x77u8; 20];
    base[0] = 0xD0;
    let ids: Vec<Id20> = (0..m)
        .map(|i| {
            // the second peer shares its first 16 bytes with the first one
            let mut id = base;
            id[19] ^= i as u8;
            id
        })
        .collect();
    let mut net = EpNet::new(&mut w, &ids);
    let boots = net.addrs()[..1].to_vec();
    let a = w.add_node(NodeCfg::new([9, 9, 9, 9], 7000).bootstrap(&boots).id(own));
    let pump = |w: &mut World, net: &mut EpNet, ev: &Event| {
        if let Event::EndpointRecv { ep, dgram } = ev {
            net.handle(w, *ep, dgram);
        }
    };
    let hz = w.now + 3 * SEC;
    w.run_until(hz, |w, ev| {
        pump(w, &mut net, ev);
        false
    });
    let target = ids[0];
    let mut scale = 0f64;
    let mut problems: Vec<(String, String)> = vec![];
    for (step, op) in ops.iter().enumerate() {
        let call = match op {
            0 => w.call_find_node(a, target.into()),
            1 => w.call_get_closest_nodes(a, target.into()),
            2 => w.call_get_peers(a, target.into()),
            _ => w.call_get_signed_peers(a, target.into()),
        };
        let hz = w.now + 60 * SEC;
        w.run_until(hz, |w, ev| {
            pump(w, &mut net, ev);
            w.result(call).is_some()
        });
        w.run_for(SEC);
        let snap = w.snapshot(a);
        for t in [&snap.core.routing_table, &snap.core.signed_peers_routing_table] {
            for (name, x) in [("dht_size_estimates_sum", t.dht_size_estimates_sum), ("responders_size_estimates_sum", t.responders_size_estimates_sum)] {
                if !x.is_finite() {
                    problems.push((format!("counter-not-finite/{name}"), format!("after step {}: {name} = {x}", step + 1)));
                }
            }
        }
        for (k, d) in stats_problems(&snap, &mut scale) {
            problems.push((k, format!("after step {}: {d}", step + 1)));
        }
        if !problems.is_empty() {
            break;
        }
    }
    out.add("executions", 1);
    out.add("transitions", w.steps);
    out.add("target_is_a_peer_histories", 1);
    let names: Vec<&str> = ops.iter().map(|o| ["find_node", "get_closest_nodes", "get_peers", "get_signed_peers"][*o]).collect();
    let mut seen = std::collections::BTreeSet::new();
    for (k, d) in problems {
        let key = format!("stats/{k}/target-is-a-peer-id/{m}-peer-network");
        if seen.insert(key.clone()) {
            out.violation(key, format!("network of {m} peer(s), lookups {names:?} of the id of a peer: {d}"), json!({"part": "peer-target", "m": m, "ops": ops}));
        }
    }
}

/// 3 virtual hours of refreshes on a real node, stats checked at every 5-minute boundary.
fn long_run(out: &mut Partial) {
    let mut w = World::new(Chooser::default_run());
    let own: Id20 = [0x21; 20];
    let ids = crate::epnet::ranked_ids(&own, 4);
    let mut net = EpNet::new(&mut w, &ids);
    let boots = net.addrs()[..1].to_vec();
    let a = w.add_node(NodeCfg::new([9, 9, 9, 9], 7000).bootstrap(&boots).id(own).server());
    let start = w.now;
    let mut problems = vec![];
    let mut scale = 0f64;
    for k in 1..=36u64 {
        let hz = start + k * 5 * MIN + 3 * SEC;
        w.run_until(hz, |w, ev| {
            if let Event::EndpointRecv { ep, dgram } = ev {
                net.handle(w, *ep, dgram);
            }
            false
        });
        let snap = w.snapshot(a);
        for (key, d) in stats_problems(&snap, &mut scale) {
            problems.push((key, format!("minute {}: {d}", k * 5)));
        }
        // three seconds after every maintenance boundary the refresh lookup (answered within
        // milliseconds here) is over: no lookup pending, nothing unexpired in flight
        // (where exactly the node's own maintenance rounds fall relative to this sample drifts
        // with its poll interval: a sample that lands in the middle of a round is retried
        // every second for ten more seconds; only a node that is busy throughout is reported)
        let mut quiet = snap.core.iterative_queries.is_empty() && snap.socket.inflight_unexpired == 0;
        let mut last = (snap.core.iterative_queries.len(), snap.socket.inflight_unexpired);
        let mut extra = 0;
        while !quiet && extra < 10 {
            extra += 1;
            w.run_until(hz + extra * SEC, |w, ev| {
                if let Event::EndpointRecv { ep, dgram } = ev {
                    net.handle(w, *ep, dgram);
                }
                false
            });
            let s2 = w.snapshot(a);
            last = (s2.core.iterative_queries.len(), s2.socket.inflight_unexpired);
            quiet = last.0 == 0 && last.1 == 0;
        }
        if !quiet {
            problems.push(("never-quiet".into(), format!("minute {}: {} lookups pending and {} unexpired requests in flight at every one of eleven samples a second apart after the maintenance boundary, with every peer answering within 10 ms", k * 5, last.0, last.1)));
        }
        if !problems.is_empty() {
            break;
        }
    }
    out.add("executions", 1);
    out.add("transitions", w.steps);
    if let Some((k, d)) = problems.into_iter().next() {
        out.violation(format!("stats/{k}/periodic-refresh"), format!("server node refreshing its table every 15 minutes: {d}"), json!({"part": "long"}));
    } else {
        out.add("consistent_histories", 1);
    }
}

/// A node built in the default (adaptive) mode with store capacities (peers 2x1, values 2, items
/// 1) turns into a server at its first refresh; afterwards three writers fill its stores past
/// those capacities. The capacities in force are the configured ones, before and after the switch.
fn adaptive_caps(out: &mut Partial) {
    let mut w = World::new(Chooser::default_run());
    let own: Id20 = [0x21; 20];
    let ids = crate::epnet::ranked_ids(&own, 4);
    let mut net = EpNet::new(&mut w, &ids);
    let boots = net.addrs();
    let mut cfg = NodeCfg::new([93, 184, 216, 34], 7000).bootstrap(&boots).id(own);
    cfg.server_settings = Some(dht::ServerSettings { max_info_hashes: 2, max_peers_per_info_hash: 1, max_immutable_values: 2, max_mutable_values: 1, ..Default::default() });
    let a = w.add_node(cfg);
    let a_addr = w.node_addr(a);
    let start = w.now;
    let mut problems: Vec<(String, String)> = vec![];
    let caps = |s: &ActorSnapshot| (s.core.server.peers_cap, s.core.server.immutable_cap, s.core.server.mutable_cap);
    let want = ((2usize, 1usize), 2usize, 1usize);
    let mut token: Option<Vec<u8>> = None;
    let mut sent_writes = false;
    let writer = net.eps[0].addr;
    let writer_id = net.eps[0].id;
    let values: [&[u8]; 3] = [b"caps value one", b"caps value two", b"caps value three"];
    let mut became_server_at = None;
    for minute in 1..=20u64 {
        let hz = start + minute * MIN;
        w.run_until(hz, |w, ev| {
            if let Event::EndpointRecv { ep, dgram } = ev {
                if let Some(k) = krpc::Krpc::parse(&dgram.bytes) {
                    if k.is_response() {
                        if let Some(t) = k.res_bytes("token") {
                            token = Some(t.to_vec());
                        }
                        return false;
                    }
                }
                net.handle(w, *ep, dgram);
            }
            false
        });
        let s = w.snapshot(a);
        if s.core.server_mode && became_server_at.is_none() {
            became_server_at = Some(minute);
        }
        if caps(&s) != want {
            problems.push(("capacities-not-the-configured-ones".into(), format!("minute {minute} (server mode: {}): capacities (peers, values, items) in force are {:?}, configured {:?}", s.core.server_mode, caps(&s), want)));
            break;
        }
        if minute == 17 {
            w.send_raw(writer, a_addr, krpc::q_get(&[0, 0, 1, 1], &writer_id, &krpc::immutable_target(values[0]), None));
        }
        if minute == 18 && !sent_writes {
            sent_writes = true;
            if let Some(t) = &token {
                for (i, v) in values.iter().enumerate() {
                    w.send_raw(writer, a_addr, krpc::q_put_immutable(&[0, 0, 2, i as u8], &writer_id, &krpc::immutable_target(v), t, v));
                }
            }
        }
    }
    let s = w.snapshot(a);
    if !problems.is_empty() {
        // (the timeline was cut short at the first problem)
    } else if became_server_at.is_none() {
        problems.push(("part-setup/adaptive-node-did-not-become-a-server".into(), "the adaptive node on a reachable public address is not a server after 20 minutes".into()));
    } else if token.is_none() {
        problems.push(("part-setup/no-token".into(), "the node (a server by now) issued no token to a get at minute 17".into()));
    } else {
        out.add("adaptive_node_stores_filled", 1);
        if s.core.server.immutable.len() > 2 {
            problems.push(("store-over-capacity/immutable".into(), format!("three values were written to a node configured to hold 2: it holds {}", s.core.server.immutable.len())));
        }
        if s.core.server.immutable.is_empty() {
            problems.push(("part-setup/nothing-stored".into(), "three valid writes with a fresh token left the store empty".into()));
        }
    }
    out.add("executions", 1);
    out.add("transitions", w.steps);
    for (k, d) in problems {
        out.violation(format!("stores/{k}/adaptive-node"), format!("adaptive node that turns into a server at minute {became_server_at:?}: {d}"), json!({"part": "adaptive-caps"}));
    }
}

/// 1003 distinct lookup targets (plus repeats) roll the 1000-entry lookup cache.
fn cache_roll(out: &mut Partial) {
    let mut w = World::new(Chooser::default_run());
    w.keep_log = false;
    let own: Id20 = [0x21; 20];
    let ids = crate::epnet::ranked_ids(&own, 3);
    let mut net = EpNet::new(&mut w, &ids);
    let boots = net.addrs()[..1].to_vec();
    // a private address: the node's id counts as BEP42-secure, so it never re-keys (a re-key
    // would add lookups of the new id to the cache behind the reference's back)
    let a = w.add_node(NodeCfg::new([10, 9, 9, 9], 7000).bootstrap(&boots).id(own));
    let pump = |w: &mut World, net: &mut EpNet, ev: &Event| {
        if let Event::EndpointRecv { ep, dgram } = ev {
            net.handle(w, *ep, dgram);
        }
    };
    let hz = w.now + 3 * SEC;
    w.run_until(hz, |w, ev| {
        pump(w, &mut net, ev);
        false
    });
    let target = |i: usize| -> Id20 {
        let mut t = [0xCCu8; 20];
        t[0] = (i % 256) as u8;
        t[1] = (i / 256) as u8;
        t
    };
    // exact LRU reference of looked-up targets, most recent first (the bootstrap lookup of the
    // own id is in the cache already)
    let mut lru: Vec<Id20> = vec![own];
    let mut scale = 0f64;
    let mut repeats_when_full = 0usize;
    let mut problems: Vec<(String, String)> = vec![];
    let total = 1003usize;
    let mut sequence: Vec<usize> = (0..total).collect();
    // repeats: touch a few early targets again in the middle and after the roll
    sequence.insert(500, 3);
    sequence.insert(700, 250);
    sequence.push(1);
    sequence.push(900);
    // a write that REUSES a cached lookup (announce_peer on target 2, looked up with get_peers
    // about a minute earlier) just before the cache fills up: using an entry is a use
    const REUSE: usize = usize::MAX;
    sequence.insert(990, REUSE);
    for (n, i) in sequence.iter().enumerate() {
        let reuse = *i == REUSE;
        let t = target(if reuse { 2 } else { *i });
        let call = if reuse {
            w.call_announce_peer(a, t.into(), Some(4040))
        } else if n % 3 == 0 {
            w.call_find_node(a, t.into())
        } else {
            w.call_get_peers(a, t.into())
        };
        let hz = w.now + 60 * SEC;
        w.run_until(hz, |w, ev| {
            pump(w, &mut net, ev);
            w.result(call).is_some()
        });
        if let Some(p) = lru.iter().position(|x| *x == t) {
            lru.remove(p);
            if lru.len() + 1 >= 1000 {
                repeats_when_full += 1;
            }
        }
        lru.insert(0, t);
        lru.truncate(1000);
        if n % 50 == 49 || n + 8 >= sequence.len() {
            w.run_for(SEC);
            let snap = w.snapshot(a);
            let got: Vec<Id20> = snap.core.cached_iterative_queries.iter().map(|c| *c.target.as_bytes()).collect();
            if got.len() > 1000 {
                problems.push(("lookup-cache-exceeds-capacity".into(), format!("after {} lookups the cache holds {} entries", n + 1, got.len())));
            } else if got.len() + repeats_when_full >= lru.len() && got[..] == lru[..got.len()] {
                // the most recently used targets, possibly short by one entry per repeated
                // lookup made while the cache was full (an early eviction of the least
                // recently used entry is not forbidden by the statement)
            } else if got != lru {
                let same_set = {
                    let (mut a, mut b) = (got.clone(), lru.clone());
                    a.sort();
                    b.sort();
                    a == b
                };
                problems.push((
                    if same_set { "lookup-cache-lru-order".into() } else { "lookup-cache-lru-contents".into() },
                    format!("after {} lookups the cache ({} entries) differs from an exact LRU of the looked-up targets ({} entries)", n + 1, got.len(), lru.len()),
                ));
            }
            for (k, d) in stats_problems(&snap, &mut scale) {
                problems.push((k, format!("after {} lookups: {d}", n + 1)));
            }
            if !problems.is_empty() {
                break;
            }
        }
    }
    out.add("executions", 1);
    out.add("transitions", w.steps);
    out.add("cache_roll_lookups", sequence.len() as u64);
    let mut seen = std::collections::BTreeSet::new();
    for (k, d) in problems {
        if seen.insert(k.clone()) {
            out.violation(format!("cache-roll/{k}"), d, json!({"part": "roll"}));
        }
    }
    if seen.is_empty() {
        out.add("consistent_histories", 1);
    }
}

fn run(tier: Tier, shard: usize, nshards: usize, _seed: u64) -> Partial {
    let mut out = Partial::default();
    let mut unit = 0usize;
    let mut mine = || {
        unit += 1;
        unit % nshards == shard
    };
    // (a)
    part_a(tier, &mut mine, &mut out);
    // (b) stores: one shard runs the BFS (it is multi-threaded itself)
    if shard == 0 {
        let p = super::srvchecks::run_c20_stores(tier);
        out.merge(p);
    }
    if shard == 1 % nshards {
        super::guard_dead_actor(&mut out, "cache-roll", json!({"part": "roll"}), |out| cache_roll(out));
    }
    if shard == 2 % nshards {
        super::guard_dead_actor(&mut out, "periodic-refresh", json!({"part": "long"}), |out| long_run(out));
    }
    if shard == 3 % nshards {
        super::guard_dead_actor(&mut out, "adaptive-caps", json!({"part": "adaptive-caps"}), |out| adaptive_caps(out));
    }
    // (c) histories
    let d = depth(tier);
    let alphabet: Vec<(usize, usize)> = (0..5).flat_map(|o| (0..3).map(move |t| (o, t))).collect();
    let total = alphabet.len().pow(d as u32);
    for c in 0..total {
        if !mine() {
            continue;
        }
        let h: Vec<(usize, usize)> = (0..d).map(|i| alphabet[(c / alphabet.len().pow(i as u32)) % alphabet.len()]).collect();
        super::guard_dead_actor(&mut out, "stats-history", json!({"part": "c", "history": h.iter().map(|(o, t)| vec![*o, *t]).collect::<Vec<_>>()}), |out| history(&h, out));
    }
    // (c') a lookup nobody answers (candidates, no responder) looked up twice - a retry always
    // looks up again, the first lookup left no token - with one other step before, between or after
    for x in &alphabet {
        for o1 in 0..5usize {
            for o2 in 0..5usize {
                for shape in 0..3 {
                    if !mine() {
                        continue;
                    }
                    let h = match shape {
                        0 => vec![*x, (o1, 3), (o2, 3)],
                        1 => vec![(o1, 3), *x, (o2, 3)],
                        _ => vec![(o1, 3), (o2, 3), *x],
                    };
                    out.add("histories_with_an_unanswered_lookup", 1);
                    super::guard_dead_actor(&mut out, "stats-history", json!({"part": "c", "history": h.iter().map(|(o, t)| vec![*o, *t]).collect::<Vec<_>>()}), |out| history(&h, out));
                }
            }
        }
    }
    // (c+) the same target again after the tokens of its cached lookup have expired
    for t in 0..3usize {
        for o1 in 0..5usize {
            for o2 in 0..5usize {
                for third in [None, Some(1usize), Some(4)] {
                    if !mine() {
                        continue;
                    }
                    let mut h = vec![(o1, t), (5, 0), (o2, t)];
                    if let Some(o3) = third {
                        h.push((o3, (t + 1) % 3));
                    }
                    out.add("histories_across_token_expiry", 1);
                    super::guard_dead_actor(&mut out, "stats-history", json!({"part": "c", "history": h.iter().map(|(o, t)| vec![*o, *t]).collect::<Vec<_>>()}), |out| history(&h, out));
                }
            }
        }
    }
    // (c'') lookups whose target is the id of a peer, in networks of one and two peers
    for m in [1usize, 2] {
        for c in 0..4usize.pow(3) {
            if !mine() {
                continue;
            }
            let ops: Vec<usize> = (0..3).map(|i| (c / 4usize.pow(i as u32)) % 4).collect();
            super::guard_dead_actor(&mut out, "peer-target", json!({"part": "peer-target", "m": m, "ops": ops}), |out| target_is_a_peer(m, &ops, out));
        }
    }
    out.witness("the adaptive node's stores were filled after its switch", out.count("adaptive_node_stores_filled") > 0 || shard != 3 % nshards);
    out.witness("quiescent snapshots were taken", out.count("quiescent_snapshots") > 0);
    out.witness("consistent histories exist", out.count("consistent_histories") > 0 || shard > 2);
    out.sample(json!({"part": "c", "history": ["find_node(own)", "get_peers(t1)", "find_node(own)"]}));
    out.sample(json!({"part": "roll", "lookups": 1007, "distinct_targets": 1003}));
    out
}

fn replay(v: &Value) -> Result<Option<Violation>, String> {
    let mut out = Partial::default();
    match v.get("part").and_then(|p| p.as_str()) {
        Some("a") => {
            let g = |k: &str| v.get(k).and_then(|x| x.as_u64());
            let sc = Script { first: g("first").ok_or("first")? as usize, second: g("second").map(|x| x as usize), at_event: g("at_event").map(|x| x as u32), after: g("after_ms").unwrap_or(0) * MS, real_peers: false, sync: false };
            let choices: Vec<u32> = v.get("choices").and_then(|c| c.as_array()).map(|a| a.iter().filter_map(|x| x.as_u64().map(|x| x as u32)).collect()).unwrap_or_default();
            let (_, o) = c06::scenario(Chooser::new(choices.clone()), &sc, !choices.is_empty(), false);
            for (k, d) in o.leaks {
                out.violation(format!("leak/{k}"), d, v.clone());
            }
        }
        Some("c") => {
            let h: Vec<(usize, usize)> = v.get("history").and_then(|h| h.as_array()).ok_or("history")?.iter().filter_map(|p| Some((p.get(0)?.as_u64()? as usize, p.get(1)?.as_u64()? as usize))).collect();
            history(&h, &mut out);
        }
        Some("peer-target") => {
            let ops: Vec<usize> = v.get("ops").and_then(|o| o.as_array()).ok_or("ops")?.iter().filter_map(|x| x.as_u64().map(|x| x as usize)).collect();
            target_is_a_peer(v.get("m").and_then(|m| m.as_u64()).unwrap_or(1) as usize, &ops, &mut out)
        }
        Some("long") => long_run(&mut out),
        Some("adaptive-caps") => adaptive_caps(&mut out),
        Some("roll") => cache_roll(&mut out),
        _ => {
            // store BFS paths
            let name = v.get("cfg").and_then(|c| c.as_str()).ok_or("cfg")?;
            let path: Vec<u16> = v.get("path").and_then(|p| p.as_array()).ok_or("path")?.iter().filter_map(|x| x.as_u64().map(|x| x as u16)).collect();
            let cfg = super::srvchecks::find_cfg(name).ok_or("unknown cfg")?;
            out = crate::srv::replay_path(cfg, &path);
        }
    }
    let _ = SocketAddrV4::new(std::net::Ipv4Addr::LOCALHOST, 0);
    Ok(out.violations.into_iter().next())
}
