//! C13 - joining works: bootstrap populates tables and connects the network.
//! Engine E1 with real nodes only: every join order x start timing x bootstrap-list shape x IP
//! plan for 1..4 servers, plus fixed larger shapes.

use std::collections::BTreeSet;
use std::net::SocketAddrV4;

use serde_json::{json, Value};

use super::CheckDef;
use crate::explore::Chooser;
use crate::krpc::{Id20, Krpc};
use crate::report::{CheckInfo, Partial, Tier, Violation};
use crate::sim::*;

pub fn def() -> CheckDef {
    CheckDef {
        id: "C13",
        info,
        shards: |_| super::cores(),
        run,
        replay,
    }
}

fn info(tier: Tier) -> CheckInfo {
    let mut ci = CheckInfo {
        id: "C13",
        level: "model_checking",
        rule: format!(
            "Tier {}: networks of S in 1..{} real server nodes (real actors, real sockets layer, simulated UDP): every assignment of 4 id classes to join positions (all permutations), start timing in {{sequential after the predecessor's bootstrapped(), all simultaneous, each joiner started after k = 1..3 network events of its predecessor's bootstrap}}, bootstrap list in {{first node, first node + a dead address, two live nodes, only dead addresses}}, IP plan in {{public, private}}; plus fixed shapes S in {} sequential and simultaneous. Oracle: every joiner with a live bootstrap address gets bootstrapped() = true and a non-empty table; the first node ends up knowing every node that bootstrapped from it; at quiescence the knows-graph of the routing tables is strongly connected; a find_node and a get started on every node send a request to every server; a node given only dead addresses gets bootstrapped() = false (it returns). Slow links: S in {{2,3}} with every datagram taking 300/350/600 ms (round trip above the initial 500 ms request timeout): bootstrapped() returns, and two minutes later every joiner has a non-empty table, bootstrapped() = true and is known to the first node.",
            tier.name(),
            if tier.is_quick() { 3 } else { 4 },
            "{8, 20}"
        ),
        assumptions: vec!["loss-free network, 10 ms latency (slow-link part: 300..600 ms)".into(), "above 20 joiners only the connectivity verdict applies (full buckets are C12's)".into()],
    };
    ci.rule.push_str(" Added: Info accessors and to_bootstrap() compared with every node's state right after the joins and at the end; the library's own blocking Testnet::new(n) run inside the simulated world and judged the same way.");
    ci
}

const TIMINGS: [&str; 5] = ["sequential", "simultaneous", "after-1-event", "after-2-events", "after-3-events"];
const LISTS: [&str; 4] = ["first-node", "first-node+dead", "two-live", "only-dead"];

#[derive(Clone, Debug)]
struct Cfg {
    s: usize,
    perm: usize,
    timing: usize,
    list: usize,
    public: bool,
}

fn id_class(i: usize, salt: u8) -> Id20 {
    // four prefix classes: far apart / sharing a long prefix
    let mut id = [salt; 20];
    id[0] = [0x00, 0x80, 0x81, 0xC0][i % 4] ^ ((i / 4) as u8);
    id[1] = (i * 37) as u8;
    id
}

fn permutation(n: usize, mut k: usize) -> Vec<usize> {
    let mut items: Vec<usize> = (0..n).collect();
    let mut out = vec![];
    for i in (1..=n).rev() {
        out.push(items.remove(k % i));
        k /= i;
    }
    out
}

fn node_ip(i: usize, public: bool) -> [u8; 4] {
    if public {
        [31 + (i % 200) as u8, 40 + (i / 200) as u8, 50, 60]
    } else {
        [10, 0, (i / 200) as u8, (i % 200) as u8 + 1]
    }
}

struct Out {
    problems: Vec<(String, String)>,
    steps: u64,
    digests: Vec<u64>,
    rekeyed: usize,
    /// nodes whose signed-peers table held an entry the main table lacked when the API view was compared
    signed_only: usize,
}

fn table_ids(w: &World, n: usize) -> BTreeSet<Id20> {
    let s = w.snapshot(n);
    s.core.routing_table.buckets.iter().flat_map(|(_, b)| b.iter().map(|n| *n.id.as_bytes())).collect()
}

/// Whether the bucket of `first`'s main table that `joiner` belongs to is full (20 entries): the
/// first node cannot be expected to hold a joiner it has no room for ("capacity permitting").
fn no_room_for(w: &World, first: usize, joiner: &Id20) -> bool {
    let snap = w.snapshot(first);
    let own = *snap.core.routing_table.id.as_bytes();
    let x = crate::krpc::xor(&own, joiner);
    let lz: u32 = x.iter().position(|b| *b != 0).map(|i| i as u32 * 8 + x[i].leading_zeros()).unwrap_or(160);
    let d = (160 - lz) as u8;
    snap.core.routing_table.buckets.iter().any(|(k, b)| *k == d && b.len() >= 20)
}

/// Addresses a node knows: the entries of both of its routing tables.
fn known_addrs(w: &World, n: usize) -> BTreeSet<SocketAddrV4> {
    let snap = w.snapshot(n);
    snap.core.routing_table.buckets.iter().chain(snap.core.signed_peers_routing_table.buckets.iter()).flat_map(|(_, b)| b.iter().map(|n| n.address)).collect()
}

fn own_id(w: &World, n: usize) -> Id20 {
    *w.snapshot(n).core.routing_table.id.as_bytes()
}

fn scenario(cfg: &Cfg, track: bool) -> Out {
    let mut w = World::new(Chooser::default_run());
    w.track_states = track;
    let s = cfg.s;
    let perm = permutation(s, cfg.perm);
    let dead = SocketAddrV4::new(std::net::Ipv4Addr::new(66, 66, 66, 66), 6666);
    let dead2 = SocketAddrV4::new(std::net::Ipv4Addr::new(66, 66, 66, 67), 6667);
    let mut nodes: Vec<usize> = vec![];
    let mut addrs: Vec<SocketAddrV4> = vec![];
    let mut boot_calls: Vec<(usize, usize)> = vec![];
    let mut problems: Vec<(String, String)> = vec![];
    let mut signed_only = 0usize;
    let mut has_live_boot: Vec<bool> = vec![];
    for j in 0..s {
        let boots: Vec<SocketAddrV4> = if j == 0 {
            vec![]
        } else {
            match cfg.list {
                0 => vec![addrs[0]],
                1 => vec![dead, addrs[0]],
                2 => {
                    if j >= 2 {
                        vec![addrs[0], addrs[1]]
                    } else {
                        vec![addrs[0]]
                    }
                }
                _ => vec![dead, dead2],
            }
        };
        has_live_boot.push(j > 0 && cfg.list != 3);
        let mut ncfg = NodeCfg::new(node_ip(j, cfg.public), 6881).server().bootstrap(&boots).id(id_class(perm[j], 0x3E));
        // every other node spells its bootstrap list with no_bootstrap() + extra_bootstrap()
        ncfg.via_extra_bootstrap = (j + cfg.perm + cfg.timing) % 2 == 1;
        // every third node's list starts with entries that are not addresses at all (a port out
        // of range, no port): the live server listed after them still counts
        if (j + cfg.perm) % 3 == 2 {
            ncfg.bootstrap_junk = vec![format!("{}:99999", dead.ip()), dead.ip().to_string()];
        }
        let n = w.add_node(ncfg);
        // every fourth node has sent more than 65536 requests in an earlier life of its socket
        // (its transaction-id counter is past the two-byte range before its first request)
        if (j + cfg.perm) % 4 == 3 {
            w.set_next_tid(n, 0x1_0000 + 4464 * j as u32);
        }
        nodes.push(n);
        addrs.push(w.node_addr(n));
        let c = w.call_bootstrapped(n);
        boot_calls.push((n, c));
        match cfg.timing {
            0 => {
                let h = w.now + 60 * SEC;
                w.run_calls(&[c], h);
            }
            1 => {}
            k => {
                // let k-1.. network events of this joiner's bootstrap happen before the next starts
                let want = k - 1;
                let mut seen = 0;
                let h = w.now + 10 * SEC;
                w.run_until(h, |_, ev| {
                    if matches!(ev, Event::Arrived { .. }) {
                        seen += 1;
                    }
                    seen >= want
                });
            }
        }
    }
    let ids: Vec<usize> = boot_calls.iter().map(|(_, c)| *c).collect();
    let h = w.now + 60 * SEC;
    let all_returned = w.run_calls(&ids, h);
    if !all_returned {
        for (n, c) in &boot_calls {
            if w.result(*c).is_none() {
                problems.push(("bootstrapped-never-returns".into(), format!("node {n}: bootstrapped() did not return within 60 s")));
            }
        }
    }
    // quiescence
    w.run_for(5 * SEC);
    // right after the joins (entries that only the signed-peers table holds exist now): what
    // Info / to_bootstrap report must be the node's state
    for j in 0..nodes.len() {
        let snap = w.snapshot(nodes[j]);
        let main: BTreeSet<SocketAddrV4> = snap.core.routing_table.buckets.iter().flat_map(|(_, b)| b.iter().map(|n| n.address)).collect();
        if snap.core.signed_peers_routing_table.buckets.iter().flat_map(|(_, b)| b.iter()).any(|n| !main.contains(&n.address)) {
            signed_only += 1;
        }
        for (k, d) in w.api_view_mismatches(nodes[j]) {
            problems.push((k, format!("node #{j}, right after the joins: {d}")));
        }
    }
    let mut rekeyed = 0;
    for (j, (n, c)) in boot_calls.iter().enumerate() {
        let res = matches!(w.result(*c), Some(CallResult::Bool(true)));
        let table = table_ids(&w, *n);
        if j == 0 {
            continue;
        }
        if has_live_boot[j] {
            if !res {
                problems.push((format!("joiner-not-bootstrapped/{}", LISTS[cfg.list]), format!("joiner #{j} with a live bootstrap address got bootstrapped() = {:?}", w.result(*c))));
            }
            if table.is_empty() {
                problems.push((format!("joiner-table-empty/{}", LISTS[cfg.list]), format!("joiner #{j} ended its bootstrap with an empty routing table")));
            }
        } else if res {
            problems.push(("bootstrapped-true-with-dead-list".into(), format!("joiner #{j} has only dead bootstrap addresses but bootstrapped() = true")));
        }
        if own_id(&w, *n) != id_class(perm[j], 0x3E) {
            rekeyed += 1;
        }
    }
    if cfg.list != 3 && s > 1 {
        // the first node knows everybody that bootstrapped from it
        let t0 = table_ids(&w, nodes[0]);
        for j in 1..s {
            let idj = own_id(&w, nodes[j]);
            // a joiner that re-keyed after confirming its address is known under either id
            if !t0.contains(&idj) && !t0.contains(&id_class(perm[j], 0x3E)) && s <= 21 && !no_room_for(&w, nodes[0], &idj) {
                problems.push((format!("first-node-does-not-know-joiner/{}", TIMINGS[cfg.timing]), format!("the first node's table lacks joiner #{j}")));
            }
        }
        // strongly connected knows-graph
        // an edge i -> k exists when one of i's entries points at k's address (a node that
        // re-keyed to a BEP42-secure id after confirming its address is still reached through
        // the entry made under its earlier id)
        let adj: Vec<Vec<usize>> = nodes
            .iter()
            .map(|n| {
                // both routing tables count (a server with a bootstrap list records the nodes
                // that bootstrap through it in its signed-peers table)
                let t = known_addrs(&w, *n);
                (0..s).filter(|k| t.contains(&addrs[*k])).collect()
            })
            .collect();
        let reach = |from: usize, adj: &Vec<Vec<usize>>| -> usize {
            let mut seen = vec![false; s];
            let mut stack = vec![from];
            seen[from] = true;
            while let Some(x) = stack.pop() {
                for y in &adj[x] {
                    if !seen[*y] {
                        seen[*y] = true;
                        stack.push(*y);
                    }
                }
            }
            seen.iter().filter(|b| **b).count()
        };
        let radj: Vec<Vec<usize>> = (0..s).map(|k| (0..s).filter(|i| adj[*i].contains(&k)).collect()).collect();
        if reach(0, &adj) != s || reach(0, &radj) != s {
            problems.push((format!("knows-graph-not-strongly-connected/{}", TIMINGS[cfg.timing]), format!("adjacency {adj:?}")));
        }
        // a lookup from every node asks every server (stated for up to 20 servers; above that only
        // the connectivity verdict applies)
        for (j, n) in nodes.iter().enumerate().filter(|_| s <= 20) {
            for kind in 0..2 {
                let target: Id20 = [0x99 ^ (j as u8) ^ (kind as u8 * 0x40); 20];
                let log_start = w.log.len();
                let c = if kind == 0 { w.call_find_node(*n, target.into()) } else { w.call_get_immutable(*n, target.into()) };
                let h = w.now + 60 * SEC;
                w.run_calls(&[c], h);
                let mut asked: BTreeSet<SocketAddrV4> = BTreeSet::new();
                for e in &w.log[log_start..] {
                    if let LogEntry::Sent { dgram, .. } = e {
                        if dgram.from_node == Some(*n) {
                            if let Some(k) = Krpc::parse(&dgram.bytes) {
                                if k.is_query() && k.query_target() == Some(target) {
                                    asked.insert(dgram.to);
                                }
                            }
                        }
                    }
                }
                if j == 0 && kind == 0 {
                    // the first node has now made requests of its own, received address votes
                    // and (public plan) confirmed its address and re-keyed: it must not have
                    // forgotten the nodes that bootstrapped from it
                    w.run_for(SEC);
                    let snap = w.snapshot(nodes[0]);
                    let t: BTreeSet<SocketAddrV4> = snap.core.routing_table.buckets.iter().flat_map(|(_, b)| b.iter().map(|n| n.address)).collect();
                    if std::env::var_os("VERIF_DEBUG").is_some() {
                        eprintln!("DEBUG first node after own lookups: firewalled={} public_address={:?} id={:?} table={:?}", snap.core.firewalled, snap.core.public_address, snap.core.routing_table.id, t);
                    }
                    if let Some(missing) = (1..s).filter(|_| s <= 21).find(|k| !t.contains(&addrs[*k]) && !no_room_for(&w, nodes[0], &own_id(&w, nodes[*k]))) {
                        problems.push((
                            format!("first-node-forgot-joiner/{}", TIMINGS[cfg.timing]),
                            format!("after its own lookups (address confirmed: firewalled={}) the first node's table no longer holds joiner #{missing} (table size {})", snap.core.firewalled, t.len()),
                        ));
                    }
                }
                for (k, a) in addrs.iter().enumerate() {
                    if k != j && !asked.contains(a) {
                        problems.push((
                            format!("lookup-misses-a-server/{}/{}", if kind == 0 { "find_node" } else { "get" }, TIMINGS[cfg.timing]),
                            format!(
                                "a {} started on node #{j} did not ask server #{k} (asked {} addresses; table sizes: asker {}, first node {}, missed server {}; who knows the missed server: {:?}; asked but not a server: {:?}; asked self: {})",
                                if kind == 0 { "find_node" } else { "get" },
                                asked.len(),
                                table_ids(&w, *n).len(),
                                table_ids(&w, nodes[0]).len(),
                                table_ids(&w, nodes[k]).len(),
                                (0..s).filter(|i| w.snapshot(nodes[*i]).core.routing_table.buckets.iter().any(|(_, b)| b.iter().any(|x| x.address == *a))).collect::<Vec<_>>(),
                                asked.iter().filter(|x| !addrs.contains(x)).collect::<Vec<_>>(),
                                asked.contains(&addrs[j])
                            ),
                        ));
                    }
                }
            }
        }
    }
    if cfg.list != 3 && s > 1 {
        // second look after the lookups (the first node has now made requests of its own, got
        // address votes and possibly re-keyed): it must still know its joiners
        w.run_for(5 * SEC);
        let snap = w.snapshot(nodes[0]);
        let t: BTreeSet<SocketAddrV4> = snap.core.routing_table.buckets.iter().flat_map(|(_, b)| b.iter().map(|n| n.address)).collect();
        for j in 1..s {
            // (with more than 20 joiners a bucket may have been full when a joiner arrived and be
            // laid out differently now, after a re-key: only the connectivity verdict applies)
            if s <= 21 && !t.contains(&addrs[j]) && !no_room_for(&w, nodes[0], &own_id(&w, nodes[j])) {
                problems.push((format!("first-node-forgot-joiner/{}", TIMINGS[cfg.timing]), format!("after the lookups the first node's table no longer holds joiner #{j} (table size {})", t.len())));
                break;
            }
        }
    }
    // Info / to_bootstrap of every node (what a user sees) must be the node's state
    for j in 0..nodes.len() {
        for (k, d) in w.api_view_mismatches(nodes[j]) {
            problems.push((k, format!("node #{j}: {d}")));
        }
    }
    if let Some(dead) = w.any_actor_panicked() {
        problems.push(("actor-died".into(), format!("an actor thread died: node {dead} {}", w.death_reason(dead))));
    }
    Out { problems, steps: w.steps, digests: w.state_digests.iter().copied().collect(), rekeyed, signed_only }
}

/// Slow links: every datagram takes `one_way_ms`, so the round trip exceeds the initial 500 ms
/// request timeout. A live but slow server is still a live server: the joiner's first attempt
/// may time out (bootstrapped() may say false, it must return), but it keeps retrying, its
/// timeout adapts to the replies it sees arriving late, and it must end up with a non-empty
/// table and bootstrapped() = true, known to the first node.
fn slow_links(s: usize, public: bool, one_way_ms: u64, out: &mut Partial) {
    let mut w = World::new(Chooser::default_run());
    w.default_latency = one_way_ms * MS;
    let mut nodes: Vec<usize> = vec![];
    let mut addrs: Vec<SocketAddrV4> = vec![];
    let mut problems: Vec<(String, String)> = vec![];
    for j in 0..s {
        // five and more nodes: a joiner's bootstrap list names every earlier server, so its
        // bootstrap attempts are bursts of 4 / 8 requests - exactly the capacities its in-flight
        // table grows through (the table reclaims entries only when it is exactly full)
        let boots: Vec<SocketAddrV4> = if j == 0 { vec![] } else if s >= 5 { addrs[..j].to_vec() } else { vec![addrs[0]] };
        let n = w.add_node(NodeCfg::new(node_ip(j, public), 6881).server().bootstrap(&boots).id(id_class(j, 0x3E)));
        nodes.push(n);
        addrs.push(w.node_addr(n));
        let c = w.call_bootstrapped(n);
        let h = w.now + 60 * SEC;
        if !w.run_calls(&[c], h) {
            problems.push(("bootstrapped-never-returns".into(), format!("node #{j}: bootstrapped() did not return within 60 s")));
        }
    }
    w.run_for(120 * SEC);
    for j in 1..s {
        let table = table_ids(&w, nodes[j]);
        if table.is_empty() {
            problems.push(("joiner-table-empty".into(), format!("joiner #{j}: two minutes after starting, its routing table is still empty although its bootstrap server answers every request ({} ms round trip; request timeout now {:?})", 2 * one_way_ms, w.snapshot(nodes[j]).socket.request_timeout)));
        }
        let c = w.call_bootstrapped(nodes[j]);
        let h = w.now + 60 * SEC;
        w.run_calls(&[c], h);
        if !matches!(w.result(c), Some(CallResult::Bool(true))) {
            problems.push(("joiner-not-bootstrapped".into(), format!("joiner #{j}: bootstrapped() = {:?} two minutes after starting", w.result(c))));
        }
        let t0: BTreeSet<SocketAddrV4> = w.snapshot(nodes[0]).core.routing_table.buckets.iter().flat_map(|(_, b)| b.iter().map(|n| n.address)).collect();
        if !t0.contains(&addrs[j]) {
            problems.push(("first-node-does-not-know-joiner".into(), format!("the first node's table lacks joiner #{j}")));
        }
    }
    if let Some(dead) = w.any_actor_panicked() {
        problems.push(("actor-died".into(), format!("an actor thread died: node {dead} {}", w.death_reason(dead))));
    }
    out.add("executions", 1);
    out.add("transitions", w.steps);
    out.add("slow_link_runs", 1);
    if problems.is_empty() {
        out.add("clean_runs", 1);
    }
    out.outcomes.insert(format!("slow-links:s{s}:{one_way_ms}ms:problems{}", problems.len().min(3)));
    let mut seen = BTreeSet::new();
    for (k, d) in problems {
        if seen.insert(k.clone()) {
            out.violation(
                format!("{k}/slow-links/s{s}/{}", if public { "public" } else { "private" }),
                format!("S={s}, every datagram takes {one_way_ms} ms, plan {}: {d}", if public { "public" } else { "private" }),
                json!({"part": "slow-links", "s": s, "public": public, "one_way_ms": one_way_ms}),
            );
        }
    }
}

fn cfg_json(c: &Cfg) -> Value {
    json!({"s": c.s, "perm": c.perm, "timing": c.timing, "list": c.list, "public": c.public})
}

fn record(c: &Cfg, o: &Out, out: &mut Partial) {
    out.add("executions", 1);
    out.add("transitions", o.steps);
    out.digests.extend(o.digests.iter());
    out.add("nodes_rekeyed", o.rekeyed as u64);
    out.add("api_views_with_signed_only_entries", o.signed_only as u64);
    if o.problems.is_empty() {
        out.add("clean_runs", 1);
    }
    out.outcomes.insert(format!("s{}:{}:{}:{}:problems{}", c.s, TIMINGS[c.timing], LISTS[c.list], if c.public { "public" } else { "private" }, o.problems.len().min(3)));
    let mut seen = BTreeSet::new();
    for (k, d) in &o.problems {
        if seen.insert(k.clone()) {
            out.violation(
                format!("{k}/s{}/{}", c.s, if c.public { "public" } else { "private" }),
                format!("S={} join order #{} timing {} list {} plan {}: {d}", c.s, c.perm, TIMINGS[c.timing], LISTS[c.list], if c.public { "public" } else { "private" }),
                cfg_json(c),
            );
        }
    }
}

/// The library's own `Testnet::new(count)` (blocking builder + `bootstrapped()` per node) run
/// inside the simulated world: when it returns every node has joined; afterwards the first node
/// knows everybody, the knows-graph is strongly connected and a lookup from any node asks every
/// other node.
fn testnet(count: usize, out: &mut Partial) {
    let mut w = World::new(Chooser::default_run());
    let mut problems: Vec<(String, String)> = vec![];
    out.add("executions", 1);
    out.add("testnets_built", 1);
    let replay = json!({"part": "testnet", "count": count});
    let (nodes, bootstrap) = match w.add_testnet(count, 7100, 120 * SEC) {
        Ok(x) => x,
        Err(e) => {
            out.violation(format!("testnet/constructor/n{count}"), e, replay);
            return;
        }
    };
    let addrs: Vec<SocketAddrV4> = nodes.iter().map(|n| w.node_addr(*n)).collect();
    if bootstrap != vec![addrs[0].to_string()] {
        problems.push(("testnet/bootstrap-list".into(), format!("Testnet.bootstrap = {bootstrap:?}, the first node listens on {}", addrs[0])));
    }
    // "This will block until all nodes are bootstrapped"
    for (j, n) in nodes.iter().enumerate().skip(1) {
        if table_ids(&w, *n).is_empty() {
            problems.push(("testnet/returned-before-bootstrapped".into(), format!("Testnet::new({count}) returned while node #{j} has an empty routing table")));
            break;
        }
    }
    w.run_for(5 * SEC);
    if count > 1 {
        let t0: BTreeSet<SocketAddrV4> = w.snapshot(nodes[0]).core.routing_table.buckets.iter().flat_map(|(_, b)| b.iter().map(|n| n.address)).collect();
        if let Some(j) = (1..count).find(|j| !t0.contains(&addrs[*j])) {
            problems.push(("testnet/first-node-does-not-know-joiner".into(), format!("the first node's table lacks node #{j} ({} entries)", t0.len())));
        }
        let adj: Vec<Vec<usize>> = nodes
            .iter()
            .map(|n| {
                let t: BTreeSet<SocketAddrV4> = w.snapshot(*n).core.routing_table.buckets.iter().flat_map(|(_, b)| b.iter().map(|n| n.address)).collect();
                (0..count).filter(|k| t.contains(&addrs[*k])).collect()
            })
            .collect();
        let reach = |adj: &Vec<Vec<usize>>| -> usize {
            let mut seen = vec![false; count];
            let mut stack = vec![0usize];
            seen[0] = true;
            while let Some(x) = stack.pop() {
                for y in &adj[x] {
                    if !seen[*y] {
                        seen[*y] = true;
                        stack.push(*y);
                    }
                }
            }
            seen.iter().filter(|b| **b).count()
        };
        let radj: Vec<Vec<usize>> = (0..count).map(|k| (0..count).filter(|i| adj[*i].contains(&k)).collect()).collect();
        if reach(&adj) != count || reach(&radj) != count {
            problems.push(("testnet/knows-graph-not-strongly-connected".into(), format!("adjacency {adj:?}")));
        }
        if count <= 20 {
            for (j, n) in nodes.iter().enumerate() {
                let target: Id20 = [0x91 ^ (j as u8); 20];
                let log_start = w.log.len();
                let c = w.call_find_node(*n, target.into());
                let h = w.now + 60 * SEC;
                w.run_calls(&[c], h);
                let mut asked: BTreeSet<SocketAddrV4> = BTreeSet::new();
                for e in &w.log[log_start..] {
                    if let LogEntry::Sent { dgram, .. } = e {
                        if dgram.from_node == Some(*n) {
                            if let Some(k) = Krpc::parse(&dgram.bytes) {
                                if k.is_query() && k.query_target() == Some(target) {
                                    asked.insert(dgram.to);
                                }
                            }
                        }
                    }
                }
                if let Some(k) = (0..count).find(|k| *k != j && !asked.contains(&addrs[*k])) {
                    problems.push(("testnet/lookup-misses-a-server".into(), format!("a find_node started on node #{j} did not ask node #{k} (asked {})", asked.len())));
                    break;
                }
            }
        }
    }
    for j in 0..nodes.len() {
        for (k, d) in w.api_view_mismatches(nodes[j]) {
            problems.push((k, format!("testnet node #{j}: {d}")));
        }
    }
    if let Some(dead) = w.any_actor_panicked() {
        problems.push(("actor-died".into(), format!("an actor thread died: node {dead} {}", w.death_reason(dead))));
    }
    out.add("transitions", w.steps);
    if problems.is_empty() {
        out.add("clean_testnets", 1);
    }
    let mut seen = BTreeSet::new();
    for (k, d) in problems {
        if seen.insert(k.clone()) {
            out.violation(format!("{k}/n{count}"), format!("Testnet::new({count}): {d}"), replay.clone());
        }
    }
}

fn run(tier: Tier, shard: usize, nshards: usize, _seed: u64) -> Partial {
    let mut out = Partial::default();
    let mut cfgs: Vec<Cfg> = vec![];
    let max_s = if tier.is_quick() { 3 } else { 4 };
    for s in 1..=max_s {
        let perms: usize = (1..=s).product();
        for perm in 0..perms {
            for timing in 0..TIMINGS.len() {
                for list in 0..LISTS.len() {
                    for public in [true, false] {
                        if s == 1 && (timing > 0 || list > 0) {
                            continue;
                        }
                        cfgs.push(Cfg { s, perm, timing, list, public });
                    }
                }
            }
        }
    }
    let bigs: &[usize] = if tier.is_quick() { &[8, 20] } else { &[8, 20, 50, 100, 300] };
    for &s in bigs {
        for timing in [0, 1] {
            for public in [true, false] {
                cfgs.push(Cfg { s, perm: 0, timing, list: 0, public });
            }
        }
    }
    if shard == 0 {
        let c = Cfg { s: 3, perm: 4, timing: 2, list: 1, public: true };
        let (a, b) = (scenario(&c, true), scenario(&c, true));
        assert!(a.steps == b.steps && a.digests.len() == b.digests.len(), "MACHINERY: scenario is not deterministic");
    }
    for (i, c) in cfgs.iter().enumerate() {
        if i % nshards != shard {
            continue;
        }
        super::guard_dead_actor(&mut out, &format!("s{}/{}", c.s, if c.public { "public" } else { "private" }), cfg_json(c), |out| {
            let o = scenario(c, i % 9 == 0);
            record(c, &o, out);
        });
    }
    // slow links (round trip above the initial request timeout)
    let mut unit = 0;
    for s in [2usize, 3, 5, 9] {
        for public in [true, false] {
            for one_way in [300u64, 350, 600] {
                unit += 1;
                if unit % nshards == shard {
                    super::guard_dead_actor(&mut out, "slow-links", json!({"part": "slow-links", "s": s, "public": public, "one_way_ms": one_way}), |out| slow_links(s, public, one_way, out));
                }
            }
        }
    }
    // the library's own Testnet constructor
    let sizes: &[usize] = if tier.is_quick() { &[1, 2, 3, 5, 10] } else { &[1, 2, 3, 4, 5, 8, 10, 20, 30] };
    for &n in sizes {
        unit += 1;
        if unit % nshards == shard {
            super::guard_dead_actor(&mut out, "testnet", json!({"part": "testnet", "count": n}), |out| testnet(n, out));
        }
    }
    out.witness("networks joined cleanly", out.count("clean_runs") > 0);
    out.sample(json!({"s": 3, "join_order": 4, "timing": "after-1-event", "bootstrap_list": "first-node+dead", "plan": "public"}));
    out
}

fn replay(v: &Value) -> Result<Option<Violation>, String> {
    let g = |k: &str| v.get(k).and_then(|x| x.as_u64()).map(|x| x as usize);
    if v.get("part").and_then(|p| p.as_str()) == Some("testnet") {
        let mut out = Partial::default();
        testnet(g("count").ok_or("count")?, &mut out);
        return Ok(out.violations.into_iter().next());
    }
    if v.get("part").and_then(|p| p.as_str()) == Some("slow-links") {
        let mut out = Partial::default();
        slow_links(g("s").ok_or("s")?, v.get("public").and_then(|x| x.as_bool()).unwrap_or(true), g("one_way_ms").ok_or("one_way_ms")? as u64, &mut out);
        return Ok(out.violations.into_iter().next());
    }
    let c = Cfg { s: g("s").ok_or("s")?, perm: g("perm").ok_or("perm")?, timing: g("timing").ok_or("timing")?, list: g("list").ok_or("list")?, public: v.get("public").and_then(|x| x.as_bool()).unwrap_or(true) };
    let o = scenario(&c, false);
    let mut out = Partial::default();
    record(&c, &o, &mut out);
    Ok(out.violations.into_iter().next())
}
