//! C07 - iterative lookups are exhaustive (Kademlia closure).
//! Engine E1: one real initiator, M scripted endpoints with BEP42-secure ids; a few "varying"
//! endpoints at the ranks around the K=20 boundary answer with every list shape; the verdict
//! is computed from the lookup's own datagram trace.

use std::collections::BTreeMap;
use std::net::SocketAddrV4;

use serde_json::{json, Value};

use super::CheckDef;
use crate::bencode::B;
use crate::epnet::{pub_ip, EpNet};
use crate::explore::{Chooser, Explorer};
use crate::krpc::{self, bep42_id, bep42_valid, Id20, Krpc};
use crate::report::{CheckInfo, Partial, Tier, Violation};
use crate::sim::*;

pub fn def() -> CheckDef {
    CheckDef {
        id: "C07",
        info,
        shards: |_| super::cores(),
        run,
        replay,
    }
}

fn info(tier: Tier) -> CheckInfo {
    CheckInfo {
        id: "C07",
        level: "model_checking",
        rule: format!(
            "Tier {}: one real initiator and M in {} scripted endpoints with BEP42-secure ids on distinct public IPs; initial knowledge in {{one far bootstrap node, three far nodes, all nodes ranked beyond 20}}; up to {} 'varying' endpoints chosen among XOR ranks {{1,2,19,20,21,22}}, each behaving as one of {{lists nothing, lists everybody, lists only farther nodes, lists the asker + a duplicate + a same-IP sibling, silent, insecure id, holds a value and is the only one that knows the closest node}}, every other endpoint lists its 8 next-closer nodes; lookup kinds find_node, get_closest_nodes, get_peers, the lookup phase of put_immutable, and get_immutable of a 1000-byte value whose holder's answer (value + every node it knows, ~1.7 kB) is the only source of the closest node; every single latency deviation (225/450 ms: answers overtaking each other) on the replies of the base configurations{}. Oracle from the datagram trace only: no address is asked again after it answered or timed out; at completion every one of the 20 closest entries (counting every answer delivered before completion or within the 500 ms minimum request timeout of its request) (secure first, then XOR) among the nodes the lookup knew or was told about has been asked; find_node reports exactly the first min(20,n) of them; get_closest_nodes / the store set is a prefix of the ordered responders of length >= min(20, responders) and the writes go to exactly that set.",
            tier.name(),
            if tier.is_quick() { "{3,23}" } else { "{3,21,23,26}" },
            if tier.is_quick() { 2 } else { 3 },
            if tier.is_quick() { "" } else { " and of the single-variation configurations at ranks 20/21" }
        ),
        assumptions: vec![
            "loss-free network, latencies below the request timeout".into(),
            "same-IP siblings are filtered by the admission rule of C12 replayed in arrival order".into(),
        ],
    }
}

#[derive(Clone, Copy, Debug, PartialEq, Eq)]
enum Beh {
    Nothing,
    Next8,
    Everything,
    /// As `Everything`, the list in farthest-first order (the closest nodes come last).
    EverythingFarthestFirst,
    FartherOnly,
    Weird,
    Silent,
    Insecure,
    /// Holds a value for the target (so its answer is value-bearing), lists everybody, and is
    /// the only endpoint that knows the closest node.
    ValueSoleWitness,
}

const BEHS: [Beh; 9] = [Beh::Nothing, Beh::Everything, Beh::EverythingFarthestFirst, Beh::FartherOnly, Beh::Weird, Beh::Silent, Beh::Insecure, Beh::ValueSoleWitness, Beh::Next8];
const RANKS: [usize; 6] = [1, 2, 19, 20, 21, 22];
const KINDS: [&str; 5] = ["find_node", "get_closest_nodes", "get_peers", "put_immutable", "get_immutable(1000 bytes)"];

#[derive(Clone, Debug)]
struct Cfg {
    m: usize,
    knowledge: usize,
    kind: usize,
    /// (rank, behaviour) of the varying endpoints
    vary: Vec<(usize, usize)>,
    /// An earlier, completed lookup of the same target (its kind), after which the endpoints at
    /// the given ranks fall silent; the judged lookup starts 60 s later, inside the 5-minute
    /// life of the cached responders.
    repeat: Option<(usize, Vec<usize>)>,
}

const PUT_VALUE: &[u8] = b"c07 value";

/// The largest immutable value BEP44 allows: an answer carrying it together with 20+ closer
/// nodes is the largest datagram a lookup legitimately receives (about 1.7 kB).
fn big_value() -> Vec<u8> {
    (0..1000u32).map(|i| (i * 7 + 3) as u8).collect()
}

fn target_of(kind: usize) -> Id20 {
    if kind == 3 {
        krpc::immutable_target(PUT_VALUE)
    } else if kind == 4 {
        krpc::immutable_target(&big_value())
    } else {
        let mut t = [0x6Bu8; 20];
        t[0] = 0x12;
        t
    }
}

fn key(id: &Id20, addr: &SocketAddrV4, target: &Id20) -> (u8, Id20) {
    (if bep42_valid(id, *addr.ip()) { 0 } else { 1 }, krpc::xor(id, target))
}

struct Out {
    violations: Vec<(String, String)>,
    steps: u64,
    digests: Vec<u64>,
    requests: usize,
    simultaneous_duplicates: u64,
    responders: usize,
    completion_ms: u64,
    done: bool,
}

fn scenario(chooser: Chooser, cfg: &Cfg, faults: bool, track: bool) -> (Chooser, Out) {
    let mut w = World::new(chooser);
    w.track_states = track;
    let target = target_of(cfg.kind);
    let m = cfg.m;
    // secure ids on distinct IPs
    let mut ids: Vec<Id20> = (0..m)
        .map(|i| {
            let mut fill = [0u8; 20];
            for (j, b) in fill.iter_mut().enumerate() {
                *b = (i as u8).wrapping_mul(29).wrapping_add(j as u8 * 5) ^ 0x3c;
            }
            bep42_id(pub_ip(i), &fill, (i % 8) as u8)
        })
        .collect();
    // rank order (by XOR; all secure at this point)
    let mut order: Vec<usize> = (0..m).collect();
    order.sort_by_key(|i| krpc::xor(&ids[*i], &target));
    let ep_at_rank = |r: usize| -> Option<usize> { order.get(r - 1).copied() };
    let mut beh = vec![Beh::Next8; m];
    for (rank, b) in &cfg.vary {
        if let Some(i) = ep_at_rank(*rank) {
            beh[i] = BEHS[*b];
            if BEHS[*b] == Beh::Insecure {
                ids[i][19] ^= 0x01; // another r: prefix no longer matches; XOR rank barely moves
            }
        }
    }
    let mut net = EpNet::new(&mut w, &ids);
    let eps = net.addrs();
    let a_cfg = NodeCfg::new([9, 9, 9, 9], 7000).id([0xE1; 20]);
    let a_addr = a_cfg.addr();
    let sole_witness = beh.iter().position(|b| *b == Beh::ValueSoleWitness);
    for i in 0..m {
        let rank_i = order.iter().position(|x| *x == i).expect("rank"); // 0-based
        // default view: the 8 next-closer nodes (for the closest ones: their 8 nearest peers)
        let mut next_closer: Vec<usize> = if rank_i >= 8 { order[rank_i - 8..rank_i].to_vec() } else { order.iter().take(9.min(m)).cloned().filter(|x| *x != i).collect() };
        if sole_witness.is_some() && sole_witness != Some(i) {
            next_closer.retain(|x| *x != order[0]);
        }
        let e = &mut net.eps[i];
        e.knows = Some(next_closer);
        match beh[i] {
            Beh::Nothing => e.knows = Some(vec![]),
            Beh::Next8 | Beh::Insecure => {}
            Beh::EverythingFarthestFirst => {
                e.k = m.min(70);
                e.farthest_first = true;
                e.knows = Some(order.iter().cloned().filter(|x| sole_witness.is_none() || *x != order[0]).collect());
            }
            Beh::Everything => {
                // (as many as a datagram carries: 70 compact nodes are 1820 bytes; a longer list
                // would be an oversize datagram the reader rightly cannot decode)
                e.k = m.min(70);
                e.knows = Some(order.iter().cloned().filter(|x| sole_witness.is_none() || *x != order[0]).collect());
            }
            Beh::FartherOnly => e.knows = Some(order[rank_i + 1..].to_vec()),
            Beh::Weird => {
                let sibling = ({ let mut s = ids[order[0]]; s[10] ^= 0xff; s }, SocketAddrV4::new(*eps[order[0]].ip(), 9999));
                let dup = (ids[order[m.min(3) - 1]], eps[order[m.min(3) - 1]]);
                // an insecure sibling of the closest node: same IP, id differing in the 21st bit
                let sibling21 = ({ let mut s = ids[order[0]]; s[2] ^= 0x08; s }, SocketAddrV4::new(*eps[order[0]].ip(), 9998));
                e.extra_listed = vec![([0xE1; 20], a_addr), dup, sibling, sibling21];
            }
            Beh::Silent => e.silent = true,
            Beh::ValueSoleWitness => {
                e.k = m.min(if cfg.kind == 4 { 26 } else { 60 });
                e.knows = None;
                e.peers.insert(target, vec![SocketAddrV4::new(std::net::Ipv4Addr::new(44, 4, 4, 4), 444)]);
                if cfg.kind == 3 {
                    e.imm.insert(target, PUT_VALUE.to_vec());
                }
                if cfg.kind == 4 {
                    e.imm.insert(target, big_value());
                }
            }
        }
    }
    // initial knowledge = bootstrap list
    let far: Vec<usize> = order.iter().rev().cloned().collect();
    let boots: Vec<SocketAddrV4> = match cfg.knowledge {
        0 => far.iter().take(1).map(|i| eps[*i]).collect(),
        1 => far.iter().take(3.min(m)).map(|i| eps[*i]).collect(),
        _ => {
            if m > 20 {
                order[20..].iter().map(|i| eps[*i]).collect()
            } else {
                far.iter().take(2).map(|i| eps[*i]).collect()
            }
        }
    };
    let a = w.add_node(a_cfg.bootstrap(&boots));
    // bootstrap phase: endpoints answer find_node with an empty list
    let h = w.now + 3 * SEC;
    w.run_until(h, |w, ev| {
        if let Event::EndpointRecv { ep, dgram } = ev {
            let i = net.index_of(*ep).expect("ep");
            if let Some(q) = Krpc::parse(&dgram.bytes) {
                if q.is_query() && !net.eps[i].silent {
                    let bytes = krpc::response(&q.t, vec![("id", B::bytes(net.eps[i].id)), ("nodes", B::bytes(b""))], Some(&dgram.from), Some(&krpc::VERSION_RS));
                    let from = net.eps[i].addr;
                    w.send_raw(from, dgram.from, bytes);
                }
            }
        }
        false
    });
    if let Some((first_kind, silent_ranks)) = &cfg.repeat {
        let c0 = match first_kind {
            0 => w.call_find_node(a, target.into()),
            1 => w.call_get_closest_nodes(a, target.into()),
            _ => w.call_get_peers(a, target.into()),
        };
        let h = w.now + 60 * SEC;
        w.run_until(h, |w, ev| {
            if let Event::EndpointRecv { ep, dgram } = ev {
                net.handle(w, *ep, dgram);
            }
            w.result(c0).is_some()
        });
        for r in silent_ranks {
            if let Some(i) = ep_at_rank(*r) {
                net.eps[i].silent = true;
            }
        }
        let h = w.now + 60 * SEC;
        w.run_until(h, |w, ev| {
            if let Event::EndpointRecv { ep, dgram } = ev {
                net.handle(w, *ep, dgram);
            }
            false
        });
    }
    let table: Vec<(Id20, SocketAddrV4)> = {
        let s = w.snapshot(a);
        s.core.routing_table.buckets.iter().flat_map(|(_, b)| b.iter().map(|n| (*n.id.as_bytes(), n.address))).collect()
    };
    // the lookup
    w.faults.menu = vec![Fate::Deliver(DEFAULT_LATENCY), Fate::Deliver(225 * MS), Fate::Deliver(450 * MS)];
    w.faults.enabled = faults;
    w.fault_filter = Some(Box::new(move |d: &Datagram| d.to == a_addr && d.from_node.is_none()));
    let log_start = w.log.len();
    let start = w.now;
    let call = match cfg.kind {
        0 => w.call_find_node(a, target.into()),
        1 => w.call_get_closest_nodes(a, target.into()),
        2 => w.call_get_peers(a, target.into()),
        3 => w.call_put_immutable(a, PUT_VALUE.to_vec()),
        _ => w.call_get_immutable(a, target.into()),
    };
    let h = w.now + 60 * SEC;
    w.run_until(h, |w, ev| {
        if let Event::EndpointRecv { ep, dgram } = ev {
            net.handle(w, *ep, dgram);
        }
        w.result(call).is_some()
    });
    let done = w.result(call).is_some();
    let done_at = w.now;
    w.faults.enabled = false;
    // let answers that are still on their way arrive: an answer delivered within the minimum
    // request timeout of its request was received in time whatever the lookup did meanwhile
    let h = w.now + SEC;
    w.run_until(h, |w, ev| {
        if let Event::EndpointRecv { ep, dgram } = ev {
            net.handle(w, *ep, dgram);
        }
        false
    });
    // ------------------------------------------------------------------ oracle from the trace
    let mut v: Vec<(String, String)> = vec![];
    let lookup_q: &[&str] = match cfg.kind {
        0 => &["find_node"],
        2 => &["get_peers"],
        _ => &["get"],
    };
    let delivered = w.delivered_ids();
    let mut asked: Vec<SocketAddrV4> = vec![];
    let mut asked_at: Vec<(SocketAddrV4, u64)> = vec![];
    let mut tid_to: BTreeMap<Vec<u8>, SocketAddrV4> = BTreeMap::new();
    let mut tid_sent: BTreeMap<Vec<u8>, u64> = BTreeMap::new();
    let mut stores: Vec<SocketAddrV4> = vec![];
    // entries the lookup knew or was told about, in arrival order
    let mut told: Vec<(Id20, SocketAddrV4)> = vec![];
    let mut responders: Vec<(Id20, SocketAddrV4)> = vec![];
    for e in &w.log[log_start..] {
        if let LogEntry::Sent { dgram, .. } = e {
            let Some(k) = Krpc::parse(&dgram.bytes) else { continue };
            if dgram.from_node == Some(a) && k.is_query() {
                let q = k.q.clone().unwrap_or_default();
                if lookup_q.contains(&q.as_str()) && k.query_target() == Some(target) {
                    asked.push(dgram.to);
                    asked_at.push((dgram.to, dgram.sent_at));
                    tid_to.insert(k.t.clone(), dgram.to);
                    tid_sent.insert(k.t.clone(), dgram.sent_at);
                } else if q == "put" {
                    stores.push(dgram.to);
                }
            }
        }
    }
    // answers: walk the log again in delivery order
    let mut answers: Vec<(u64, &Datagram)> = vec![];
    for e in &w.log[log_start..] {
        if let LogEntry::Sent { dgram, .. } = e {
            if dgram.to == a_addr && dgram.from_node.is_none() {
                if let Some(at) = delivered.get(&dgram.id) {
                    let in_time = Krpc::parse(&dgram.bytes).and_then(|k| tid_sent.get(&k.t).copied()).map(|sent| *at < sent + 500 * MS).unwrap_or(false);
                    if *at <= done_at || in_time {
                        answers.push((*at, dgram));
                    }
                }
            }
        }
    }
    answers.sort_by_key(|(at, d)| (*at, d.id));
    for (_, d) in &answers {
        let Some(k) = Krpc::parse(&d.bytes) else { continue };
        if !k.is_response() || tid_to.get(&k.t) != Some(&d.from) {
            continue;
        }
        if let Some(nodes) = k.res_nodes() {
            for n in nodes {
                told.push(n);
            }
        }
        if k.res_bytes("token").is_some() {
            if let Some(id) = k.sender_id() {
                responders.push((id, d.from));
            }
        }
    }
    // (a) an address that has answered or timed out is never asked again. (Two requests
    // sent before either outcome - e.g. a bootstrap address that is also a routing-table
    // candidate - are outside the statement and are only counted.)
    let mut first_sent: BTreeMap<SocketAddrV4, u64> = BTreeMap::new();
    let mut answered_at: BTreeMap<SocketAddrV4, u64> = BTreeMap::new();
    for (at, d) in &answers {
        if let Some(k) = Krpc::parse(&d.bytes) {
            if tid_to.get(&k.t) == Some(&d.from) {
                answered_at.entry(d.from).or_insert(*at);
            }
        }
    }
    let mut simultaneous_duplicates = 0u64;
    for (to, at) in &asked_at {
        match first_sent.get(to) {
            None => {
                first_sent.insert(*to, *at);
            }
            Some(first) => {
                let after_answer = answered_at.get(to).map(|a| at > a).unwrap_or(false);
                let after_timeout = *at >= first + 500 * MS;
                if after_answer || after_timeout {
                    v.push((
                        "asked-again".into(),
                        format!("{to} was asked again {} ms after the first request although it had {}", (at - first) / MS, if after_answer { "answered" } else { "timed out" }),
                    ));
                    break;
                }
                simultaneous_duplicates += 1;
            }
        }
    }
    if done {
        // candidate entries: table seeds that were asked (the lookup knew them, inserted in
        // sorted order) followed by the told entries in arrival order, filtered by the same-IP
        // admission rule (per IP one insecure entry, no two secure entries with one 21-bit prefix)
        let mut seeds: Vec<(Id20, SocketAddrV4)> = table.iter().filter(|(_, a)| asked.contains(a)).cloned().collect();
        seeds.sort_by_key(|(id, a)| key(id, a, &target));
        let mut cand: Vec<(Id20, SocketAddrV4)> = vec![];
        for e in seeds.iter().chain(told.iter()) {
            let secure = |n: &(Id20, SocketAddrV4)| bep42_valid(&n.0, *n.1.ip());
            let p21 = |n: &(Id20, SocketAddrV4)| [n.0[0], n.0[1], n.0[2] & 0xf8];
            let refused = cand.iter().any(|k| k.1.ip() == e.1.ip() && (!secure(k) || p21(k) == p21(e)));
            let dup = cand.iter().any(|k| k.0 == e.0 && secure(k) == secure(e));
            if !refused && !dup {
                cand.push(*e);
            }
        }
        cand.sort_by_key(|(id, a)| key(id, a, &target));
        // (b) the first 20 were all asked
        for (rank, (id, addr)) in cand.iter().take(20).enumerate() {
            if !asked.contains(addr) {
                let class = if bep42_valid(id, *addr.ip()) { "secure" } else { "insecure" };
                v.push((
                    format!("closest-not-asked/{class}"),
                    format!("lookup finished without asking {addr}, entry #{} of the {} it knew or was told about", rank + 1, cand.len()),
                ));
                break;
            }
        }
        // (c)
        let mut resp = responders.clone();
        resp.sort_by_key(|(id, a)| key(id, a, &target));
        resp.dedup();
        match w.result(call) {
            Some(CallResult::Nodes(nodes)) if cfg.kind == 0 => {
                let got: Vec<(Id20, SocketAddrV4)> = nodes.iter().map(|n| (*n.id().as_bytes(), n.address())).collect();
                let want: Vec<(Id20, SocketAddrV4)> = cand.iter().take(20).cloned().collect();
                if got != want {
                    let class = if got.len() != want.len() {
                        "length"
                    } else {
                        let (mut a, mut b) = (got.clone(), want.clone());
                        a.sort();
                        b.sort();
                        if a == b {
                            "order"
                        } else {
                            "members"
                        }
                    };
                    v.push((format!("find_node-result/{class}"), format!("find_node returned {} nodes; the first min(20,n) known entries are {} (n={})", got.len(), want.len(), cand.len())));
                }
            }
            Some(CallResult::Bytes(b)) => {
                // the holder's (large) answer was delivered in time: the value must come out
                let holder_answered = sole_witness.map(|i| answered_at.contains_key(&eps[i])).unwrap_or(false);
                if holder_answered && b.as_deref() != Some(&big_value()[..]) {
                    v.push(("value-answer-ignored".into(), format!("the holder's {}-byte answer was delivered but get_immutable returned {:?} bytes", answers.iter().filter(|(_, d)| Some(d.from) == sole_witness.map(|i| eps[i])).map(|(_, d)| d.bytes.len()).max().unwrap_or(0), b.as_ref().map(|x| x.len()))));
                }
            }
            Some(CallResult::Nodes(nodes)) => {
                let got: Vec<(Id20, SocketAddrV4)> = nodes.iter().map(|n| (*n.id().as_bytes(), n.address())).collect();
                let min = 20.min(resp.len());
                if got.len() < min || got.len() > resp.len() || got[..] != resp[..got.len()] {
                    v.push(("closest-nodes-result".into(), format!("get_closest_nodes returned {} nodes which is not a prefix (>= {min}) of the {} ordered responders", got.len(), resp.len())));
                }
            }
            Some(CallResult::Put(r)) => {
                if r.is_ok() {
                    let mut got: Vec<SocketAddrV4> = stores.clone();
                    let min = 20.min(resp.len());
                    let want_prefix: Vec<SocketAddrV4> = resp.iter().take(got.len()).map(|r| r.1).collect();
                    let mut wp = want_prefix.clone();
                    got.sort();
                    wp.sort();
                    if got.len() < min || got != wp {
                        v.push(("store-set".into(), format!("the value was written to {} nodes which is not the closest >= {min} of the {} responders", got.len(), resp.len())));
                    }
                } else if !resp.is_empty() {
                    v.push(("put-failed".into(), format!("put failed ({r:?}) although {} nodes answered the lookup with a token", resp.len())));
                }
            }
            _ => {}
        }
    }
    if !done {
        v.push(("lookup-did-not-finish".into(), "the call did not complete within 60 virtual seconds".into()));
    }
    if let Some(dead) = w.any_actor_panicked() {
        v.push(("actor-died".into(), format!("actor thread panicked: node {dead} {}", w.death_reason(dead))));
    }
    let out = Out {
        violations: v,
        steps: w.steps,
        digests: w.state_digests.iter().copied().collect(),
        requests: asked.len(),
        simultaneous_duplicates,
        responders: responders.len(),
        completion_ms: (done_at - start) / MS,
        done,
    };
    let ch = std::mem::take(&mut w.chooser);
    (ch, out)
}

fn subsets(n: usize, max: usize) -> Vec<Vec<usize>> {
    let mut out = vec![];
    for mask in 0u32..(1 << n) {
        if (mask.count_ones() as usize) <= max {
            out.push((0..n).filter(|i| mask & (1 << i) != 0).collect());
        }
    }
    out
}

fn configs(tier: Tier) -> Vec<Cfg> {
    let ms: &[usize] = if tier.is_quick() { &[3, 23] } else { &[3, 21, 23, 26] };
    let max_vary = if tier.is_quick() { 2 } else { 3 };
    let mut v = vec![];
    for &m in ms {
        let ranks: Vec<usize> = RANKS.iter().cloned().filter(|r| *r <= m).collect();
        for knowledge in 0..3 {
            for kind in 0..5 {
                for set in subsets(ranks.len(), max_vary) {
                    // every behaviour assignment except the all-default one being repeated
                    let nb = BEHS.len() - 1; // Next8 (the default) is not a variation
                    let combos = nb.pow(set.len() as u32);
                    for c in 0..combos {
                        let vary: Vec<(usize, usize)> = set.iter().enumerate().map(|(j, ri)| (ranks[*ri], (c / nb.pow(j as u32)) % nb)).collect();
                        // the sole-witness role only exists at rank 2, and once
                        if vary.iter().any(|(r, b)| BEHS[*b] == Beh::ValueSoleWitness && *r != 2) {
                            continue;
                        }
                        // the large-value lookup only differs from the others when somebody holds the value
                        if kind == 4 && !vary.is_empty() && !vary.iter().any(|(_, b)| BEHS[*b] == Beh::ValueSoleWitness) {
                            continue;
                        }
                        v.push(Cfg { m, knowledge, kind, vary, repeat: None });
                    }
                }
            }
        }
    }
    // a second lookup of a target whose first lookup is still cached, after some of its closest
    // responders fell silent: what it reports are the nodes that answered *it*
    for m in [5usize, 23] {
        for first in 0..3usize {
            for kind in 0..3usize {
                for silent in [vec![], vec![1], vec![2], vec![1, 2], vec![20]] {
                    if silent.iter().any(|r| *r > m) {
                        continue;
                    }
                    v.push(Cfg { m, knowledge: 0, kind, vary: vec![], repeat: Some((first, silent)) });
                }
            }
        }
    }
    // larger networks: the verdict comes from the lookup's own trace, so it is exact at any size
    let bigs: &[usize] = if tier.is_quick() { &[60] } else { &[60, 150, 300] };
    let nb = BEHS.len() - 1;
    for &m in bigs {
        for knowledge in 0..3 {
            for kind in 0..5 {
                v.push(Cfg { m, knowledge, kind, vary: vec![], repeat: None });
                if !tier.is_quick() && kind < 4 {
                    for rank in [1usize, 20, 21] {
                        for b in 0..nb {
                            if BEHS[b] == Beh::ValueSoleWitness {
                                continue;
                            }
                            v.push(Cfg { m, knowledge, kind, vary: vec![(rank, b)], repeat: None });
                        }
                    }
                }
            }
        }
    }
    v
}

fn cfg_json(c: &Cfg) -> Value {
    json!({"m": c.m, "knowledge": c.knowledge, "kind": c.kind, "vary": c.vary.iter().map(|(r, b)| json!([r, b])).collect::<Vec<_>>(), "repeat": c.repeat.as_ref().map(|(f, s)| json!([f, s]))})
}

fn cfg_desc(c: &Cfg) -> String {
    format!(
        "{} over {} endpoints, knowledge #{}, varying {:?}",
        KINDS[c.kind],
        c.m,
        c.knowledge,
        c.vary.iter().map(|(r, b)| format!("rank {r}: {:?}", BEHS[*b])).collect::<Vec<_>>()
    )
}

fn record(c: &Cfg, choices: &[u32], o: &Out, out: &mut Partial) {
    out.add("executions", 1);
    out.add("transitions", o.steps);
    out.digests.extend(o.digests.iter());
    out.gauge_max("max_completion_ms", o.completion_ms);
    out.gauge_max("max_requests_in_one_lookup", o.requests as u64);
    out.outcomes.insert(format!("{}:asked{}:resp{}", KINDS[c.kind], o.requests.min(30), o.responders.min(30)));
    out.add("simultaneous_duplicate_requests", o.simultaneous_duplicates);
    if o.done {
        out.add("lookups_done", 1);
    }
    if o.requests > 20 {
        out.add("lookups_with_more_than_20_requests", 1);
    }
    if c.repeat.is_some() {
        out.add("second_lookups_within_cache_life", 1);
    }
    for (key, desc) in &o.violations {
        let behs: Vec<String> = c.vary.iter().map(|(_, b)| format!("{:?}", BEHS[*b])).collect();
        out.violation(
            format!("{key}/{}/m{}/{}{}", KINDS[c.kind], c.m, behs.join("+"), if c.repeat.is_some() { "/second-lookup-within-cache-life" } else { "" }),
            format!("{}{}: {desc}{}", cfg_desc(c), c.repeat.as_ref().map(|(f, s)| format!(" [60 s after a completed {} of the same target, endpoints at ranks {s:?} silent since]", KINDS[*f])).unwrap_or_default(), if choices.iter().any(|c| *c > 0) { format!(" (latency deviations {choices:?})") } else { String::new() }),
            json!({"cfg": cfg_json(c), "choices": choices}),
        );
    }
}

fn run(tier: Tier, shard: usize, nshards: usize, _seed: u64) -> Partial {
    let mut out = Partial::default();
    let cfgs = configs(tier);
    if shard == 0 {
        let c = &cfgs[cfgs.len() / 2];
        let (_, a) = scenario(Chooser::default_run(), c, false, true);
        let (_, b) = scenario(Chooser::default_run(), c, false, true);
        assert!(a.steps == b.steps && a.digests.len() == b.digests.len() && a.requests == b.requests, "MACHINERY: scenario is not deterministic");
    }
    for (i, c) in cfgs.iter().enumerate() {
        if i % nshards != shard {
            continue;
        }
        super::guard_dead_actor(&mut out, &format!("{}/m{}", KINDS[c.kind], c.m), json!({"cfg": cfg_json(c), "choices": []}), |out| {
            let (_, o) = scenario(Chooser::default_run(), c, false, i % 50 == shard);
            record(c, &[], &o, out);
        });
    }
    {
        // every single latency deviation (answers overtaking each other) on the base
        // configurations (no varying endpoints) and, in the thorough tier, on the
        // single-variation ones at ranks 20/21
        let base: Vec<&Cfg> = cfgs.iter().filter(|c| c.m <= 60 && c.repeat.is_none()).filter(|c| c.vary.is_empty() || (!tier.is_quick() && c.vary.len() == 1 && (c.vary[0].0 == 20 || c.vary[0].0 == 21))).collect();
        for (i, c) in base.iter().enumerate() {
            if i % nshards != shard {
                continue;
            }
            let mut ex = Explorer::new(1, (0, 1));
            ex.explore(&mut |chooser, count| {
                let (ch, o) = scenario(chooser, c, true, false);
                if count && ch.choices().iter().any(|x| *x > 0) {
                    record(c, &ch.choices(), &o, &mut out);
                }
                (ch, true)
            });
        }
    }
    out.witness("lookups completed", out.count("lookups_done") > 0);
    out.witness("a lookup had to go beyond 20 requests", out.count("lookups_with_more_than_20_requests") > 0 || out.count("executions") < 10);
    out.sample(json!({"kind": "find_node", "m": 23, "knowledge": "one far bootstrap node", "varying": [[20, "FartherOnly"], [21, "Silent"]]}));
    out
}

fn replay(v: &Value) -> Result<Option<Violation>, String> {
    let c = v.get("cfg").ok_or("cfg")?;
    let cfg = Cfg {
        m: c.get("m").and_then(|x| x.as_u64()).ok_or("m")? as usize,
        knowledge: c.get("knowledge").and_then(|x| x.as_u64()).ok_or("knowledge")? as usize,
        kind: c.get("kind").and_then(|x| x.as_u64()).ok_or("kind")? as usize,
        vary: c
            .get("vary")
            .and_then(|x| x.as_array())
            .ok_or("vary")?
            .iter()
            .filter_map(|p| Some((p.get(0)?.as_u64()? as usize, p.get(1)?.as_u64()? as usize)))
            .collect(),
        repeat: c.get("repeat").and_then(|r| r.as_array()).and_then(|r| Some((r.first()?.as_u64()? as usize, r.get(1)?.as_array()?.iter().filter_map(|x| x.as_u64().map(|x| x as usize)).collect()))),
    };
    let choices: Vec<u32> = v.get("choices").and_then(|c| c.as_array()).map(|a| a.iter().filter_map(|x| x.as_u64().map(|x| x as u32)).collect()).unwrap_or_default();
    let faults = choices.iter().any(|c| *c > 0);
    let (_, o) = scenario(Chooser::new(choices.clone()), &cfg, faults, false);
    let mut out = Partial::default();
    record(&cfg, &choices, &o, &mut out);
    Ok(out.violations.into_iter().next())
}
