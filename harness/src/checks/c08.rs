//! C08 - put results tell the truth about acknowledgements.
//! Engine E1: one real writer, N scripted storing endpoints; every assignment of
//! (token / no token) x (ack, error codes, silence, late ack) to the endpoints, every arrival
//! order, all four put kinds; plus large replica sets through `extra_nodes`.

use dht::verif::{
    node_with_token, AnnouncePeerRequestArguments, AnnounceSignedPeerRequestArguments,
    PutImmutableRequestArguments, PutMutableRequestArguments, SignedAnnounce,
};
use dht::{MutableItem, Node, PutRequestSpecific};
use serde_json::{json, Value};

use super::CheckDef;
use crate::epnet::{EpNet, PutReply};
use crate::explore::Chooser;
use crate::krpc::{self, Id20};
use crate::report::{CheckInfo, Partial, Tier, Violation};
use crate::sim::*;

pub fn def() -> CheckDef {
    CheckDef {
        id: "C08",
        info,
        shards: |_| super::cores(),
        run,
        replay,
    }
}

fn info(tier: Tier) -> CheckInfo {
    let mut ci = CheckInfo {
        id: "C08",
        level: "model_checking",
        rule: format!(
            "Tier {}: one real writer (client mode) and N scripted storing endpoints, N in {}; each endpoint independently {{issues no token | acks | answers 203 | 205 | 301 | 302 | 201 | stays silent | acks after the request expired | has gone read-only and flags its ack ro=1}} - every assignment, every arrival order of the replies (distinct latencies 10/60/110 ms permuted), all four put kinds (immutable, mutable, announce_peer, announce_signed_peer) through the public put API; plus replica sets of 255/256/257/300 addressed nodes through extra_nodes with all-ack, one-ack, all-301 and half-301-half-ack, extra_nodes mixing a token holder with a token-less node; and two overlapping writes to one target with different payloads (announce_peer with two ports; announce_peer + announce_signed_peer), the second queued before every network event of the first call's lifetime, all storers acknowledging: a call may return Ok only if a storer received that call's own payload. Oracle from the network log: Ok <=> an ack was delivered before its request expired (a majority of 301/302 on a mutable put may pre-empt it); a concurrency error only if 301/302 was really answered; otherwise a query error; writes go exactly to the endpoints that issued a token in this lookup, each with its own token. Every execution runs the real node; states = distinct world digests.",
            tier.name(),
            if tier.is_quick() { "{1,2,3}" } else { "{1,2,3,4}" }
        ),
        assumptions: vec![
            "optimised build with integer overflow checks on (an overflowing counter panics instead of wrapping)".into(),
            "endpoint replies faster than 500 ms count as in time (the request timeout never drops below 500 ms)".into(),
        ],
    };
    ci.rule.push_str(" Added: a put in its store phase crossed with another lookup of the same target ending with tokens / without / errors only / silence; the main matrix also through the blocking Dht::put. Also: two calls issued back to back (two puts, or a put and a get of another target) whose lookups are answered by disjoint pairs of storers and end in one loop iteration - each write reaches the storers that answered its own lookup and nobody else.");
    ci
}

#[derive(Clone, Copy, Debug, PartialEq, Eq)]
enum Beh {
    NoToken,
    Ack,
    Err(i64),
    Silent,
    LateAck,
    /// Went read-only (BEP43) between the lookup and the write: does not store, and flags its
    /// ping-shaped reply to the write ro=1 - not a storing node's acknowledgement.
    RoAck,
}

const BEHS: [Beh; 10] = [
    Beh::Ack,
    Beh::NoToken,
    Beh::Err(203),
    Beh::Err(205),
    Beh::Err(301),
    Beh::Err(302),
    Beh::Err(201),
    Beh::Silent,
    Beh::LateAck,
    Beh::RoAck,
];

const KINDS: [&str; 4] = ["immutable", "mutable", "announce_peer", "announce_signed_peer"];

fn request(kind: usize) -> (PutRequestSpecific, Id20) {
    match kind {
        0 => {
            let v = b"c08 immutable".to_vec();
            let t = krpc::immutable_target(&v);
            (PutRequestSpecific::PutImmutable(PutImmutableRequestArguments { target: t.into(), v: v.into() }), t)
        }
        1 => {
            let sk = krpc::signing_key(8);
            let item = MutableItem::new(&sk, b"c08 mutable", 5, None);
            let t = *item.target().as_bytes();
            (PutRequestSpecific::PutMutable(PutMutableRequestArguments::from(item, None)), t)
        }
        2 => {
            let t = [0x3Cu8; 20];
            (PutRequestSpecific::AnnouncePeer(AnnouncePeerRequestArguments { info_hash: t.into(), port: 4321, implied_port: None }), t)
        }
        _ => {
            let t = [0x4Du8; 20];
            let sk = krpc::signing_key(9);
            let ann = SignedAnnounce::new(&sk, &t.into());
            (
                PutRequestSpecific::AnnounceSignedPeer(AnnounceSignedPeerRequestArguments { info_hash: t.into(), t: ann.timestamp(), k: *ann.key(), sig: *ann.signature() }),
                t,
            )
        }
    }
}

#[derive(Debug)]
struct Out {
    result: String,
    ok: bool,
    concurrency: bool,
    pending: bool,
    acks_in_time: usize,
    majority_3xx: bool,
    answered_3xx: bool,
    wrong_writes: Vec<String>,
    stored: usize,
    contacted: usize,
    steps: u64,
    digests: Vec<u64>,
    completion_ms: u64,
    actor_died: bool,
}

fn permutation(n: usize, mut k: usize) -> Vec<usize> {
    let mut items: Vec<usize> = (0..n).collect();
    let mut out = vec![];
    for i in (1..=n).rev() {
        out.push(items.remove(k % i));
        k /= i;
    }
    out
}

fn scenario(kind: usize, behs: &[Beh], order: usize, track: bool, sync: bool) -> Out {
    let mut w = World::new(Chooser::default_run());
    w.track_states = track;
    let (req, target) = request(kind);
    let n = behs.len();
    let ids = crate::epnet::ranked_ids(&target, n);
    let mut net = EpNet::new(&mut w, &ids);
    let lat_rank = permutation(n, order);
    for (i, b) in behs.iter().enumerate() {
        let e = &mut net.eps[i];
        match b {
            Beh::NoToken => e.issue_token = false,
            Beh::Ack | Beh::LateAck => e.put_reply = PutReply::Ack,
            Beh::Err(c) => e.put_reply = PutReply::Error(*c),
            Beh::Silent => e.put_reply = PutReply::Silent,
            Beh::RoAck => {
                e.put_reply = PutReply::Ack;
                e.ro_on_put_replies = Some(1);
                e.store_puts = false;
            }
        }
    }
    let eps = net.addrs();
    let a = w.add_node(NodeCfg::new([9, 9, 9, 9], 7000).bootstrap(&eps[..1]).id([0x21; 20]));
    let a_addr = w.node_addr(a);
    let pump = |w: &mut World, net: &mut EpNet, ev: &Event, behs: &[Beh], lat_rank: &[usize]| {
        if let Event::EndpointRecv { ep, dgram } = ev {
            let i = net.index_of(*ep).expect("ep");
            let q = krpc::Krpc::parse(&dgram.bytes);
            let is_put = q.as_ref().map(|q| matches!(q.q.as_deref(), Some("put") | Some("announce_peer") | Some("announce_signed_peer"))).unwrap_or(false);
            if let Some(q) = q {
                if q.is_query() {
                    if let Some(bytes) = net.honest_reply(i, &q, dgram.from, w.now) {
                        let lat = if is_put {
                            if behs[i] == Beh::LateAck {
                                900 * MS
                            } else {
                                (10 + 50 * lat_rank[i] as u64) * MS
                            }
                        } else {
                            DEFAULT_LATENCY
                        };
                        let from = net.eps[i].addr;
                        w.send_raw_with_latency(from, dgram.from, bytes, lat);
                    }
                }
            }
        }
    };
    let h = w.now + 3 * SEC;
    w.run_until(h, |w, ev| {
        pump(w, &mut net, ev, behs, &lat_rank);
        false
    });
    let start = w.now;
    w.sync_api = sync;
    let call = w.call_put_raw(a, req, None);
    let h = w.now + 60 * SEC;
    w.run_until(h, |w, ev| {
        pump(w, &mut net, ev, behs, &lat_rank);
        w.result(call).is_some()
    });
    let done = w.now;
    let h = w.now + 3 * SEC;
    w.run_until(h, |w, ev| {
        pump(w, &mut net, ev, behs, &lat_rank);
        false
    });
    let res = w.result(call).cloned();
    let (ok, concurrency, pending, result) = match &res {
        Some(CallResult::Put(Ok(_))) => (true, false, false, "Ok".to_string()),
        Some(CallResult::Put(Err(e))) => (false, e.is_concurrency(), false, format!("{e:?}")),
        Some(other) => (false, false, false, format!("{other:?}")),
        None => (false, false, true, "PENDING".into()),
    };
    // which writes were sent where, with which token
    let mut wrong = vec![];
    let mut contacted = 0;
    let mut acks_in_time = 0;
    let mut n3xx = 0;
    for (i, e) in net.eps.iter().enumerate() {
        for p in &e.puts {
            contacted += 1;
            if p.from != a_addr {
                continue;
            }
            if !e.issue_token {
                wrong.push(format!("endpoint {i} issued no token but received a write"));
            } else if p.token != e.token {
                wrong.push(format!("endpoint {i} received a write with a token that is not its own"));
            }
            match behs[i] {
                Beh::Ack => acks_in_time += 1,
                Beh::Err(301) | Beh::Err(302) => n3xx += 1,
                _ => {}
            }
        }
        if e.issue_token && e.puts.is_empty() && !pending && behs.iter().any(|b| *b != Beh::NoToken) {
            // a token holder that was not written to: allowed only if the put failed before starting
        }
        if e.puts.len() > 1 {
            wrong.push(format!("endpoint {i} received {} writes for one put", e.puts.len()));
        }
    }
    let stored = net
        .eps
        .iter()
        .filter(|e| e.imm.contains_key(&target) || e.mutable.contains_key(&target) || e.peers.contains_key(&target) || e.signed.contains_key(&target))
        .count();
    Out {
        result,
        ok,
        concurrency,
        pending,
        acks_in_time,
        majority_3xx: kind == 1 && contacted > 0 && n3xx >= contacted / 2 + 1,
        answered_3xx: n3xx > 0,
        wrong_writes: wrong,
        stored,
        contacted,
        steps: w.steps,
        digests: w.state_digests.iter().copied().collect(),
        completion_ms: (done - start) / MS,
        actor_died: w.any_actor_panicked().is_some(),
    }
}

/// A put that is already in its store phase (it started from cached closest nodes, its writes are
/// on the wire, the acknowledgements take 300 ms) while another lookup of the SAME target starts
/// and ends first - with token-bearing answers, token-less answers, errors only, or silence.
/// Whatever that lookup finds, the put's result is decided by its own acknowledgements.
fn concurrent_lookup(kind: usize, lookup_end: usize, second: usize, out: &mut Partial) {
    const ENDS: [&str; 4] = ["tokens", "no-tokens", "errors-only", "silent"];
    const SECOND: [&str; 3] = ["get-same-kind", "find_node", "get_closest_nodes"];
    let mut w = World::new(Chooser::default_run());
    let (req, target) = request(kind);
    let ids = crate::epnet::ranked_ids(&target, 3);
    let mut net = EpNet::new(&mut w, &ids);
    let eps = net.addrs();
    let a = w.add_node(NodeCfg::new([9, 9, 9, 9], 7000).bootstrap(&eps[..1]).id([0x21; 20]));
    let mut phase2 = false;
    let mut acks_sent = 0usize;
    let pump = |w: &mut World, net: &mut EpNet, ev: &Event, phase2: bool, acks_sent: &mut usize| {
        if let Event::EndpointRecv { ep, dgram } = ev {
            let i = net.index_of(*ep).expect("ep");
            let Some(q) = krpc::Krpc::parse(&dgram.bytes) else { return };
            if !q.is_query() {
                return;
            }
            let is_put = matches!(q.q.as_deref(), Some("put") | Some("announce_peer") | Some("announce_signed_peer"));
            let is_lookup_of_target = !is_put && q.query_target() == Some(target);
            if phase2 && is_lookup_of_target {
                match lookup_end {
                    0 => {}
                    1 => net.eps[i].issue_token = false,
                    2 => {
                        let from = net.eps[i].addr;
                        w.send_raw(from, dgram.from, krpc::error(&q.t, 202, "server error"));
                        return;
                    }
                    _ => return,
                }
            }
            let reply = net.honest_reply(i, &q, dgram.from, w.now);
            net.eps[i].issue_token = true;
            if let Some(bytes) = reply {
                let from = net.eps[i].addr;
                if is_put {
                    *acks_sent += 1;
                }
                w.send_raw_with_latency(from, dgram.from, bytes, if is_put { 300 * MS } else { DEFAULT_LATENCY });
            }
        }
    };
    let h = w.now + 3 * SEC;
    w.run_until(h, |w, ev| {
        pump(w, &mut net, ev, phase2, &mut acks_sent);
        false
    });
    // a first lookup of the target leaves its token-bearing responders in the cache
    let warm = match kind {
        0 | 1 => w.call_get_closest_nodes(a, target.into()),
        2 => w.call_get_peers(a, target.into()),
        _ => w.call_get_signed_peers(a, target.into()),
    };
    let h = w.now + 30 * SEC;
    w.run_until(h, |w, ev| {
        pump(w, &mut net, ev, phase2, &mut acks_sent);
        w.result(warm).is_some()
    });
    phase2 = true;
    let put = w.call_put_raw(a, req, None);
    // the put is handled first (its writes go out), then the second lookup is queued
    w.run_for(MS);
    let get = match second {
        0 => match kind {
            0 => w.call_get_immutable(a, target.into()),
            1 => w.call_get_mutable(a, krpc::signing_key(8).verifying_key().to_bytes(), None, None),
            2 => w.call_get_peers(a, target.into()),
            _ => w.call_get_signed_peers(a, target.into()),
        },
        1 => w.call_find_node(a, target.into()),
        _ => w.call_get_closest_nodes(a, target.into()),
    };
    let h = w.now + 60 * SEC;
    w.run_until(h, |w, ev| {
        pump(w, &mut net, ev, phase2, &mut acks_sent);
        w.result(put).is_some() && w.result(get).is_some()
    });
    out.add("executions", 1);
    out.add("concurrent_lookup_scenarios", 1);
    out.add("transitions", w.steps);
    let replay = json!({"part": "concurrent-lookup", "kind": kind, "lookup_end": lookup_end, "second": second});
    let ctx = format!("{} put in its store phase (3 storers acknowledge after 300 ms) while a {} of the same target starts and ends with {}", KINDS[kind], SECOND[second], ENDS[lookup_end]);
    let puts_received: usize = net.eps.iter().map(|e| e.puts.len()).sum();
    if puts_received > 0 {
        out.add("concurrent_lookup_put_was_in_flight", 1);
    }
    match w.result(put) {
        Some(CallResult::Put(Ok(_))) => out.add("ok_results", 1),
        Some(CallResult::Put(Err(e))) if puts_received > 0 && acks_sent > 0 => out.violation(
            format!("concurrent-lookup/error-despite-acks/{}/{}/{}", KINDS[kind], SECOND[second], ENDS[lookup_end]),
            format!("{ctx}: {acks_sent} acknowledgements were delivered in time but the put reports {e:?}"),
            replay.clone(),
        ),
        Some(CallResult::Put(Err(_))) => out.add("non_instances_put_not_sent", 1),
        Some(other) => out.violation(format!("concurrent-lookup/unexpected/{}", KINDS[kind]), format!("{ctx}: {other:?}"), replay.clone()),
        None => out.add("non_instances_pending", 1),
    }
    if w.any_actor_panicked().is_some() {
        out.violation(format!("actor-died/concurrent-lookup/{}", KINDS[kind]), ctx, replay);
    }
}

/// Acknowledgements on a slow network: after the node has seen replies slower than its initial
/// 500 ms timeout, its request timeout has adapted (read from the snapshot); a put whose `n`
/// storers all acknowledge 40 ms before *that* timeout expires - later than the round-trip estimate,
/// earlier than expiry - must report Ok.
fn adaptive_timeout(kind: usize, n: usize, warm: usize, slow_ms: u64, full_table: bool, out: &mut Partial) {
    let silent = 0usize;
    let mut w = World::new(Chooser::default_run());
    let (req, target) = request(kind);
    // n storers and `silent` nodes that never answer (their lookup requests stay in the in-flight
    // table: the sweep over both numbers makes the table exactly full while the writes wait)
    let ids = crate::epnet::ranked_ids(&target, n + silent);
    let mut net = EpNet::new(&mut w, &ids);
    for i in n..n + silent {
        net.eps[i].silent = true;
    }
    net.eps[0].k = 40;
    // only the first three storers are discoverable through the lookup, the others are addressed
    // as extra nodes: the put's writes are then the most requests the node ever had outstanding
    for e in net.eps.iter_mut() {
        e.knows = Some(vec![]);
    }
    let eps = net.addrs();
    let a = w.add_node(NodeCfg::new([9, 9, 9, 9], 7000).bootstrap(&eps[..1]).id([0x21; 20]));
    let mut phase = 0u8; // 0: slow lookups, 1: the put (fast lookup answers, slow acknowledgements)
    let mut ack_latency = 0u64;
    let mut acks_sent = 0usize;
    let pump = |w: &mut World, net: &mut EpNet, ev: &Event, phase: u8, ack_latency: u64, acks_sent: &mut usize| {
        if let Event::EndpointRecv { ep, dgram } = ev {
            let i = net.index_of(*ep).expect("ep");
            let Some(q) = krpc::Krpc::parse(&dgram.bytes) else { return };
            if !q.is_query() {
                return;
            }
            let is_put = matches!(q.q.as_deref(), Some("put") | Some("announce_peer") | Some("announce_signed_peer"));
            if let Some(bytes) = net.honest_reply(i, &q, dgram.from, w.now) {
                let from = net.eps[i].addr;
                let lat = if is_put {
                    *acks_sent += 1;
                    ack_latency
                } else if phase == 0 {
                    slow_ms * MS
                } else {
                    DEFAULT_LATENCY
                };
                w.send_raw_with_latency(from, dgram.from, bytes, lat);
            }
        }
    };
    // slow phase: the bootstrap and six lookups of other targets, every answer takes `slow_ms`.
    // The bootstrap endpoint lists nobody yet, so the node has never had more than a couple of
    // requests outstanding: the put below is then the first time its in-flight table fills up
    // (the socket reclaims timed-out entries only when that table is exactly full).
    net.eps[0].knows = Some(vec![]);
    for k in 0..6u8 {
        let c = w.call_find_node(a, [0x90 + k; 20].into());
        let h = w.now + 60 * SEC;
        w.run_until(h, |w, ev| {
            pump(w, &mut net, ev, phase, ack_latency, &mut acks_sent);
            w.result(c).is_some()
        });
    }
    w.run_for(5 * SEC);
    let snap = w.snapshot(a);
    let timeout = snap.socket.request_timeout.as_nanos() as u64;
    let rtt = snap.socket.estimated_rtt.as_nanos() as u64;
    phase = 1;
    net.eps[0].knows = Some((0..n.min(3)).collect());
    // just inside the current timeout (and later than the round-trip estimate)
    // warm-up: the same target is written once to `warm` storers that acknowledge at once; this
    // fixes the capacity of the in-flight table and leaves the closest nodes cached, so the judged
    // put below sends its writes without a lookup of its own
    if warm > 0 {
        let (req0, _) = request(kind);
        let extra0: Vec<Node> = (1..warm.min(n)).map(|i| node_with_token(ids[i].into(), eps[i], &net.eps[i].token)).collect();
        let p0 = w.call_put_raw(a, req0, if extra0.is_empty() { None } else { Some(extra0.into_boxed_slice()) });
        let h = w.now + 60 * SEC;
        w.run_until(h, |w, ev| {
            pump(w, &mut net, ev, phase, DEFAULT_LATENCY, &mut acks_sent);
            w.result(p0).is_some()
        });
        acks_sent = 0;
        w.run_for(2 * SEC);
    }
    ack_latency = timeout.saturating_sub(40 * MS);
    let extra: Vec<Node> = (1..n).map(|i| node_with_token(ids[i].into(), eps[i], &net.eps[i].token)).collect();
    // (guarded hook: the in-flight table is kept exactly full, the state in which the socket
    // reclaims timed-out entries - and must reclaim nothing that has not timed out)
    w.set_shrink_inflight(a, full_table);
    let put = w.call_put_raw(a, req, if extra.is_empty() { None } else { Some(extra.into_boxed_slice()) });
    let h = w.now + 60 * SEC;
    let debug = std::env::var_os("VERIF_DEBUG").is_some();
    let mut last_dbg = 0u64;
    let mut table_was_full = false;
    let put_at = w.now;
    w.run_until(h, |w, ev| {
        pump(w, &mut net, ev, phase, ack_latency, &mut acks_sent);
        if let Event::Iter { node } = ev {
            if *node == a && w.nodes[a].alive {
                let s = w.snapshot(a);
                // full while the writes are older than the round-trip estimate and not yet expired
                table_was_full |= s.socket.inflight.len() == s.socket.inflight_capacity && w.now > put_at + rtt + 20 * MS && w.now < put_at + ack_latency && !s.socket.inflight.is_empty();
                if debug && (w.now >= last_dbg + 50 * MS || std::env::var_os("VERIF_DEBUG_ALL").is_some()) {
                    last_dbg = w.now;
                    eprintln!("DEBUG n={n} t={}ms inflight={} cap={} unexpired={}", (w.now - T0) / MS, s.socket.inflight.len(), s.socket.inflight_capacity, s.socket.inflight_unexpired);
                }
            }
        }
        w.result(put).is_some()
    });
    if table_was_full {
        out.add("adaptive_timeout_scenarios_with_a_full_inflight_table", 1);
    }
    out.add("executions", 1);
    out.add("adaptive_timeout_scenarios", 1);
    out.add("transitions", w.steps);
    out.gauge_max("adapted_request_timeout_ms", timeout / MS);
    if timeout > 600 * MS {
        out.add("adaptive_timeout_scenarios_with_adapted_timeout", 1);
    }
    let replay = json!({"part": "adaptive-timeout", "kind": kind, "n": n, "warm": warm, "slow_ms": slow_ms, "full_table": full_table});
    match w.result(put) {
        Some(CallResult::Put(Ok(_))) => out.add("ok_results", 1),
        Some(CallResult::Put(Err(e))) if acks_sent > 0 => out.violation(
            format!("adaptive-timeout/error-despite-acks/{}{}", KINDS[kind], if full_table { "/in-flight-table-full" } else { "" }),
            format!("{} put to {n} storers after replies of {slow_ms} ms: request timeout {} ms (round-trip estimate {} ms); all {acks_sent} storers acknowledged after {} ms, before expiry, but the put reports {e:?}", KINDS[kind], timeout / MS, rtt / MS, ack_latency / MS),
            replay.clone(),
        ),
        Some(CallResult::Put(Err(_))) => out.add("non_instances_put_not_sent", 1),
        other => out.violation(format!("adaptive-timeout/no-result/{}", KINDS[kind]), format!("{other:?}"), replay.clone()),
    }
    if w.any_actor_panicked().is_some() {
        out.violation(format!("actor-died/adaptive-timeout/{}", KINDS[kind]), "actor died".to_string(), replay);
    }
}

fn beh_name(b: &Beh) -> String {
    match b {
        Beh::NoToken => "no-token".into(),
        Beh::Ack => "ack".into(),
        Beh::Err(c) => format!("e{c}"),
        Beh::Silent => "silent".into(),
        Beh::LateAck => "late-ack".into(),
        Beh::RoAck => "ro-ack".into(),
    }
}

fn judge(kind: usize, behs: &[Beh], order: usize, sync: bool, o: &Out, out0: &mut Partial) {
    let mut local = Partial::default();
    let out = &mut local;
    let names: Vec<String> = behs.iter().map(beh_name).collect();
    let replay = json!({"part": "small", "kind": kind, "behs": names, "order": order, "sync": sync});
    let ctx = format!("{}{} put, endpoints {names:?}, arrival order #{order}: result {}", if sync { "[blocking Dht API] " } else { "" }, KINDS[kind], o.result);
    let shape = |behs: &[Beh]| {
        // canonical multiset of behaviours (for the finding key)
        let mut v: Vec<String> = behs.iter().map(beh_name).collect();
        v.sort();
        v.join(",")
    };
    if o.actor_died {
        out.violation(format!("actor-died/{}", KINDS[kind]), ctx.clone(), replay.clone());
    }
    if o.pending {
        // a put that never resolves is C06's finding; here it is simply not an instance
        out.add("non_instances_pending", 1);
        out0.merge(local);
        return;
    }
    for wmsg in &o.wrong_writes {
        out.violation(format!("write-target/{}", KINDS[kind]), format!("{ctx}: {wmsg}"), replay.clone());
    }
    if o.ok {
        out.add("ok_results", 1);
        if o.acks_in_time == 0 {
            out.violation(format!("ok-without-ack/{}/{}", KINDS[kind], shape(behs)), format!("{ctx}: Ok although no acknowledgement was delivered in time"), replay.clone());
        } else if o.stored == 0 {
            out.violation(format!("ok-but-nobody-stored/{}", KINDS[kind]), ctx.clone(), replay.clone());
        }
    } else {
        out.add("err_results", 1);
        if o.acks_in_time > 0 && !(o.majority_3xx && o.concurrency) {
            out.violation(
                format!("error-despite-ack/{}/{}", KINDS[kind], shape(behs)),
                format!("{ctx}: {} acknowledgement(s) were delivered in time but the put reports an error", o.acks_in_time),
                replay.clone(),
            );
        }
        if o.concurrency && !o.answered_3xx {
            out.violation(format!("concurrency-error-without-3xx/{}", KINDS[kind]), format!("{ctx}: no endpoint answered 301/302"), replay.clone());
        }
    }
    for v in std::mem::take(&mut local.violations) {
        out0.violation(format!("{}{}", v.key, if sync { "/blocking-api" } else { "" }), v.desc, v.replay);
    }
    local.counts.remove("violations_total");
    out0.merge(local);
}

/// Two overlapping writes to ONE target with different payloads (two announce_peer calls with
/// different ports; announce_peer and announce_signed_peer for one info hash), the second placed
/// before every network event of the first one's lifetime. All storers acknowledge everything,
/// so each call may only report Ok if a storer received - and acknowledged - that call's own
/// payload. Returns the number of network events of the first call's lifetime.
fn overlap(pair: usize, at_event: Option<u32>, out: &mut Partial) -> u32 {
    let mut w = World::new(Chooser::default_run());
    let target: Id20 = [0x3C; 20];
    let ids = crate::epnet::ranked_ids(&target, 2);
    let mut net = EpNet::new(&mut w, &ids);
    let eps = net.addrs();
    let a = w.add_node(NodeCfg::new([9, 9, 9, 9], 7000).bootstrap(&eps[..1]).id([0x21; 20]));
    let a_addr = w.node_addr(a);
    let h = w.now + 3 * SEC;
    w.run_until(h, |w, ev| {
        if let Event::EndpointRecv { ep, dgram } = ev {
            net.handle(w, *ep, dgram);
        }
        false
    });
    let first = PutRequestSpecific::AnnouncePeer(AnnouncePeerRequestArguments { info_hash: target.into(), port: 1111, implied_port: None });
    let second = if pair == 0 {
        PutRequestSpecific::AnnouncePeer(AnnouncePeerRequestArguments { info_hash: target.into(), port: 2222, implied_port: None })
    } else {
        let sk = krpc::signing_key(9);
        let ann = SignedAnnounce::new(&sk, &target.into());
        PutRequestSpecific::AnnounceSignedPeer(AnnounceSignedPeerRequestArguments { info_hash: target.into(), t: ann.timestamp(), k: *ann.key(), sig: *ann.signature() })
    };
    let c1 = w.call_put_raw(a, first, None);
    let mut c2: Option<usize> = None;
    let mut second = Some(second);
    if at_event == Some(0) {
        c2 = Some(w.call_put_raw(a, second.take().expect("second"), None));
    }
    let mut events = 0u32;
    let mut first_events = 0u32;
    let h = w.now + 60 * SEC;
    w.run_until(h, |w, ev| {
        if let Event::EndpointRecv { ep, dgram } = ev {
            net.handle(w, *ep, dgram);
        }
        if matches!(ev, Event::EndpointRecv { .. } | Event::Arrived { .. }) {
            events += 1;
            if w.result(c1).is_none() {
                first_events = events;
            }
            if Some(events) == at_event && second.is_some() {
                c2 = Some(w.call_put_raw(a, second.take().expect("second"), None));
            }
        }
        w.result(c1).is_some() && (at_event.is_none() || c2.map(|c| w.result(c).is_some()).unwrap_or(false))
    });
    out.add("executions", 1);
    out.add("transitions", w.steps);
    let Some(at) = at_event else { return first_events };
    let Some(c2) = c2 else { return first_events };
    out.add("overlapping_pairs", 1);
    let names = ["announce_peer(port 1111)", if pair == 0 { "announce_peer(port 2222)" } else { "announce_signed_peer" }];
    // which payloads did the storers receive (and acknowledge: they acknowledge everything)?
    let got = |port: Option<i128>, q: &str| net.eps.iter().any(|e| e.puts.iter().any(|p| p.from == a_addr && p.q == q && (port.is_none() || p.raw.arg("port").and_then(|x| x.as_int()) == port)));
    let received = [got(Some(1111), "announce_peer"), if pair == 0 { got(Some(2222), "announce_peer") } else { got(None, "announce_signed_peer") }];
    for (i, c) in [c1, c2].iter().enumerate() {
        let replay = json!({"part": "overlap", "pair": pair, "at_event": at});
        match w.result(*c) {
            Some(CallResult::Put(Ok(_))) => {
                out.add("ok_results", 1);
                if !received[i] {
                    out.violation(
                        format!("overlap/ok-without-own-write/{}/{}", if i == 0 { "first" } else { "second" }, if pair == 0 { "announce_peer+announce_peer" } else { "announce_peer+announce_signed_peer" }),
                        format!("{} then {} (queued before network event #{at} of the first): the {} call returned Ok but no storer ever received its payload", names[0], names[1], if i == 0 { "first" } else { "second" }),
                        replay,
                    );
                }
            }
            Some(CallResult::Put(Err(e))) => {
                out.add("err_results", 1);
                if received[i] {
                    out.violation(
                        format!("overlap/error-despite-ack/{}/{}", if i == 0 { "first" } else { "second" }, if pair == 0 { "announce_peer+announce_peer" } else { "announce_peer+announce_signed_peer" }),
                        format!("{} then {} (queued before network event #{at} of the first): the {} call returned {e:?} although storers received and acknowledged its payload", names[0], names[1], if i == 0 { "first" } else { "second" }),
                        replay,
                    );
                }
            }
            other => out.violation("overlap/no-result".to_string(), format!("{} then {} (placement {at}): {other:?}", names[0], names[1]), replay),
        }
    }
    if w.any_actor_panicked().is_some() {
        out.violation("actor-died/overlap".to_string(), "actor thread died".to_string(), json!({"part": "overlap", "pair": pair, "at_event": at}));
    }
    first_events
}

/// extra_nodes mixing a node that carries a token with one that does not (e.g. taken from a
/// find_node result): only the token holder may be written to.
fn extra_mix(kind: usize, out: &mut Partial) {
    let mut w = World::new(Chooser::default_run());
    let (req, target) = request(kind);
    let ids = crate::epnet::ranked_ids(&target, 4);
    let mut net = EpNet::new(&mut w, &ids);
    for e in net.eps.iter_mut() {
        e.knows = Some(vec![0, 1]);
    }
    let eps = net.addrs();
    let a = w.add_node(NodeCfg::new([9, 9, 9, 9], 7000).bootstrap(&eps[..1]).id([0x21; 20]));
    let h = w.now + 3 * SEC;
    w.run_until(h, |w, ev| {
        if let Event::EndpointRecv { ep, dgram } = ev {
            net.handle(w, *ep, dgram);
        }
        false
    });
    let extra = vec![node_with_token(ids[2].into(), eps[2], &net.eps[2].token), Node::new(ids[3].into(), eps[3])];
    let call = w.call_put_raw(a, req, Some(extra.into_boxed_slice()));
    let h = w.now + 60 * SEC;
    w.run_until(h, |w, ev| {
        if let Event::EndpointRecv { ep, dgram } = ev {
            net.handle(w, *ep, dgram);
        }
        w.result(call).is_some()
    });
    out.add("executions", 1);
    out.add("transitions", w.steps);
    let replay = json!({"part": "extra", "kind": kind});
    let res = w.result(call).cloned();
    if !matches!(res, Some(CallResult::Put(Ok(_)))) {
        out.violation(format!("extra/not-ok/{}", KINDS[kind]), format!("{} put with extra nodes: {res:?}", KINDS[kind]), replay.clone());
    }
    for i in 0..3 {
        if net.eps[i].puts.len() != 1 || net.eps[i].puts[0].token != net.eps[i].token {
            out.violation(format!("extra/token-holder-not-written/{}", KINDS[kind]), format!("endpoint {i} holds a token but got {} writes", net.eps[i].puts.len()), replay.clone());
        }
    }
    if !net.eps[3].puts.is_empty() {
        out.violation(
            format!("extra/write-to-tokenless-node/{}", KINDS[kind]),
            format!("{} put: an extra node without a token received a write (token {:?})", KINDS[kind], net.eps[3].puts[0].token),
            replay,
        );
    }
}

/// Large replica sets: `total` addressed nodes = 3 lookup responders + extra nodes.
fn big(total: usize, pattern: usize, out: &mut Partial) {
    let mut w = World::new(Chooser::default_run());
    let kind = 1usize;
    let (req, target) = request(kind);
    let ids = crate::epnet::ranked_ids(&target, total);
    let mut net = EpNet::new(&mut w, &ids);
    // patterns: 0 all ack, 1 one ack (the last), 2 all 301, 3 half 301 / half ack
    for (i, e) in net.eps.iter_mut().enumerate() {
        e.put_reply = match pattern {
            0 => PutReply::Ack,
            1 => {
                if i == total - 1 {
                    PutReply::Ack
                } else {
                    PutReply::Silent
                }
            }
            2 => PutReply::Error(301),
            _ => {
                if i % 2 == 0 {
                    PutReply::Error(301)
                } else {
                    PutReply::Ack
                }
            }
        };
        // only the first three are discoverable through the lookup
        e.knows = Some(vec![0, 1, 2]);
    }
    let eps = net.addrs();
    let a = w.add_node(NodeCfg::new([9, 9, 9, 9], 7000).bootstrap(&eps[..1]).id([0x21; 20]));
    let h = w.now + 3 * SEC;
    w.run_until(h, |w, ev| {
        if let Event::EndpointRecv { ep, dgram } = ev {
            net.handle(w, *ep, dgram);
        }
        false
    });
    let extra: Vec<Node> = (3..total).map(|i| node_with_token(ids[i].into(), eps[i], &net.eps[i].token)).collect();
    let call = w.call_put_raw(a, req, Some(extra.into_boxed_slice()));
    let h = w.now + 60 * SEC;
    w.run_until(h, |w, ev| {
        if let Event::EndpointRecv { ep, dgram } = ev {
            net.handle(w, *ep, dgram);
        }
        w.result(call).is_some()
    });
    let res = w.result(call).cloned();
    let written: usize = net.eps.iter().filter(|e| !e.puts.is_empty()).count();
    let acks = net.eps.iter().filter(|e| !e.puts.is_empty() && e.put_reply == PutReply::Ack).count();
    let n301 = net.eps.iter().filter(|e| !e.puts.is_empty() && e.put_reply == PutReply::Error(301)).count();
    out.add("executions", 1);
    out.add("transitions", w.steps);
    let names = ["all-ack", "one-ack", "all-301", "half-301-half-ack"];
    let ctx = format!("mutable put to {total} addressed nodes ({}), {written} received the write, {acks} acked, {n301} answered 301: result {res:?}", names[pattern]);
    let replay = json!({"part": "big", "total": total, "pattern": pattern});
    out.outcomes.insert(format!("big:{}:{}", names[pattern], matches!(res, Some(CallResult::Put(Ok(_))))));
    if written != total {
        out.violation(format!("big/not-all-addressed/{total}"), ctx.clone(), replay.clone());
    }
    match res {
        Some(CallResult::Put(Ok(_))) => {
            if acks == 0 {
                out.violation(format!("big/ok-without-ack/{}", names[pattern]), ctx, replay);
            }
        }
        Some(CallResult::Put(Err(e))) => {
            let majority = n301 >= written / 2 + 1;
            if acks > 0 && !(majority && e.is_concurrency()) {
                out.violation(format!("big/error-despite-acks/{}/{total}", names[pattern]), ctx, replay);
            } else if e.is_concurrency() && n301 == 0 {
                out.violation(format!("big/concurrency-without-3xx/{}", names[pattern]), ctx, replay);
            }
        }
        other => out.violation(format!("big/no-result/{}", names[pattern]), format!("{ctx} ({other:?})"), replay),
    }
}

/// Two puts (different targets) whose lookups end in the same loop iteration: for T1 only
/// storers 0 and 1 answer the lookup, for T2 only storers 2 and 3, storer 4 answers neither, so
/// both lookups end when their requests to the silent storers expire together. Each write goes to
/// the nodes that answered *its own* lookup and to nobody else.
fn two_puts_one_tick(swap: bool, kind_pair: usize, out: &mut Partial) {
    let mut w = World::new(Chooser::default_run());
    let vals: [&[u8]; 2] = if swap { [b"c08 second value", b"c08 first value"] } else { [b"c08 first value", b"c08 second value"] };
    let t = [krpc::immutable_target(vals[0]), krpc::immutable_target(vals[1])];
    let ids = crate::epnet::ranked_ids(&t[0], 5);
    let mut net = EpNet::new(&mut w, &ids);
    let eps = net.addrs();
    let a = w.add_node(NodeCfg::new([9, 9, 9, 9], 7000).bootstrap(&eps).id([0x21; 20]));
    let pump = |w: &mut World, net: &mut EpNet, ev: &Event| {
        if let Event::EndpointRecv { ep, dgram } = ev {
            let i = net.index_of(*ep).expect("ep");
            let Some(q) = krpc::Krpc::parse(&dgram.bytes) else { return };
            if !q.is_query() {
                return;
            }
            let is_put = q.q.as_deref() == Some("put");
            if !is_put {
                if q.query_target() == Some(t[0]) && i > 1 {
                    return;
                }
                if q.query_target() == Some(t[1]) && !(i == 2 || i == 3) {
                    return;
                }
            }
            net.handle(w, *ep, dgram);
        }
    };
    let h = w.now + 3 * SEC;
    w.run_until(h, |w, ev| {
        pump(w, &mut net, ev);
        false
    });
    let calls: Vec<usize> = if kind_pair == 0 {
        vec![w.call_put_immutable(a, vals[0].to_vec()), w.call_put_immutable(a, vals[1].to_vec())]
    } else {
        // the second write is a lookup-only call: nothing of it may be written anywhere
        vec![w.call_put_immutable(a, vals[0].to_vec()), w.call_get_immutable(a, t[1].into())]
    };
    let mut both_pending = false;
    let mut ended_together = false;
    let h = w.now + 60 * SEC;
    loop {
        if calls.iter().all(|c| w.result(*c).is_some()) {
            break;
        }
        let Some(ev) = w.step(h) else { break };
        pump(&mut w, &mut net, &ev);
        if let Event::Iter { node } = &ev {
            if *node == a && !ended_together {
                let s = w.snapshot(a);
                let pending = s.core.iterative_queries.iter().filter(|q| *q.target.as_bytes() == t[0] || *q.target.as_bytes() == t[1]).count();
                if pending == 2 {
                    both_pending = true;
                } else if both_pending && pending == 0 {
                    ended_together = true;
                } else if pending == 1 {
                    both_pending = false;
                }
            }
        }
    }
    w.run_for(2 * SEC);
    out.add("executions", 1);
    out.add("transitions", w.steps);
    out.add("two_lookups_ended_in_one_iteration", ended_together as u64);
    let replay = json!({"part": "two-puts", "swap": swap, "kind_pair": kind_pair});
    let ctx = format!("two calls issued back to back ({}), their lookups answered by disjoint pairs of storers and ending {}in one loop iteration", if kind_pair == 0 { "put_immutable + put_immutable" } else { "put_immutable + get_immutable of another target" }, if ended_together { "" } else { "NOT " });
    for (vi, v) in vals.iter().enumerate() {
        let allowed: &[usize] = if vi == 0 { &[0, 1] } else { &[2, 3] };
        let got: Vec<usize> = net.eps.iter().enumerate().filter(|(_, e)| e.puts.iter().any(|p| p.raw.arg_bytes("v") == Some(*v))).map(|(i, _)| i).collect();
        if got.iter().any(|i| !allowed.contains(i)) {
            out.violation("write-sent-to-a-node-that-did-not-answer-its-lookup/two-lookups-end-in-one-iteration", format!("{ctx}: the write of value #{vi} reached storers {got:?}, its lookup was answered by {allowed:?}"), replay.clone());
        }
        if kind_pair == 0 || vi == 0 {
            if got.is_empty() {
                out.violation("write-never-sent/two-lookups-end-in-one-iteration", format!("{ctx}: the write of value #{vi} reached no storer although {allowed:?} answered its lookup with a token"), replay.clone());
            }
            match w.result(calls[vi]) {
                Some(CallResult::Put(Ok(_))) => out.add("ok_results", 1),
                other => out.violation("put-result/two-lookups-end-in-one-iteration", format!("{ctx}: put #{vi} returned {other:?} although storers {allowed:?} answered its lookup and acknowledge"), replay.clone()),
            }
        }
    }
}

fn run(tier: Tier, shard: usize, nshards: usize, _seed: u64) -> Partial {
    let mut out = Partial::default();
    let max_n = if tier.is_quick() { 3 } else { 4 };
    let mut idx = 0usize;
    // determinism self-check on one scenario
    if shard == 0 {
        let a = scenario(1, &[Beh::Ack, Beh::Err(301), Beh::Silent], 1, true, false);
        let b = scenario(1, &[Beh::Ack, Beh::Err(301), Beh::Silent], 1, true, false);
        assert!(a.result == b.result && a.steps == b.steps && a.digests.len() == b.digests.len(), "MACHINERY: scenario is not deterministic");
    }
    for n in 1..=max_n {
        let combos = BEHS.len().pow(n as u32);
        let orders: usize = (1..=n).product();
        for kind in 0..4 {
            for c in 0..combos {
                let behs: Vec<Beh> = (0..n).map(|i| BEHS[(c / BEHS.len().pow(i as u32)) % BEHS.len()]).collect();
                // arrival order only matters among endpoints that answer the write in time
                let answering = behs.iter().filter(|b| matches!(b, Beh::Ack | Beh::Err(_))).count();
                for order in 0..orders {
                    if answering < 2 && order > 0 {
                        continue;
                    }
                    if n == 4 && order % 5 != 0 && !(kind == 1) {
                        // N=4: all 24 orders for the mutable kind (where order decides), a stride otherwise
                        continue;
                    }
                    idx += 1;
                    if idx % nshards != shard {
                        continue;
                    }
                    let track = idx % 16 == shard % 16;
                    if order == 0 && n <= 3 {
                        // the same put through the blocking API
                        let o = scenario(kind, &behs, order, false, true);
                        out.add("executions", 1);
                        out.add("blocking_api_executions", 1);
                        out.add("transitions", o.steps);
                        judge(kind, &behs, order, true, &o, &mut out);
                    }
                    let o = scenario(kind, &behs, order, track, false);
                    out.add("executions", 1);
                    out.add("transitions", o.steps);
                    out.digests.extend(o.digests.iter());
                    out.gauge_max("max_completion_ms", o.completion_ms);
                    out.outcomes.insert(format!("{}:{}:acks{}:maj3xx{}", KINDS[kind], o.result, o.acks_in_time.min(2), o.majority_3xx));
                    if o.contacted > 0 {
                        out.add("writes_sent", 1);
                    }
                    judge(kind, &behs, order, false, &o, &mut out);
                }
            }
        }
    }
    // large replica sets
    let bigs: Vec<(usize, usize)> = [255usize, 256, 257, 300].iter().flat_map(|t| (0..4).map(move |p| (*t, p))).collect();
    for (i, (total, pattern)) in bigs.iter().enumerate() {
        if i % nshards == shard {
            big(*total, *pattern, &mut out);
        }
    }
    for kind in 0..4 {
        if kind % nshards == shard {
            extra_mix(kind, &mut out);
        }
    }
    for pair in 0..2usize {
        if pair % nshards != shard {
            continue;
        }
        let n = overlap(pair, None, &mut out);
        for at in 0..=n {
            overlap(pair, Some(at), &mut out);
        }
    }
    // ---- acknowledgements on a slow network (adapted request timeout)
    for kind in [0usize, 1] {
        // (many counts: the socket reclaims timed-out entries only when its in-flight table is
        // exactly full; whether that is met is reported as a counter, not demanded)
        for n in 1usize..=24 {
            for (warm, slow_ms, full_table) in [(0usize, 600u64, false), (0, 800, false), (5, 800, false), (0, 600, true), (0, 800, true)] {
                idx += 1;
                if idx % nshards == shard {
                    adaptive_timeout(kind, n, warm, slow_ms, full_table, &mut out);
                }
            }
        }
    }
    // ---- a put in its store phase and another lookup of the same target
    for kind in 0..4 {
        for lookup_end in 0..4 {
            for second in 0..3 {
                idx += 1;
                if idx % nshards == shard {
                    concurrent_lookup(kind, lookup_end, second, &mut out);
                }
            }
        }
    }
    for swap in [false, true] {
        for kind_pair in 0..2 {
            idx += 1;
            if idx % nshards == shard {
                two_puts_one_tick(swap, kind_pair, &mut out);
            }
        }
    }
    out.witness("a put returned Ok", out.count("ok_results") > 0);
    out.witness("a put returned an error", out.count("err_results") > 0);
    out.sample(json!({"kind": "mutable", "endpoints": ["ack", "e301", "e301"], "arrival_order": 2, "oracle": "Ok or (majority 301 => CasFailed)"}));
    out.sample(json!({"kind": "mutable", "addressed": 256, "pattern": "all-ack", "via": "extra_nodes"}));
    out
}

fn parse_beh(s: &str) -> Option<Beh> {
    Some(match s {
        "no-token" => Beh::NoToken,
        "ack" => Beh::Ack,
        "silent" => Beh::Silent,
        "late-ack" => Beh::LateAck,
        "ro-ack" => Beh::RoAck,
        e => Beh::Err(e.strip_prefix('e')?.parse().ok()?),
    })
}

fn replay(v: &Value) -> Result<Option<Violation>, String> {
    let mut out = Partial::default();
    if v.get("part").and_then(|p| p.as_str()) == Some("extra") {
        extra_mix(v.get("kind").and_then(|x| x.as_u64()).ok_or("kind")? as usize, &mut out);
    } else if v.get("part").and_then(|p| p.as_str()) == Some("two-puts") {
        two_puts_one_tick(v.get("swap").and_then(|x| x.as_bool()).unwrap_or(false), v.get("kind_pair").and_then(|x| x.as_u64()).unwrap_or(0) as usize, &mut out);
    } else if v.get("part").and_then(|p| p.as_str()) == Some("overlap") {
        overlap(v.get("pair").and_then(|x| x.as_u64()).ok_or("pair")? as usize, Some(v.get("at_event").and_then(|x| x.as_u64()).ok_or("at_event")? as u32), &mut out);
    } else if v.get("part").and_then(|p| p.as_str()) == Some("adaptive-timeout") {
        let g = |k: &str| v.get(k).and_then(|x| x.as_u64());
        adaptive_timeout(g("kind").ok_or("kind")? as usize, g("n").ok_or("n")? as usize, g("warm").unwrap_or(0) as usize, g("slow_ms").ok_or("slow_ms")?, v.get("full_table").and_then(|x| x.as_bool()).unwrap_or(false), &mut out);
    } else if v.get("part").and_then(|p| p.as_str()) == Some("concurrent-lookup") {
        let g = |k: &str| v.get(k).and_then(|x| x.as_u64()).map(|x| x as usize);
        concurrent_lookup(g("kind").ok_or("kind")?, g("lookup_end").ok_or("lookup_end")?, g("second").ok_or("second")?, &mut out);
    } else if v.get("part").and_then(|p| p.as_str()) == Some("big") {
        big(v.get("total").and_then(|x| x.as_u64()).ok_or("total")? as usize, v.get("pattern").and_then(|x| x.as_u64()).ok_or("pattern")? as usize, &mut out);
    } else {
        let kind = v.get("kind").and_then(|x| x.as_u64()).ok_or("kind")? as usize;
        let order = v.get("order").and_then(|x| x.as_u64()).ok_or("order")? as usize;
        let behs: Vec<Beh> = v.get("behs").and_then(|b| b.as_array()).ok_or("behs")?.iter().filter_map(|x| x.as_str().and_then(parse_beh)).collect();
        let sync = v.get("sync").and_then(|x| x.as_bool()).unwrap_or(false);
        let o = scenario(kind, &behs, order, false, sync);
        judge(kind, &behs, order, sync, &o, &mut out);
    }
    Ok(out.violations.into_iter().next())
}
