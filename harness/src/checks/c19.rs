//! C19 - node-id arithmetic: XOR metric, hex parsing, BEP42 secure ids.
//! Engine E3: bounded-exhaustive input enumeration against independent references.

use std::net::Ipv4Addr;
use std::str::FromStr;

use dht::Id;
use serde_json::{json, Value};

use super::{catch, par_local, quiet, CheckDef};
use crate::krpc::{bep42_id, bep42_valid, xor, Id20};
use crate::report::{hex, CheckInfo, Partial, Tier, Violation};

pub fn def() -> CheckDef {
    CheckDef {
        id: "C19",
        info,
        shards: |_| 1,
        run,
        replay,
    }
}

fn info(tier: Tier) -> CheckInfo {
    CheckInfo {
        id: "C19",
        level: "exploration",
        rule: format!(
            "Exhaustive enumeration (tier {}): distance over every first-differing-bit position 0..159 plus equality x 11 tail fills x both argument orders, and all (pa,pb) position pairs for XOR-order consistency; from_bytes for every length 0..41; from_str over all strings of length <=4 from 14 character classes plus every string within {} edits of a valid 40-digit hex string; BEP42 over all 2^20 masked-IP values x {} values of r with two fills of the unmasked IP bits, each checked on the valid id and on single-bit flips inside/outside the 21-bit prefix, against an independent bitwise CRC32C; every boundary of the exempt ranges. A case is non-trivial/distinct when it is a distinct input tuple; inputs are generated without repetition.",
            tier.name(),
            if tier.is_quick() { "1 (and a 2-edit subset)" } else { "2" },
            if tier.is_quick() { "24 (the 8 effective ones + 16 others)" } else { "all 256" },
        ),
        assumptions: vec![
            "IPv4 only".into(),
            "reference CRC32C is the bitwise Castagnoli polynomial 0x82F63B78 (reflected)".into(),
            "random ids outside the enumerated classes are represented by 11 structured tail fills".into(),
        ],
    }
}

const FILLS: [u8; 11] = [0x00, 0xff, 0x55, 0xaa, 0x0f, 0xf0, 0x01, 0x80, 0x7f, 0xfe, 0x3c];

fn id_from(bytes: &Id20) -> Id {
    Id::from_bytes(bytes).expect("20 bytes")
}

fn flip(id: &Id20, bit: usize) -> Id20 {
    let mut r = *id;
    r[bit / 8] ^= 0x80 >> (bit % 8);
    r
}

/// b = a with bit `p` flipped and every later bit taken from `tail`.
fn differ_at(a: &Id20, p: usize, tail: u8) -> Id20 {
    let mut b = *a;
    for bit in p..160 {
        let t = (tail >> (7 - bit % 8)) & 1;
        let cur = (b[bit / 8] >> (7 - bit % 8)) & 1;
        let want = if bit == p { cur ^ 1 } else { t };
        if cur != want {
            b[bit / 8] ^= 0x80 >> (bit % 8);
        }
    }
    b
}

fn common_prefix(a: &Id20, b: &Id20) -> usize {
    for bit in 0..160 {
        if (a[bit / 8] ^ b[bit / 8]) & (0x80 >> (bit % 8)) != 0 {
            return bit;
        }
    }
    160
}

fn check_distance(out: &mut Partial) {
    for &fa in &FILLS {
        let a = [fa; 20];
        // equality
        let ia = id_from(&a);
        out.add("evaluations", 1);
        if ia.distance(&ia) != 0 {
            out.violation(
                "distance/self-nonzero",
                "distance(a,a) != 0",
                json!({"kind":"distance","a":hex(&a),"b":hex(&a)}),
            );
        }
        for p in 0..160 {
            for &tail in &FILLS {
                let b = differ_at(&a, p, tail);
                let (ia, ib) = (id_from(&a), id_from(&b));
                let expect = (160 - common_prefix(&a, &b)) as u8;
                debug_assert_eq!(common_prefix(&a, &b), p);
                out.add("evaluations", 2);
                let d1 = ia.distance(&ib);
                let d2 = ib.distance(&ia);
                if d1 != expect || d2 != expect || d1 == 0 {
                    out.violation(
                        "distance/prefix-length",
                        format!("distance={d1}/{d2}, expected {expect} (first differing bit {p})"),
                        json!({"kind":"distance","a":hex(&a),"b":hex(&b)}),
                    );
                }
                // xor must agree with the reference
                if *ia.xor(&ib).as_bytes() != xor(&a, &b) {
                    out.violation(
                        "distance/xor",
                        "xor differs from byte-wise xor",
                        json!({"kind":"distance","a":hex(&a),"b":hex(&b)}),
                    );
                }
            }
        }
    }
    // Order consistency: closer in byte-wise XOR order => distance not larger.
    let t = [0x5au8; 20];
    let it = id_from(&t);
    for pa in 0..160 {
        for pb in 0..160 {
            for &(ta, tb) in &[(0x00u8, 0xffu8), (0xff, 0x00), (0x55, 0xaa), (0x33, 0x33)] {
                let a = differ_at(&t, pa, ta);
                let b = differ_at(&t, pb, tb);
                out.add("evaluations", 1);
                let xa = xor(&t, &a);
                let xb = xor(&t, &b);
                let (da, db) = (it.distance(&id_from(&a)), it.distance(&id_from(&b)));
                let bad = (xa < xb && da > db) || (xa > xb && da < db) || (xa == xb && da != db);
                if bad {
                    out.violation(
                        "distance/order-consistency",
                        format!("xor order and distance disagree: pa={pa} pb={pb} da={da} db={db}"),
                        json!({"kind":"order","t":hex(&t),"a":hex(&a),"b":hex(&b)}),
                    );
                }
            }
        }
    }
    out.sample(json!({"kind":"distance","a":hex(&[0x55u8;20]),"b":hex(&differ_at(&[0x55u8;20], 77, 0xf0)),"expected":83}));
}

fn check_from_bytes(out: &mut Partial) {
    for len in 0..=41usize {
        for &f in &[0u8, 0xff, 0x61] {
            let v = vec![f; len];
            out.add("evaluations", 1);
            let r = quiet(|| catch(|| Id::from_bytes(&v)));
            match r {
                Err(p) => out.violation(
                    "from_bytes/panic",
                    format!("from_bytes panicked on length {len}: {p}"),
                    json!({"kind":"from_bytes","bytes":hex(&v)}),
                ),
                Ok(res) => {
                    if res.is_ok() != (len == 20) {
                        out.violation(
                            "from_bytes/length",
                            format!("from_bytes(len {len}) -> ok={}", res.is_ok()),
                            json!({"kind":"from_bytes","bytes":hex(&v)}),
                        );
                    } else if let Ok(id) = res {
                        if id.as_bytes().as_slice() != v.as_slice() {
                            out.violation(
                                "from_bytes/value",
                                "from_bytes changed the bytes",
                                json!({"kind":"from_bytes","bytes":hex(&v)}),
                            );
                        }
                    }
                }
            }
        }
    }
}

const ALPHABET: [&str; 14] = [
    "0", "9", "a", "f", "A", "F", "g", "+", "-", " ", "\0", "é", "€", "😀",
];

fn is_exact_hex40(s: &str) -> bool {
    s.len() == 40 && s.bytes().all(|b| b.is_ascii_hexdigit())
}

/// Which class a failing string falls in (for the violation key).
fn parse_class(s: &str) -> &'static str {
    if !s.is_ascii() {
        "non-ascii"
    } else if s.contains('+') || s.contains('-') {
        "sign"
    } else if s.contains(' ') || s.contains('\0') {
        "whitespace-or-nul"
    } else if s.len() != 40 {
        "length"
    } else {
        "other"
    }
}

fn check_parse_one(s: &str, out: &mut Partial) {
    out.add("evaluations", 1);
    let r = quiet(|| catch(|| Id::from_str(s)));
    let expect_ok = is_exact_hex40(s);
    match r {
        Err(p) => out.violation(
            format!("from_str/panic/{}", parse_class(s)),
            format!("Id::from_str panicked on {s:?}: {p}"),
            json!({"kind":"from_str","s":s}),
        ),
        Ok(res) => {
            if res.is_ok() != expect_ok {
                out.violation(
                    format!(
                        "from_str/{}/{}",
                        if expect_ok { "rejects-valid" } else { "accepts-invalid" },
                        parse_class(s)
                    ),
                    format!("Id::from_str({s:?}) -> ok={} but expected ok={expect_ok}", res.is_ok()),
                    json!({"kind":"from_str","s":s}),
                );
            } else if let Ok(id) = res {
                let shown = id.to_string();
                if shown != s.to_ascii_lowercase() || Id::from_str(&shown).ok() != Some(id) {
                    out.violation(
                        "from_str/roundtrip",
                        format!("Display/FromStr round trip broken for {s:?}: {shown:?}"),
                        json!({"kind":"from_str","s":s}),
                    );
                }
                out.add("parse_ok", 1);
            }
        }
    }
}

fn edits(base: &str) -> Vec<String> {
    let chars: Vec<char> = base.chars().collect();
    let mut v = vec![];
    for i in 0..=chars.len() {
        for a in ALPHABET {
            // insert
            let mut s: String = chars[..i].iter().collect();
            s.push_str(a);
            s.extend(chars[i..].iter());
            v.push(s);
            // substitute
            if i < chars.len() {
                let mut s: String = chars[..i].iter().collect();
                s.push_str(a);
                s.extend(chars[i + 1..].iter());
                v.push(s);
            }
        }
        if i < chars.len() {
            let mut s: String = chars[..i].iter().collect();
            s.extend(chars[i + 1..].iter());
            v.push(s);
        }
    }
    v
}

fn check_parsing(tier: Tier, chunk: usize, chunks: usize, out: &mut Partial) {
    // all strings of length <= 4 over the alphabet
    let mut idx = 0usize;
    for len in 0..=4usize {
        let total = ALPHABET.len().pow(len as u32);
        for n in 0..total {
            idx += 1;
            if idx % chunks != chunk {
                continue;
            }
            let mut s = String::new();
            let mut m = n;
            for _ in 0..len {
                s.push_str(ALPHABET[m % ALPHABET.len()]);
                m /= ALPHABET.len();
            }
            check_parse_one(&s, out);
        }
    }
    // neighbourhood of valid strings
    let bases = [
        "0123456789abcdef0123456789abcdef01234567",
        "FFFFFFFFFFFFFFFFFFFFFFFFFFFFFFFFFFFFFFFF",
        "0639A1E24FBB8AB277DF033476AB0DE10FAB3BDC",
    ];
    for (bi, base) in bases.iter().enumerate() {
        if chunk == 0 {
            check_parse_one(base, out);
        }
        let one = edits(base);
        for (i, s) in one.iter().enumerate() {
            if i % chunks == chunk {
                check_parse_one(s, out);
            }
        }
        // second edit: all of them for the first base in thorough, a stride otherwise
        let stride = if tier.is_quick() { 23 } else { 1 };
        if bi == 0 || !tier.is_quick() {
            for (i, s) in one.iter().enumerate() {
                if i % chunks != chunk || (i / chunks) % stride != 0 {
                    continue;
                }
                for s2 in edits(s) {
                    check_parse_one(&s2, out);
                }
            }
        }
    }
    // 40-char strings made of "sign + digit" pairs and friends
    if chunk == 0 {
        for pair in ["+f", "+0", "-0", "-f", "0x", " f", "f ", "0g"] {
            check_parse_one(&pair.repeat(20), out);
        }
    }
}

fn deposit(mask: u32, mut bits: u32) -> u32 {
    // scatter the low bits of `bits` into the set positions of `mask` (low to high)
    let mut out = 0u32;
    let mut m = mask;
    while m != 0 {
        let low = m & m.wrapping_neg();
        if bits & 1 != 0 {
            out |= low;
        }
        bits >>= 1;
        m &= m - 1;
    }
    out
}

const MASK: u32 = 0x030f_3fff;

fn check_bep42(tier: Tier, chunk: usize, chunks: usize, out: &mut Partial) {
    let rs: Vec<u8> = if tier.is_quick() {
        let mut v: Vec<u8> = (0..8).collect();
        v.extend([8, 9, 15, 16, 31, 32, 63, 64, 127, 128, 129, 200, 248, 249, 254, 255]);
        v
    } else {
        (0..=255).collect()
    };
    let fills_ip: [u32; 2] = [0x5000_0000 & !MASK, 0xC8F0_C000 & !MASK];
    let idfill: Id20 = [
        0xa5, 0x5a, 0x07, 0x11, 0x22, 0x33, 0x44, 0x55, 0x66, 0x77, 0x88, 0x99, 0xaa, 0xbb, 0xcc,
        0xdd, 0xee, 0xff, 0x12, 0x00,
    ];
    let outside_bits = [21usize, 22, 23, 24, 100, 151];
    for m in 0..(1u32 << 20) {
        if (m as usize) % chunks != chunk {
            continue;
        }
        let masked = deposit(MASK, m);
        for (fi, f) in fills_ip.iter().enumerate() {
            let ip = Ipv4Addr::from(masked | f);
            for &r in &rs {
                let id = bep42_id(ip, &idfill, r);
                debug_assert!(bep42_valid(&id, ip));
                out.add("evaluations", 1);
                if !id_from(&id).is_valid_for_ip(ip) {
                    out.violation(
                        "bep42/valid-id-rejected",
                        format!("is_valid_for_ip false for the reference-valid id, ip={ip} r={r}"),
                        json!({"kind":"bep42","ip":ip.to_string(),"id":hex(&id)}),
                    );
                }
                // bit flips: on the first fill, the 8 effective r values and a stride of masks
                // in quick; everything with r < 8 in thorough.
                let do_flips = fi == 0 && r < 8 && (!tier.is_quick() || m % 64 == (r as u32));
                if do_flips {
                    for bit in 0..21 {
                        let bad = flip(&id, bit);
                        out.add("evaluations", 1);
                        if id_from(&bad).is_valid_for_ip(ip) != bep42_valid(&bad, ip) {
                            out.violation(
                                "bep42/prefix-bit-flip",
                                format!("prefix bit {bit} flipped but verdict differs from reference, ip={ip}"),
                                json!({"kind":"bep42","ip":ip.to_string(),"id":hex(&bad)}),
                            );
                        }
                    }
                    for &bit in &outside_bits {
                        let same = flip(&id, bit);
                        out.add("evaluations", 1);
                        if !id_from(&same).is_valid_for_ip(ip) {
                            out.violation(
                                "bep42/outside-bit-flip",
                                format!("bit {bit} outside the prefix flipped and the id became invalid, ip={ip}"),
                                json!({"kind":"bep42","ip":ip.to_string(),"id":hex(&same)}),
                            );
                        }
                    }
                }
            }
            // from_ipv4 (draws from the harness-owned rng)
            if m % 16 == 3 || !tier.is_quick() {
                out.add("evaluations", 1);
                let id = Id::from_ipv4(ip);
                if !id.is_valid_for_ip(ip) || !bep42_valid(id.as_bytes(), ip) {
                    out.violation(
                        "bep42/from_ipv4-invalid",
                        format!("Id::from_ipv4({ip}) is not valid for that ip"),
                        json!({"kind":"from_ipv4","ip":ip.to_string(),"id":hex(id.as_bytes())}),
                    );
                }
            }
        }
    }
    if chunk == 0 {
        // exempt-range boundaries with ids that are certainly not secure
        let edges: [[u8; 4]; 22] = [
            [9, 255, 255, 255], [10, 0, 0, 0], [10, 255, 255, 255], [11, 0, 0, 0],
            [126, 255, 255, 255], [127, 0, 0, 0], [127, 0, 0, 1], [127, 255, 255, 255], [128, 0, 0, 0],
            [169, 253, 255, 255], [169, 254, 0, 0], [169, 254, 255, 255], [169, 255, 0, 0],
            [172, 15, 255, 255], [172, 16, 0, 0], [172, 31, 255, 255], [172, 32, 0, 0],
            [192, 167, 255, 255], [192, 168, 0, 0], [192, 168, 255, 255], [192, 169, 0, 0],
            [0, 0, 0, 0],
        ];
        let more: [[u8; 4]; 10] = [[0, 0, 0, 1], [255, 255, 255, 255], [224, 0, 0, 1], [240, 0, 0, 1], [100, 64, 0, 1], [192, 0, 2, 1], [198, 18, 0, 1], [172, 200, 1, 1], [1, 1, 1, 1], [255, 255, 255, 254]];
        for e in edges.iter().chain(more.iter()) {
            // an id made for an address is valid for it - at the boundary addresses too
            let ip = Ipv4Addr::from(*e);
            for draw in 0..16 {
                out.add("evaluations", 1);
                let id = Id::from_ipv4(ip);
                if !id.is_valid_for_ip(ip) || !bep42_valid(id.as_bytes(), ip) {
                    out.violation(
                        "bep42/from_ipv4-invalid/boundary-address",
                        format!("Id::from_ipv4({ip}) (draw {draw}) is not valid for that ip"),
                        json!({"kind":"from_ipv4","ip":ip.to_string(),"id":hex(id.as_bytes())}),
                    );
                }
            }
        }
        for e in edges.iter().chain(more.iter()).copied() {
            let ip = Ipv4Addr::from(e);
            for &f in &FILLS {
                for r in [0u8, 1, 7, 0x55] {
                    let mut id = [f; 20];
                    id[19] = r;
                    for cand in [id, bep42_id(ip, &id, r)] {
                        out.add("evaluations", 1);
                        let got = id_from(&cand).is_valid_for_ip(ip);
                        let want = bep42_valid(&cand, ip);
                        if got != want {
                            out.violation(
                                "bep42/exempt-ranges",
                                format!("is_valid_for_ip({ip}) = {got}, reference {want}"),
                                json!({"kind":"bep42","ip":ip.to_string(),"id":hex(&cand)}),
                            );
                        }
                    }
                }
            }
        }
        out.sample(json!({"kind":"bep42","ip":"80.1.2.3","r":5,"id":hex(&bep42_id(Ipv4Addr::new(80,1,2,3), &idfill, 5))}));
    }
}

fn run(tier: Tier, _shard: usize, _n: usize, _seed: u64) -> Partial {
    let chunks = super::cores();
    let mut merged = par_local(chunks, |chunk, chunks| {
        let mut out = Partial::default();
        if chunk == 0 {
            check_distance(&mut out);
            check_from_bytes(&mut out);
        }
        check_parsing(tier, chunk, chunks, &mut out);
        check_bep42(tier, chunk, chunks, &mut out);
        out
    });
    merged.sample(json!({"kind":"from_str","s":"+f".repeat(20)}));
    merged.sample(json!({"kind":"from_str","s":"0€"}));
    let ev = merged.count("evaluations");
    merged.add("distinct_nontrivial", ev);
    let ok = merged.count("parse_ok");
    merged.witness("some strings parse successfully", ok > 0);
    merged
}

fn replay(v: &Value) -> Result<Option<Violation>, String> {
    crate::sim::install_env();
    crate::sim::enter_local(crate::sim::T0, 1);
    let mut out = Partial::default();
    let get = |k: &str| v.get(k).and_then(|x| x.as_str()).map(|s| s.to_string());
    let getid = |k: &str| -> Result<Id20, String> {
        let b = crate::report::unhex(&get(k).ok_or("missing field")?).ok_or("hex")?;
        b.try_into().map_err(|_| "id length".to_string())
    };
    match get("kind").as_deref() {
        Some("from_str") => check_parse_one(&get("s").ok_or("s")?, &mut out),
        Some("from_bytes") => {
            let b = crate::report::unhex(&get("bytes").ok_or("bytes")?).ok_or("hex")?;
            let r = quiet(|| catch(|| Id::from_bytes(&b)));
            if r.is_err() || r.as_ref().map(|x| x.is_ok()).unwrap_or(false) != (b.len() == 20) {
                out.violation("from_bytes", "from_bytes misbehaves", v.clone());
            }
        }
        Some("distance") => {
            let (a, b) = (getid("a")?, getid("b")?);
            let want = (160 - common_prefix(&a, &b)) as u8;
            let got = id_from(&a).distance(&id_from(&b));
            if got != want || id_from(&b).distance(&id_from(&a)) != want {
                out.violation("distance", format!("distance {got} != {want}"), v.clone());
            }
        }
        Some("order") => {
            let (t, a, b) = (getid("t")?, getid("a")?, getid("b")?);
            let (da, db) = (
                id_from(&t).distance(&id_from(&a)),
                id_from(&t).distance(&id_from(&b)),
            );
            let (xa, xb) = (xor(&t, &a), xor(&t, &b));
            if (xa < xb && da > db) || (xa > xb && da < db) {
                out.violation("order", "order inconsistency", v.clone());
            }
        }
        Some("bep42") => {
            let ip: Ipv4Addr = get("ip").ok_or("ip")?.parse().map_err(|_| "ip")?;
            let id = getid("id")?;
            if id_from(&id).is_valid_for_ip(ip) != bep42_valid(&id, ip) {
                out.violation("bep42", "is_valid_for_ip differs from reference", v.clone());
            }
        }
        Some("from_ipv4") => {
            let ip: Ipv4Addr = get("ip").ok_or("ip")?.parse().map_err(|_| "ip")?;
            for _ in 0..64 {
                let id = Id::from_ipv4(ip);
                if !bep42_valid(id.as_bytes(), ip) {
                    out.violation("from_ipv4", "from_ipv4 produced an invalid id", v.clone());
                }
            }
        }
        _ => return Err("unknown replay kind".into()),
    }
    Ok(out.violations.into_iter().next())
}
