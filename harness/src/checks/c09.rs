//! C09 - only the addressed peer can answer a request, once.
//! Engine E1: a real node running a lookup and a put over three scripted endpoints while an
//! adversary injects messages; differential oracle against the run without injection.

use std::net::{Ipv4Addr, SocketAddrV4};

use serde_json::{json, Value};

use super::CheckDef;
use crate::bencode::B;
use crate::epnet::EpNet;
use crate::explore::{Chooser, Explorer};
use crate::krpc::{self, Id20, Krpc};
use crate::report::{hex, CheckInfo, Partial, Tier, Violation};
use crate::sim::*;

pub fn def() -> CheckDef {
    CheckDef {
        id: "C09",
        info,
        shards: |_| super::cores(),
        run,
        replay,
    }
}

fn info(tier: Tier) -> CheckInfo {
    let mut ci = CheckInfo {
        id: "C09",
        level: "model_checking",
        rule: format!(
            "Tier {}: one real client node runs get_peers then put_immutable over 3 scripted endpoints (two hold peers) plus a silent fourth one known only to one of them. Deviation-bounded DFS (bound {}): at every network event of the operation window an adversary may inject one message - kind in {{bare response, response with token+nodes+ip vote, response carrying a valid value, error 203, error 301}} x transaction id in 0..=N+1 (all ids the node uses in the run, tids are sequential) x source in {{other IP same port, right IP other port, another endpoint's address}}; and every genuine reply may be duplicated, delayed past the request timeout, delivered twice after the timeout (both compared with the run where it is lost), or delivered once in time and once after the timeout. Oracle: results of both calls, routing tables, cached closest nodes, address votes (public_address, firewalled) and what the endpoints stored must equal the run without the deviation. Pairs of reply fates {{duplicate, late, lost, two late copies, in-time + late copy, 450 ms slow}}: every additional copy must be as good as absent. Long-running node: the undisturbed scenario with the node's transaction-id counter started (before its first request) at every position around 2^16 and around the 32-bit wrap-around must give the fresh node's outcome. States = distinct world digests (all node snapshots + datagram pool); every execution runs the real node.",
            tier.name(),
            if tier.is_quick() { 1 } else { 2 }
        ),
        assumptions: vec![
            "a forged message from the right address with the right tid is indistinguishable from the peer's own answer and is not part of the oracle".into(),
            "default latency 10 ms; request timeout >= 500 ms".into(),
        ],
    };
    ci.rule.push_str(" Added: on a node whose ids are above 65536 the addressed peer sends ids congruent to the outstanding one modulo 65536 (or its two low bytes) before the genuine reply; a request to an unspecified address answered from another port.");
    ci
}

#[derive(Clone, Debug)]
struct Inj {
    kind: u8,
    tid: u32,
    src: u8,
    /// explicit source address (overrides `src`): e.g. the peer the request was really sent to
    from: Option<SocketAddrV4>,
    /// how many (low) bytes of the id are written: 4, or 2 / 3 / 1
    width: u8,
}

thread_local! {
    /// Where the node's transaction-id counter stands when the scenario's calls begin.
    static START_TID: std::cell::Cell<Option<u32>> = const { std::cell::Cell::new(None) };
}

#[derive(Clone, Debug, PartialEq, Eq)]
struct Obs {
    get: String,
    put: String,
    rt: Vec<(Id20, SocketAddrV4)>,
    srt: Vec<(Id20, SocketAddrV4)>,
    public_address: Option<SocketAddrV4>,
    firewalled: bool,
    cached: Vec<(Id20, Vec<Id20>)>,
    stored: Vec<bool>,
    puts_seen: Vec<usize>,
    actor_died: bool,
    /// the socket's adaptive request timeout (only genuine replies may move it)
    request_timeout_us: u64,
}

impl Obs {
    /// Equality of everything but the adaptive request timeout (a genuine reply, however late or
    /// duplicated, may legitimately feed the round-trip estimate).
    fn same_but_timeout(&self, o: &Obs) -> bool {
        let mut a = self.clone();
        a.request_timeout_us = o.request_timeout_us;
        a == *o
    }

    fn diff(&self, o: &Obs) -> String {
        let mut d = vec![];
        if self.get != o.get {
            d.push(format!("get result {} vs {}", self.get, o.get));
        }
        if self.put != o.put {
            d.push(format!("put result {} vs {}", self.put, o.put));
        }
        if self.rt != o.rt {
            d.push(format!("routing table {} vs {} entries", self.rt.len(), o.rt.len()));
        }
        if self.srt != o.srt {
            d.push("signed-peers routing table differs".into());
        }
        if self.public_address != o.public_address || self.firewalled != o.firewalled {
            d.push(format!("address votes {:?}/{} vs {:?}/{}", self.public_address, self.firewalled, o.public_address, o.firewalled));
        }
        if self.cached != o.cached {
            d.push("cached closest nodes differ".into());
        }
        if self.stored != o.stored || self.puts_seen != o.puts_seen {
            d.push(format!("endpoints that stored the value {:?} vs {:?}", self.stored, o.stored));
        }
        if self.actor_died != o.actor_died {
            d.push("actor died".into());
        }
        if self.request_timeout_us != o.request_timeout_us {
            d.push(format!("request timeout {} us vs {} us", self.request_timeout_us, o.request_timeout_us));
        }
        d.join("; ")
    }
    fn class(&self, o: &Obs) -> &'static str {
        if self.actor_died != o.actor_died {
            "actor-died"
        } else if self.get != o.get || self.put != o.put {
            "call-result"
        } else if self.public_address != o.public_address || self.firewalled != o.firewalled {
            "address-votes"
        } else if self.rt != o.rt || self.srt != o.srt {
            "routing-table"
        } else if self.request_timeout_us != o.request_timeout_us {
            "request-timeout"
        } else {
            "stored-or-cached"
        }
    }
}

const V1: &[u8] = b"value held by endpoint 2";
const V2: &[u8] = b"value written by the node";

fn adversary(src: u8, eps: &[SocketAddrV4]) -> SocketAddrV4 {
    match src {
        0 => SocketAddrV4::new(Ipv4Addr::new(66, 6, 6, 6), eps[1].port()),
        1 => SocketAddrV4::new(*eps[1].ip(), 4444),
        2 => eps[0],
        _ => eps[2],
    }
}

fn injection_bytes(inj: &Inj, target: &Id20) -> Vec<u8> {
    let t4 = inj.tid.to_be_bytes();
    let t: &[u8] = &t4[4 - (inj.width.clamp(1, 4) as usize)..];
    let vote = SocketAddrV4::new(Ipv4Addr::new(6, 6, 6, 6), 6666);
    let evil_id = [0xEEu8; 20];
    let forged_node = ([0xDDu8; 20], SocketAddrV4::new(Ipv4Addr::new(66, 6, 6, 7), 7777));
    match inj.kind {
        0 => krpc::response(t, vec![("id", B::bytes(evil_id))], Some(&vote), None),
        1 => krpc::response(
            t,
            vec![
                ("id", B::bytes(evil_id)),
                ("token", B::bytes(b"evil")),
                ("nodes", B::bytes(krpc::compact_nodes(&[forged_node]))),
            ],
            Some(&vote),
            Some(&krpc::VERSION_RS),
        ),
        2 => {
            let _ = target;
            krpc::response(
                t,
                vec![("id", B::bytes(evil_id)), ("token", B::bytes(b"evil")), ("v", B::bytes(V1))],
                Some(&vote),
                None,
            )
        }
        3 => krpc::error(t, 203, "forged"),
        // a *request* that happens to carry the id of a request we have outstanding
        5 => krpc::q_ping(t, &evil_id),
        _ => krpc::error(t, 301, "forged"),
    }
}

struct RunOut {
    obs: Obs,
    n_tids: u32,
    /// tid -> destination of the request (as sent by the node)
    tid_dest: Vec<(u32, SocketAddrV4)>,
    events_in_window: u32,
    steps: u64,
    digests: Vec<u64>,
    completion_ms: u64,
}

/// `menu`: injections selectable at every network event in the window (choice 0 = none).
/// `fates`: whether genuine endpoint replies get Dup/Late/Drop choice points.
fn scenario(chooser: Chooser, menu: &[Inj], reply_faults: bool, track: bool) -> (Chooser, RunOut) {
    let mut w = World::new(chooser);
    w.track_states = track;
    let v1_target = krpc::immutable_target(V1);
    let mut ids = crate::epnet::ranked_ids(&v1_target, 4);
    ids[0][0] ^= 0x80; // the bootstrap endpoint is far from the target
    let mut net = EpNet::new(&mut w, &ids);
    net.eps[2].imm.insert(v1_target, V1.to_vec());
    net.eps[2].peers.insert(v1_target, vec![SocketAddrV4::new(Ipv4Addr::new(45, 4, 5, 6), 4545)]);
    net.eps[1].peers.insert(v1_target, vec![SocketAddrV4::new(Ipv4Addr::new(45, 4, 5, 7), 4546)]);
    // a fourth, silent endpoint that only endpoint 1 knows: when its (possibly delayed) answer
    // arrives the lookup asks the silent one and stays open for another request timeout
    net.eps[3].silent = true;
    net.eps[0].knows = Some(vec![1, 2]);
    net.eps[2].knows = Some(vec![0, 1]);
    net.eps[1].knows = Some(vec![0, 2, 3]);
    let eps = net.addrs();
    let a = w.add_node(NodeCfg::new([9, 9, 9, 9], 7000).bootstrap(&eps[..1]).id([0x21; 20]));
    let a_addr = w.node_addr(a);
    // a node that has been running for a long time: its transaction-id counter is far from 0
    // (set before its first request, so that no request of an earlier epoch is outstanding)
    if let Some(t) = START_TID.with(|c| c.get()) {
        w.set_next_tid(a, t);
    }

    // bootstrap phase (no deviations)
    let h = w.now + 3 * SEC;
    w.run_until(h, |w, ev| {
        if let Event::EndpointRecv { ep, dgram } = ev {
            net.handle(w, *ep, dgram);
        }
        false
    });

    // operation window
    w.faults.menu = vec![Fate::Deliver(DEFAULT_LATENCY), Fate::Dup(DEFAULT_LATENCY, 40 * MS), Fate::Deliver(900 * MS), Fate::Drop, Fate::Dup(900 * MS, 930 * MS), Fate::Dup(DEFAULT_LATENCY, 900 * MS), Fate::Deliver(450 * MS)];
    w.faults.enabled = reply_faults;
    w.fault_filter = Some(Box::new(move |d: &Datagram| d.to == a_addr && d.from_node.is_none()));
    let start = w.now;
    let mut events = 0u32;
    let get = w.call_get_peers(a, v1_target.into());
    let mut put: Option<usize> = None;
    let horizon = w.now + 30 * SEC;
    let mut done_at = None;
    loop {
        // adversary choice point before the next network event
        let Some(ev) = w.step(horizon) else { break };
        match &ev {
            Event::EndpointRecv { ep, dgram } => {
                net.handle(&mut w, *ep, dgram);
            }
            Event::Arrived { .. } => {}
            _ => {
                // not a network event: no choice point
                if put.is_none() && w.result(get).is_some() {
                    put = Some(w.call_put_immutable(a, V2.to_vec()));
                }
                if let Some(p) = put {
                    if w.result(p).is_some() && done_at.is_none() {
                        done_at = Some(w.now);
                        break;
                    }
                }
                continue;
            }
        }
        events += 1;
        if !menu.is_empty() {
            let c = w.chooser.choose("inject", 1 + menu.len() as u32);
            if c > 0 {
                let inj = &menu[c as usize - 1];
                let src = inj.from.unwrap_or_else(|| adversary(inj.src, &eps));
                w.faults.enabled = false;
                w.send_raw_with_latency(src, a_addr, injection_bytes(inj, &v1_target), MS);
                w.faults.enabled = reply_faults;
            }
        }
    }
    w.faults.enabled = false;
    // quiet period
    let h = w.now + 3 * SEC;
    w.run_until(h, |w, ev| {
        if let Event::EndpointRecv { ep, dgram } = ev {
            net.handle(w, *ep, dgram);
        }
        false
    });
    let fmt = |r: Option<&CallResult>| match r {
        Some(CallResult::Bytes(Some(v))) => format!("Some({})", hex(&v[..v.len().min(8)])),
        Some(CallResult::Bytes(None)) => "None".into(),
        Some(CallResult::Peers(b)) => format!("peers{:?}", b),
        Some(CallResult::Put(Ok(id))) => format!("Ok({})", hex(&id.as_bytes()[..4])),
        Some(CallResult::Put(Err(e))) => format!("Err({e:?})"),
        Some(other) => format!("{other:?}"),
        None => "PENDING".into(),
    };
    let actor_died = w.any_actor_panicked().is_some() || !w.nodes[a].alive;
    let mut request_timeout_us = 0u64;
    let (rt, srt, pa, fw, cached) = if w.nodes[a].alive {
        let s = w.snapshot(a);
        request_timeout_us = s.socket.request_timeout.as_micros() as u64;
        let t = |t: &dht::verif::TableSnapshot| {
            let mut v: Vec<(Id20, SocketAddrV4)> = t.buckets.iter().flat_map(|(_, b)| b.iter().map(|n| (*n.id.as_bytes(), n.address))).collect();
            v.sort();
            v
        };
        let mut cached: Vec<(Id20, Vec<Id20>)> = s
            .core
            .cached_iterative_queries
            .iter()
            .map(|c| (*c.target.as_bytes(), c.closest_responding_nodes.iter().map(|n| *n.id.as_bytes()).collect()))
            .collect();
        cached.sort();
        (t(&s.core.routing_table), t(&s.core.signed_peers_routing_table), s.core.public_address, s.core.firewalled, cached)
    } else {
        (vec![], vec![], None, true, vec![])
    };
    let v2_target = krpc::immutable_target(V2);
    let obs = Obs {
        get: fmt(w.result(get)),
        put: fmt(put.and_then(|p| w.result(p))),
        rt,
        srt,
        public_address: pa,
        firewalled: fw,
        cached,
        stored: net.eps.iter().map(|e| e.imm.contains_key(&v2_target)).collect(),
        puts_seen: net.eps.iter().map(|e| e.puts.len()).collect(),
        actor_died,
        request_timeout_us,
    };
    let mut tid_dest = vec![];
    for (d, _) in w.sent() {
        if d.from_node == Some(a) {
            if let Some(k) = Krpc::parse(&d.bytes) {
                if k.is_query() {
                    if let Some(t) = k.tid_u32() {
                        tid_dest.push((t, d.to));
                    }
                }
            }
        }
    }
    let out = RunOut {
        obs,
        n_tids: tid_dest.len() as u32,
        tid_dest,
        events_in_window: events,
        steps: w.steps,
        digests: w.state_digests.iter().copied().collect(),
        completion_ms: (done_at.unwrap_or(w.now) - start) / MS,
    };
    let chooser = std::mem::take(&mut w.chooser);
    (chooser, out)
}

fn build_menu(base: &RunOut, tier: Tier, eps: &[SocketAddrV4]) -> Vec<Inj> {
    let mut m = vec![];
    let kinds: Vec<u8> = if tier.is_quick() { vec![1, 2, 4] } else { vec![0, 1, 2, 3, 4] };
    for tid in 0..=base.n_tids + 1 {
        for &kind in &kinds {
            for src in 0..4u8 {
                // another endpoint's address is only "wrong" for tids not sent to it
                if src >= 2 {
                    let addr = adversary(src, eps);
                    if base.tid_dest.iter().any(|(t, d)| *t == tid && *d == addr) {
                        continue;
                    }
                }
                m.push(Inj { kind, tid, src, from: None, width: 4 });
            }
        }
    }
    m
}

const LONG_RUNNING_START: u32 = 70_000;

/// Ids that differ from an outstanding one by a multiple of 65536 (or are its two low bytes),
/// sent by the very peer the request went to.
fn congruent_menu(lbase: &RunOut, tier: Tier) -> Vec<Inj> {
    let kinds: Vec<u8> = if tier.is_quick() { vec![1, 4] } else { vec![0, 1, 2, 3, 4] };
    let mut cmenu: Vec<Inj> = vec![];
    for (tid, dest) in &lbase.tid_dest {
        // the addressed peer sends a request of its own carrying exactly the outstanding id
        cmenu.push(Inj { kind: 5, tid: *tid, src: 4, from: Some(*dest), width: 4 });
        for &kind in &kinds {
            cmenu.push(Inj { kind, tid: tid.wrapping_add(65536), src: 4, from: Some(*dest), width: 4 });
            cmenu.push(Inj { kind, tid: *tid, src: 4, from: Some(*dest), width: 2 });
            // (a 3-byte `t` is no transaction id at all: ids are 2 or 4 bytes)
            cmenu.push(Inj { kind, tid: *tid, src: 4, from: Some(*dest), width: 3 });
            if !tier.is_quick() {
                cmenu.push(Inj { kind, tid: tid.wrapping_sub(65536), src: 4, from: Some(*dest), width: 4 });
                cmenu.push(Inj { kind, tid: tid.wrapping_add(1 << 31), src: 4, from: Some(*dest), width: 4 });
            }
        }
    }
    cmenu
}

/// A request sent to an unspecified address (a bootstrap entry "0.0.0.0:6881", which reaches the
/// local host): the reply legitimately comes from another IP, so the code only compares ports
/// there - but it must still compare them. Differential: before the genuine reply to the n-th
/// such request, a third party sends a reply with the right id from another PORT.
fn unspecified_destination(out: &mut Partial) {
    let dest = SocketAddrV4::new(Ipv4Addr::UNSPECIFIED, 6881);
    let replies_from = SocketAddrV4::new(Ipv4Addr::LOCALHOST, 6881);
    let forged_node = ([0xDDu8; 20], SocketAddrV4::new(Ipv4Addr::new(66, 6, 6, 7), 7777));
    let target: Id20 = [0x5B; 20];
    let run = |inject_at: Option<(usize, SocketAddrV4)>| -> (String, bool, usize, u64) {
        let mut w = World::new(Chooser::default_run());
        let ep = w.add_endpoint(dest);
        let a = w.add_node(NodeCfg::new([9, 9, 9, 9], 7000).bootstrap(&[dest]).id([0x21; 20]));
        let a_addr = w.node_addr(a);
        let mut seen = 0usize;
        let mut call: Option<usize> = None;
        let h = w.now + 20 * SEC;
        w.run_until(h, |w, ev| {
            if let Event::EndpointRecv { ep: e, dgram } = ev {
                if *e == ep {
                    if let Some(q) = Krpc::parse(&dgram.bytes) {
                        if q.is_query() {
                            if let Some((n, from)) = inject_at {
                                if n == seen {
                                    let bytes = krpc::response(&q.t, vec![("id", B::bytes([0xEEu8; 20])), ("token", B::bytes(b"evil")), ("nodes", B::bytes(krpc::compact_nodes(&[forged_node])))], Some(&a_addr), Some(&krpc::VERSION_RS));
                                    w.send_raw_with_latency(from, a_addr, bytes, MS);
                                }
                            }
                            seen += 1;
                            let bytes = krpc::response(&q.t, vec![("id", B::bytes([0x77u8; 20])), ("nodes", B::bytes(Vec::<u8>::new()))], Some(&a_addr), Some(&krpc::VERSION_RS));
                            w.send_raw_with_latency(replies_from, a_addr, bytes, DEFAULT_LATENCY);
                        }
                    }
                }
            }
            if call.is_none() && w.now >= T0 + 2 * SEC {
                call = Some(w.call_find_node(a, target.into()));
            }
            call.map(|c| w.result(c).is_some()).unwrap_or(false) && w.now >= T0 + 4 * SEC
        });
        let res = match call.and_then(|c| w.result(c)) {
            Some(CallResult::Nodes(n)) => format!("{:?}", n.iter().map(|x| x.address()).collect::<Vec<_>>()),
            other => format!("{other:?}"),
        };
        let asked_forged = w.sent().any(|(d, _)| d.from_node == Some(a) && d.to == forged_node.1);
        (res, asked_forged, seen, w.steps)
    };
    let (base, base_forged, n, steps) = run(None);
    out.add("executions", 1);
    out.add("transitions", steps);
    out.witness("requests to an unspecified address were answered", n > 0 && !base_forged);
    for at in 0..n {
        for (name, from) in [("same-ip-other-port", SocketAddrV4::new(Ipv4Addr::LOCALHOST, 4444)), ("other-ip-other-port", SocketAddrV4::new(Ipv4Addr::new(66, 6, 6, 6), 4444))] {
            let (res, asked_forged, _, steps) = run(Some((at, from)));
            out.add("executions", 1);
            out.add("unspecified_destination_injections", 1);
            out.add("transitions", steps);
            if res != base || asked_forged {
                out.violation(
                    format!("injection-has-effect/unspecified-destination/{name}"),
                    format!("request #{at} sent to {dest}: a reply with its id from {from} (another port) was accepted: find_node result {res} (unperturbed {base}), node listed by the forged reply asked: {asked_forged}"),
                    json!({"part": "unspecified"}),
                );
            }
        }
    }
}

/// A request that has timed out but is still listed by the socket (entries are only reclaimed
/// when the table is full) while the lookup it belongs to is kept open by a younger request:
/// only the addressed peer may still answer it. Differential: at every 50 ms of that window a
/// third party answers the expired request's id from another IP / another port of the peer's IP.
fn expired_but_listed(out: &mut Partial) {
    let target: Id20 = [0x3D; 20];
    let forged_node = ([0xDDu8; 20], SocketAddrV4::new(Ipv4Addr::new(66, 6, 6, 7), 7777));
    let vote = SocketAddrV4::new(Ipv4Addr::new(6, 6, 6, 6), 6666);
    // endpoints: 0 bootstrap (far), 1 silent, 2 slow (450 ms), 3 silent and known to 2 only
    let run = |inject: Option<(u64, u8)>| -> (String, Vec<SocketAddrV4>, Option<SocketAddrV4>, bool, Option<(Vec<u8>, SocketAddrV4, u64)>, u64, u64) {
        let mut w = World::new(Chooser::default_run());
        let mut ids = crate::epnet::ranked_ids(&target, 4);
        ids[0][0] ^= 0x80;
        let mut net = EpNet::new(&mut w, &ids);
        net.eps[1].silent = true;
        net.eps[3].silent = true;
        net.eps[0].knows = Some(vec![1, 2]);
        net.eps[2].knows = Some(vec![3]);
        let eps = net.addrs();
        let a = w.add_node(NodeCfg::new([9, 9, 9, 9], 7000).bootstrap(&eps[..1]).id([0x21; 20]));
        let a_addr = w.node_addr(a);
        let h = w.now + 3 * SEC;
        w.run_until(h, |w, ev| {
            if let Event::EndpointRecv { ep, dgram } = ev {
                net.handle(w, *ep, dgram);
            }
            false
        });
        let call = w.call_get_peers(a, target.into());
        let t_call = w.now;
        // the request to the first silent endpoint: (tid, address, sent at)
        let mut silent_req: Option<(Vec<u8>, SocketAddrV4, u64)> = None;
        let mut injected = false;
        let horizon = w.now + 20 * SEC;
        loop {
            if let (Some((at_ms, src)), Some((tid, to, sent))) = (inject, silent_req.clone()) {
                let when = sent + at_ms * MS;
                if !injected && w.now >= when {
                    let from = if src == 0 { SocketAddrV4::new(Ipv4Addr::new(66, 6, 6, 6), to.port()) } else { SocketAddrV4::new(*to.ip(), 4444) };
                    let bytes = krpc::response(&tid, vec![("id", B::bytes([0xEEu8; 20])), ("token", B::bytes(b"evil")), ("nodes", B::bytes(krpc::compact_nodes(&[forged_node]))), ("values", B::List(vec![B::bytes([6, 6, 6, 9, 0, 80])]))], Some(&vote), Some(&krpc::VERSION_RS));
                    w.send_raw_with_latency(from, a_addr, bytes, MS);
                    injected = true;
                }
            }
            let stop = match (inject, &silent_req) {
                (Some((at_ms, _)), Some((_, _, sent))) if !injected => (sent + at_ms * MS).min(horizon),
                _ => horizon,
            };
            let Some(ev) = w.step(stop) else {
                if stop >= horizon {
                    break;
                }
                w.advance_to(stop);
                continue;
            };
            if let Event::EndpointRecv { ep, dgram } = &ev {
                let i = net.index_of(*ep).expect("ep");
                if let Some(q) = Krpc::parse(&dgram.bytes) {
                    if q.is_query() {
                        if i == 1 && q.query_target() == Some(target) && silent_req.is_none() {
                            silent_req = Some((q.t.clone(), eps[1], dgram.sent_at));
                        }
                        if let Some(bytes) = net.honest_reply(i, &q, dgram.from, w.now) {
                            let from = net.eps[i].addr;
                            w.send_raw_with_latency(from, dgram.from, bytes, if i == 2 { 450 * MS } else { DEFAULT_LATENCY });
                        }
                    }
                }
            }
            if w.result(call).is_some() && w.now > t_call + 3 * SEC {
                break;
            }
        }
        let res = format!("{:?}", w.result(call));
        let s = w.snapshot(a);
        let mut rt: Vec<SocketAddrV4> = s.core.routing_table.buckets.iter().flat_map(|(_, b)| b.iter().map(|n| n.address)).collect();
        rt.sort();
        let asked_forged = w.sent().any(|(d, _)| d.from_node == Some(a) && d.to == forged_node.1);
        let done_ms = w.calls[call].done_at.map(|d| (d - t_call) / MS).unwrap_or(0);
        (res, rt, s.core.public_address, asked_forged, silent_req, done_ms, s.socket.request_timeout.as_micros() as u64)
    };
    let (base_res, base_rt, base_pa, base_forged, silent_req, done_ms, base_timeout) = run(None);
    out.add("executions", 1);
    out.witness("the lookup outlived the first silent request's timeout", silent_req.is_some() && done_ms > 700 && !base_forged);
    out.gauge_max("expired_window_lookup_ms", done_ms);
    let mut at = 520u64;
    while at + 60 < done_ms {
        for src in 0..2u8 {
            let (res, rt, pa, asked_forged, _, _, timeout) = run(Some((at, src)));
            out.add("executions", 1);
            out.add("expired_but_listed_injections", 1);
            if timeout != base_timeout && res == base_res && rt == base_rt && pa == base_pa && !asked_forged {
                out.violation(
                    format!("injection-has-effect/expired-but-listed/request-timeout/{}", if src == 0 { "wrong-ip" } else { "wrong-port" }),
                    format!("a reply from a wrong address carrying the id of a request sent {at} ms ago was rejected, yet it moved the socket's request timeout from {base_timeout} us to {timeout} us"),
                    json!({"part": "expired-listed"}),
                );
            }
            if res != base_res || rt != base_rt || pa != base_pa || asked_forged {
                out.violation(
                    format!("injection-has-effect/expired-but-listed/{}", if src == 0 { "wrong-ip" } else { "wrong-port" }),
                    format!("a request to a silent node has timed out (sent {at} ms ago) while a younger request keeps the lookup open; a reply with its id from {} was accepted: result {res} vs {base_res}; routing table {} vs {} entries; address vote {pa:?} vs {base_pa:?}; the node listed by the forged reply was asked: {asked_forged}", if src == 0 { "another IP" } else { "another port of the peer's IP" }, rt.len(), base_rt.len()),
                    json!({"part": "expired-listed"}),
                );
            }
        }
        at += 50;
    }
}

fn eps_addrs() -> Vec<SocketAddrV4> {
    (0..4).map(|i| SocketAddrV4::new(crate::epnet::pub_ip(i), 6881)).collect()
}

fn describe(choices: &[u32], trace: &[crate::explore::ChoicePoint], menu: &[Inj]) -> String {
    let mut v = vec![];
    for (i, c) in choices.iter().enumerate() {
        if *c > 0 {
            let label = trace[i].label;
            if label == "inject" {
                let inj = &menu[*c as usize - 1];
                v.push(format!(
                    "at network event {i}: inject {} tid={} from {}",
                    ["bare response", "response+token+nodes+vote", "response with value", "error 203", "error 301"][inj.kind as usize],
                    inj.tid,
                    ["other IP same port", "right IP other port", "endpoint 0's address", "endpoint 2's address"][inj.src as usize]
                ));
            } else {
                v.push(format!("choice {i}: genuine reply {}", ["", "duplicated", "delayed past the timeout", "lost"][*c as usize]));
            }
        }
    }
    v.join(", ")
}

fn run(tier: Tier, shard: usize, nshards: usize, _seed: u64) -> Partial {
    let mut out = Partial::default();
    // determinism self-check + baseline
    let (_, b1) = scenario(Chooser::default_run(), &[], false, true);
    let (_, b2) = scenario(Chooser::default_run(), &[], false, true);
    assert!(b1.obs == b2.obs && b1.steps == b2.steps && b1.digests.len() == b2.digests.len(), "MACHINERY: baseline is not deterministic");
    let base = b1;
    out.witness("baseline get returned the value", base.obs.get.starts_with("peers[[") );
    out.witness("baseline put returned Ok", base.obs.put.starts_with("Ok"));
    out.witness("baseline node learned endpoints", base.obs.rt.len() >= 2);
    out.gauge_max("tids_used_by_node", base.n_tids as u64);
    out.gauge_max("network_events_in_window", base.events_in_window as u64);
    out.gauge_max("max_completion_ms", base.completion_ms);
    let eps = eps_addrs();
    let menu = build_menu(&base, tier, &eps);
    out.gauge_max("injection_menu", menu.len() as u64);

    // --- part 1: injections (bound 1 quick, 2 thorough with a reduced menu for pairs)
    let bound = if tier.is_quick() { 1 } else { 2 };
    let menu_used: Vec<Inj> = if tier.is_quick() {
        menu.clone()
    } else {
        // pairs over the full menu would be ~10^8 executions: pairs use the sharpest kinds only
        menu.iter().filter(|i| (i.kind == 1 || i.kind == 4) && i.src < 2).cloned().collect()
    };
    let mut ex = Explorer::new(bound, (shard, nshards));
    if !tier.is_quick() {
        ex.deadline = Some(std::time::Instant::now() + std::time::Duration::from_secs(15 * 60));
    }
    ex.explore(&mut |chooser, count| {
        let (ch, r) = scenario(chooser, &menu_used, false, count);
        if count {
            out.add("executions", 1);
            out.add("transitions", r.steps);
            out.digests.extend(r.digests.iter());
            out.gauge_max("max_completion_ms", r.completion_ms);
            out.outcomes.insert(format!("get={} put={} rt={} pa={:?}", r.obs.get, r.obs.put, r.obs.rt.len(), r.obs.public_address));
            if r.obs != base.obs {
                let choices = ch.choices();
                let what = describe(&choices, &ch.trace, &menu_used);
                // which deviation kind(s)
                let kinds: Vec<String> = choices
                    .iter()
                    .filter(|c| **c > 0)
                    .map(|c| {
                        let i = &menu_used[*c as usize - 1];
                        format!("{}-{}", ["resp", "resp", "resp", "err", "err"][i.kind as usize], ["wrong-ip", "wrong-port", "other-peer", "other-peer"][i.src as usize])
                    })
                    .collect();
                out.violation(
                    format!("injection-has-effect/{}/{}", base.obs.class(&r.obs), kinds.join("+")),
                    format!("{what}: {}", base.obs.diff(&r.obs)),
                    json!({"part": "inject", "tier": tier.name(), "choices": choices}),
                );
            }
        }
        (ch, true)
    });
    out.capped |= ex.stats.capped;
    if tier.is_thorough() && shard == 0 {
        // singles over the full menu as well
        let mut ex1 = Explorer::new(1, (0, 1));
        ex1.explore(&mut |chooser, count| {
            let (ch, r) = scenario(chooser, &menu, false, false);
            if count {
                out.add("executions", 1);
                out.add("transitions", r.steps);
                if r.obs != base.obs {
                    let choices = ch.choices();
                    out.violation(
                        format!("injection-has-effect/{}/single", base.obs.class(&r.obs)),
                        format!("{}: {}", describe(&choices, &ch.trace, &menu), base.obs.diff(&r.obs)),
                        json!({"part": "inject-full", "tier": tier.name(), "choices": choices}),
                    );
                }
            }
            (ch, true)
        });
    }

    // --- part 3: the same scenario on a node that has been running for a long time. Every
    // position of the 16-bit boundary and of the 32-bit wrap-around of the transaction-id
    // counter inside the scenario's requests; the outcome must equal the fresh node's.
    if shard == 0 {
        let span = base.n_tids as u32 + 16; // the bootstrap phase uses a few ids too
        let mut starts: Vec<u32> = vec![1 << 16, 1 << 24, 1 << 31];
        for k in 0..=span {
            starts.push((1u32 << 16) - k);
            starts.push(u32::MAX - k);
        }
        for t in starts {
            START_TID.with(|c| c.set(Some(t)));
            let (_, r) = scenario(Chooser::default_run(), &[], false, false);
            START_TID.with(|c| c.set(None));
            out.add("executions", 1);
            out.add("long_running_starts", 1);
            out.add("transitions", r.steps);
            if r.obs != base.obs {
                let class = if t > u32::MAX - span - 1 { "32-bit-wrap" } else if t <= (1 << 16) && t + span >= (1 << 16) { "16-bit-boundary" } else { "large-tid" };
                out.violation(
                    format!("long-running-node/{}/{class}", base.obs.class(&r.obs)),
                    format!("same lookup and put on a node whose transaction-id counter starts at {t} (instead of 0): {}", base.obs.diff(&r.obs)),
                    json!({"part": "long-running", "start_tid": t}),
                );
            }
        }
    }

    // --- part 3b: duplicated genuine replies on a node whose transaction ids straddle the 32-bit
    // wrap-around (a reply is consumed once there too)
    for (si, back) in [1u32, 4, 9].iter().enumerate() {
        if si % nshards != shard % nshards.max(1) && nshards > 1 && (si + 3) % nshards != shard {
            continue;
        }
        START_TID.with(|c| c.set(Some(u32::MAX - back)));
        let mut exw = Explorer::new(1, (0, 1));
        exw.explore(&mut |chooser, count| {
            let (ch, r) = scenario(chooser, &[], true, false);
            if count {
                let choices = ch.choices();
                if let Some(pos) = choices.iter().position(|c| *c > 0) {
                    if matches!(choices[pos], 1 | 5) {
                        out.add("executions", 1);
                        out.add("duplicates_at_the_wrap", 1);
                        out.add("transitions", r.steps);
                        if !r.obs.same_but_timeout(&base.obs) {
                            out.violation(
                                format!("duplicate-reply-has-effect/{}/32-bit-wrap", base.obs.class(&r.obs)),
                                format!("transaction-id counter started at u32::MAX - {back}; genuine reply #{pos} delivered twice: {}", base.obs.diff(&r.obs)),
                                json!({"part": "wrap-dup", "back": back, "choices": choices}),
                            );
                        }
                    }
                }
            }
            (ch, true)
        });
        START_TID.with(|c| c.set(None));
    }

    // --- part 4: a node that has sent more than 65536 requests, and the peer a request was
    // really sent to answers with an id that differs from the outstanding one by a multiple of
    // 65536 (or with its two low bytes only): not that request's id, so no effect - and the
    // genuine reply must still be accepted afterwards.
    {
        let start_tid: u32 = LONG_RUNNING_START;
        START_TID.with(|c| c.set(Some(start_tid)));
        let (_, lbase) = scenario(Chooser::default_run(), &[], false, false);
        let cmenu = congruent_menu(&lbase, tier);
        out.gauge_max("congruent_id_menu", cmenu.len() as u64);
        let mut ex4 = Explorer::new(1, (shard, nshards));
        ex4.explore(&mut |chooser, count| {
            let (ch, r) = scenario(chooser, &cmenu, false, false);
            if count {
                out.add("executions", 1);
                out.add("congruent_id_injections", 1);
                out.add("transitions", r.steps);
                if r.obs != lbase.obs {
                    let choices = ch.choices();
                    let inj = choices.iter().find(|c| **c > 0).map(|c| cmenu[*c as usize - 1].clone());
                    let how = inj.as_ref().map(|i| if i.kind == 5 { "request-with-the-same-id" } else if i.width == 2 { "two-low-bytes" } else if i.width == 3 { "three-low-bytes" } else if i.width == 1 { "one-low-byte" } else { "plus-multiple-of-65536" }).unwrap_or("?");
                    out.violation(
                        format!("injection-has-effect/{}/congruent-id-from-the-addressed-peer/{how}", lbase.obs.class(&r.obs)),
                        format!("node whose transaction ids are above 65536 (counter started at {start_tid}); the addressed peer sends {:?} before its genuine reply: {}", inj, lbase.obs.diff(&r.obs)),
                        json!({"part": "congruent", "tier": tier.name(), "choices": choices}),
                    );
                }
            }
            (ch, true)
        });
        START_TID.with(|c| c.set(None));
    }
    // The same from a YOUNG node (ids below 256): the addressed peer answers with the id written
    // as one byte or as three - neither is a transaction id (they are 2 or 4 bytes long).
    {
        let (_, lbase) = scenario(Chooser::default_run(), &[], false, false);
        let mut cmenu: Vec<Inj> = vec![];
        for (tid, dest) in &lbase.tid_dest {
            for kind in [1u8, 4] {
                for width in [1u8, 3] {
                    cmenu.push(Inj { kind, tid: *tid, src: 4, from: Some(*dest), width });
                }
            }
        }
        let mut ex5 = Explorer::new(1, (shard, nshards));
        ex5.explore(&mut |chooser, count| {
            let (ch, r) = scenario(chooser, &cmenu, false, false);
            if count {
                out.add("executions", 1);
                out.add("odd_width_id_injections", 1);
                out.add("transitions", r.steps);
                if r.obs != lbase.obs {
                    let choices = ch.choices();
                    let inj = choices.iter().find(|c| **c > 0).map(|c| cmenu[*c as usize - 1].clone());
                    let how = inj.as_ref().map(|i| if i.width == 1 { "one-low-byte" } else { "three-low-bytes" }).unwrap_or("?");
                    out.violation(
                        format!("injection-has-effect/{}/odd-width-id-from-the-addressed-peer/{how}", lbase.obs.class(&r.obs)),
                        format!("young node (transaction ids below 256); the addressed peer sends {:?} before its genuine reply: {}", inj, lbase.obs.diff(&r.obs)),
                        json!({"part": "odd-width", "tier": tier.name(), "choices": choices}),
                    );
                }
            }
            (ch, true)
        });
    }

    if shard == 1 % nshards {
        unspecified_destination(&mut out);
    }
    if shard == 2 % nshards {
        expired_but_listed(&mut out);
    }

    // --- part 2: duplicates and late replies of genuine answers
    let mut ex2 = Explorer::new(2, (shard, nshards));
    ex2.explore(&mut |chooser, count| {
        let (ch, r) = scenario(chooser, &[], true, false);
        if count {
            out.add("executions", 1);
            out.add("transitions", r.steps);
            let choices = ch.choices();
            let devs: Vec<usize> = choices.iter().enumerate().filter(|(_, c)| **c > 0).map(|(i, _)| i).collect();
            if devs.len() == 2 {
                // pairs: "consumed at most once" - every additional copy of a genuine reply must
                // be as good as absent, whenever the copies arrive and whatever else is slow.
                // (Whether a single copy arriving after its request timed out is used is NOT
                // judged here: the code keeps timed-out entries until they are reclaimed and
                // feeds its round-trip estimate from such replies; see DESIGN.md section 10.)
                let mut twin = choices.clone();
                for i in &devs {
                    twin[*i] = match choices[*i] {
                        1 | 5 => 0, // duplicate / in-time + late copy -> a single in-time copy
                        4 => 2,     // two late copies -> one late copy
                        other => other,
                    };
                }
                if twin != choices {
                    let (_, reference) = scenario(Chooser::new(twin.clone()), &[], true, false);
                    out.add("executions", 1);
                    out.add("pairs_tried", 1);
                    if !r.obs.same_but_timeout(&reference.obs) {
                        let kinds: Vec<&str> = devs.iter().map(|i| ["", "dup", "late", "lost", "late-dup", "intime+late", "slow450"][choices[*i] as usize]).collect();
                        out.violation(
                            format!("reply-fault-pair-has-effect/{}/{}", reference.obs.class(&r.obs), kinds.join("+")),
                            format!("genuine replies at choice points {devs:?} with fates {kinds:?} vs the run with the extra copies removed: {}", reference.obs.diff(&r.obs)),
                            json!({"part": "faults", "choices": choices}),
                        );
                    }
                }
            } else if let Some(pos) = choices.iter().position(|c| *c > 0) {
                match choices[pos] {
                    1 => {
                        if !r.obs.same_but_timeout(&base.obs) {
                            out.violation(
                                format!("duplicate-reply-has-effect/{}", base.obs.class(&r.obs)),
                                format!("genuine reply #{pos} duplicated: {}", base.obs.diff(&r.obs)),
                                json!({"part": "faults", "choices": choices}),
                            );
                        }
                        out.add("duplicates_tried", 1);
                    }
                    5 => {
                        // one copy in time, a second copy after expiry: same as no duplication
                        if !r.obs.same_but_timeout(&base.obs) {
                            out.violation(
                                format!("late-duplicate-has-effect/{}", base.obs.class(&r.obs)),
                                format!("genuine reply #{pos} delivered once in time and once 900 ms later: {}", base.obs.diff(&r.obs)),
                                json!({"part": "faults", "choices": choices}),
                            );
                        }
                        out.add("duplicates_tried", 1);
                    }
                    2 | 4 => {
                        // late reply (4: two late copies): must equal the run in which it is lost
                        let mut twin = choices[..=pos].to_vec();
                        twin[pos] = 3;
                        let (_, lost) = scenario(Chooser::new(twin), &[], true, false);
                        out.add("executions", 1);
                        if !r.obs.same_but_timeout(&lost.obs) {
                            out.violation(
                                format!("expired-reply-has-effect/{}", lost.obs.class(&r.obs)),
                                format!("genuine reply #{pos} delivered 900 ms late (after its request expired) vs lost: {}", lost.obs.diff(&r.obs)),
                                json!({"part": "faults", "choices": choices}),
                            );
                        }
                        out.add("late_tried", 1);
                    }
                    _ => {}
                }
            }
        }
        (ch, true)
    });
    out.witness("duplicates were tried", out.count("duplicates_tried") > 0 || shard != 0);
    out.sample(json!({"scenario": "client node, bootstrap endpoint far from target, endpoints 1 and 2 close, endpoint 2 holds the value", "deviation": "at network event 7: inject response+token+nodes+vote tid=3 from other IP same port"}));
    out
}

trait TierExt {
    fn is_thorough(&self) -> bool;
}
impl TierExt for Tier {
    fn is_thorough(&self) -> bool {
        !self.is_quick()
    }
}

fn replay(v: &Value) -> Result<Option<Violation>, String> {
    if v.get("part").and_then(|p| p.as_str()) == Some("expired-listed") {
        let mut out = Partial::default();
        expired_but_listed(&mut out);
        return Ok(out.violations.into_iter().next());
    }
    if v.get("part").and_then(|p| p.as_str()) == Some("unspecified") {
        let mut out = Partial::default();
        unspecified_destination(&mut out);
        return Ok(out.violations.into_iter().next());
    }
    if v.get("part").and_then(|p| p.as_str()) == Some("long-running") {
        let t = v.get("start_tid").and_then(|x| x.as_u64()).ok_or("start_tid")? as u32;
        let (_, base) = scenario(Chooser::default_run(), &[], false, false);
        START_TID.with(|c| c.set(Some(t)));
        let (_, r) = scenario(Chooser::default_run(), &[], false, false);
        START_TID.with(|c| c.set(None));
        if r.obs != base.obs {
            return Ok(Some(Violation { key: format!("long-running-node/{}", base.obs.class(&r.obs)), desc: format!("transaction-id counter starting at {t}: {}", base.obs.diff(&r.obs)), replay: v.clone() }));
        }
        return Ok(None);
    }
    let choices: Vec<u32> = v.get("choices").and_then(|c| c.as_array()).ok_or("choices")?.iter().filter_map(|x| x.as_u64().map(|x| x as u32)).collect();
    let part = v.get("part").and_then(|p| p.as_str()).unwrap_or("inject");
    let tier = Tier::parse(v.get("tier").and_then(|t| t.as_str()).unwrap_or("quick")).unwrap_or(Tier::Quick);
    let (_, base) = scenario(Chooser::default_run(), &[], false, false);
    let eps = eps_addrs();
    let menu = build_menu(&base, tier, &eps);
    let mut out = Partial::default();
    match part {
        "wrap-dup" => {
            let back = v.get("back").and_then(|x| x.as_u64()).unwrap_or(1) as u32;
            START_TID.with(|c| c.set(Some(u32::MAX - back)));
            let (_, r) = scenario(Chooser::new(choices.clone()), &[], true, false);
            START_TID.with(|c| c.set(None));
            if !r.obs.same_but_timeout(&base.obs) {
                out.violation("duplicate-reply-has-effect/32-bit-wrap", base.obs.diff(&r.obs), v.clone());
            }
        }
        "congruent" => {
            START_TID.with(|c| c.set(Some(LONG_RUNNING_START)));
            let (_, lbase) = scenario(Chooser::default_run(), &[], false, false);
            let cmenu = congruent_menu(&lbase, tier);
            let (_, r) = scenario(Chooser::new(choices.clone()), &cmenu, false, false);
            START_TID.with(|c| c.set(None));
            if r.obs != lbase.obs {
                out.violation("injection-has-effect/congruent-id-from-the-addressed-peer", lbase.obs.diff(&r.obs), v.clone());
            }
        }
        "odd-width" => {
            let (_, lbase) = scenario(Chooser::default_run(), &[], false, false);
            let mut cmenu: Vec<Inj> = vec![];
            for (tid, dest) in &lbase.tid_dest {
                for kind in [1u8, 4] {
                    for width in [1u8, 3] {
                        cmenu.push(Inj { kind, tid: *tid, src: 4, from: Some(*dest), width });
                    }
                }
            }
            let (_, r) = scenario(Chooser::new(choices.clone()), &cmenu, false, false);
            if r.obs != lbase.obs {
                out.violation("injection-has-effect/odd-width-id-from-the-addressed-peer", lbase.obs.diff(&r.obs), v.clone());
            }
        }
        "faults" => {
            let (_, r) = scenario(Chooser::new(choices.clone()), &[], true, false);
            let pos = choices.iter().position(|c| *c > 0).ok_or("no deviation")?;
            let ndev = choices.iter().filter(|c| **c > 0).count();
            let reference = if ndev >= 2 {
                let twin: Vec<u32> = choices.iter().map(|c| match c { 1 | 5 => 0, 4 => 2, o => *o }).collect();
                scenario(Chooser::new(twin), &[], true, false).1.obs
            } else if choices[pos] == 2 || choices[pos] == 4 {
                let mut twin = choices[..=pos].to_vec();
                twin[pos] = 3;
                scenario(Chooser::new(twin), &[], true, false).1.obs
            } else {
                base.obs.clone()
            };
            if !r.obs.same_but_timeout(&reference) {
                out.violation("reply-fault-has-effect", reference.diff(&r.obs), v.clone());
            }
        }
        _ => {
            let m: Vec<Inj> = if part == "inject" && !tier.is_quick() {
                menu.iter().filter(|i| (i.kind == 1 || i.kind == 4) && i.src < 2).cloned().collect()
            } else {
                menu
            };
            let (ch, r) = scenario(Chooser::new(choices.clone()), &m, false, false);
            if r.obs != base.obs {
                out.violation("injection-has-effect", format!("{}: {}", describe(&choices, &ch.trace, &m), base.obs.diff(&r.obs)), v.clone());
            }
        }
    }
    Ok(out.violations.into_iter().next())
}
