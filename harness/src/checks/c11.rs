//! C11 - servers answer with the closest nodes they know.
//! Engine E3: every subset of a 7-node universe in every insertion order, through the public
//! `ClosestNodes` and `RoutingTable` APIs, compared with a brute-force sort.

use std::net::{Ipv4Addr, SocketAddrV4};

use dht::{ClosestNodes, Node, RoutingTable};
use serde_json::{json, Value};

use super::{catch, par_local, quiet, CheckDef};
use crate::krpc::{bep42_id, bep42_valid, xor, Id20};
use crate::report::{hex, CheckInfo, Partial, Tier, Violation};

pub fn def() -> CheckDef {
    CheckDef {
        id: "C11",
        info,
        shards: |_| 1,
        run,
        replay,
    }
}

fn info(tier: Tier) -> CheckInfo {
    let mut ci = CheckInfo {
        id: "C11",
        level: "exploration",
        rule: format!(
            "Tier {}: a universe of 8 nodes on public IPs (secure+insecure on one IP, the insecure id matching 20 of the 21 BEP42 prefix bits; three secure ids on one IP, two sharing the 21-bit prefix; two insecure nodes with EQUAL ids on different IPs; a third insecure id sharing its first 17 bytes with them; ids tying with the target on the first differing byte; an id equal to the target). Every subset in every insertion order (sum of |s|! = 109601 sequences; subsets of up to 5 nodes = 8801 sequences in quick) is pushed through ClosestNodes::add for 4 targets and through RoutingTable::add for 3 own ids x 4 targets. For K-truncation: 21..24 distinct-IP nodes (mixed secure/insecure) under identity, reverse, every rotation and every adjacent transposition. A 246-node set (12 full buckets of insecure nodes + 6 secure ones) in index order, reversed and under 6 rotations, through ClosestNodes and a table, for 4 targets. take_until_secure over size-estimate in {{0,1,20,1000,usize::MAX}} x subnets in {{0,1,5,64,usize::MAX}}. Oracle: brute-force sort by (secure first, XOR distance) and the same-IP admission rule replayed in insertion order. Distinct = distinct (insertion sequence, target[, own id]).",
            tier.name()
        ),
        assumptions: vec![
            "BEP42 security of a node is decided by the harness' independent CRC32C reference".into(),
            "the same-IP admission rule is the one stated in C12: per IP at most one insecure node and no two secure nodes sharing a 21-bit prefix; a candidate is refused iff an already kept node on its IP is insecure or shares its prefix".into(),
        ],
    };
    ci.rule.push_str(" Added: tables with members not heard from for 16 minutes; the node lists a Server puts in find_node / get_peers / get / get_signed_peers answers for main tables of 0/5/19/20/21/30 nodes x signed-peers tables of 0/1/6/19/20/25 nodes (inside or partly outside the main table) x 4 targets: at most 20, distinct, as full as the tables allow, closest first; the same servers once they hold an immutable value, a mutable item (asked without seq, with an older and with the stored seq), a peer and a signed peer for the target: the nodes of a hit are the nodes of a miss.");
    ci
}

#[derive(Clone, Debug)]
struct N {
    id: Id20,
    addr: SocketAddrV4,
}

impl N {
    fn node(&self) -> Node {
        Node::new(self.id.into(), self.addr)
    }
    fn secure(&self) -> bool {
        bep42_valid(&self.id, *self.addr.ip())
    }
    fn prefix21(&self) -> [u8; 3] {
        [self.id[0], self.id[1], self.id[2] & 0xf8]
    }
}

fn universe() -> (Vec<N>, Vec<Id20>) {
    let ip_a = Ipv4Addr::new(80, 1, 2, 3);
    let ip_b = Ipv4Addr::new(93, 7, 7, 7);
    let ip_c = Ipv4Addr::new(140, 20, 30, 40);
    let ip_d = Ipv4Addr::new(201, 9, 8, 7);
    let fill = |b: u8| -> Id20 { [b; 20] };
    let n0 = N { id: bep42_id(ip_a, &fill(0x11), 0), addr: SocketAddrV4::new(ip_a, 1000) };
    // the lookup target family is built around n0
    let mut t1 = n0.id;
    t1[18] ^= 0x40;
    // insecure on ip A, with a 21-bit prefix different from n0's
    // (and ALMOST secure there: the BEP42 id for r = 3 with only the last of its 21 prefix
    // bits flipped - 20 matching bits are not enough)
    let mut i1 = bep42_id(ip_a, &fill(0x5a), 3);
    i1[2] ^= 0x08;
    let mut i5 = t1;
    i5[9] ^= 0x18; // ties with i7 on the first differing byte (both differ from t1 in byte 9)
    let mut i7 = t1;
    i7[9] ^= 0x10;
    let n1 = N { id: i1, addr: SocketAddrV4::new(ip_a, 1001) };
    let n2 = N { id: bep42_id(ip_b, &fill(0x22), 1), addr: SocketAddrV4::new(ip_b, 2000) };
    let n3 = N { id: bep42_id(ip_b, &fill(0x33), 1), addr: SocketAddrV4::new(ip_b, 2001) };
    let n4 = N { id: bep42_id(ip_b, &fill(0x44), 2), addr: SocketAddrV4::new(ip_b, 2002) };
    let n5 = N { id: i5, addr: SocketAddrV4::new(ip_c, 3000) };
    let n6 = N { id: i5, addr: SocketAddrV4::new(ip_d, 4000) };
    // shares its first 17 bytes with n5/n6 (same security class): only the low bytes order them
    let mut i8 = i5;
    i8[17] ^= 0x04;
    let ip_e = Ipv4Addr::new(33, 44, 55, 66);
    let n7 = N { id: i8, addr: SocketAddrV4::new(ip_e, 5000) };
    let u = vec![n0, n1, n2, n3, n4, n5, n6, n7];
    assert!(u[0].secure() && !u[1].secure() && u[2].secure() && u[3].secure() && u[4].secure());
    assert!(!u[5].secure() && !u[6].secure() && !u[7].secure());
    assert_eq!(u[2].prefix21(), u[3].prefix21());
    assert_ne!(u[2].prefix21(), u[4].prefix21());
    assert_ne!(u[0].prefix21(), u[1].prefix21());
    let targets = vec![t1, u[2].id, i7, u[1].id];
    (u, targets)
}

fn key(n: &N, target: &Id20) -> (u8, Id20) {
    (if n.secure() { 0 } else { 1 }, xor(&n.id, target))
}

/// Replay of the admission rule in insertion order (reference).
fn admitted(seq: &[usize], u: &[N]) -> Vec<usize> {
    let mut kept: Vec<usize> = vec![];
    for &i in seq {
        let n = &u[i];
        let refused = kept.iter().any(|&k| {
            let e = &u[k];
            e.addr.ip() == n.addr.ip() && (!e.secure() || e.prefix21() == n.prefix21())
        });
        // an entry with the same id in the same security class is the same entry
        let dup = kept.iter().any(|&k| u[k].id == n.id && u[k].secure() == n.secure());
        if !refused && !dup {
            kept.push(i);
        }
    }
    kept
}

fn ident(n: &Node) -> (Id20, SocketAddrV4) {
    (*n.id().as_bytes(), n.address())
}

fn permutations(items: &[usize], out: &mut Vec<Vec<usize>>, cur: &mut Vec<usize>, used: &mut Vec<bool>) {
    if cur.len() == items.len() {
        out.push(cur.clone());
        return;
    }
    for i in 0..items.len() {
        if !used[i] {
            used[i] = true;
            cur.push(items[i]);
            permutations(items, out, cur, used);
            cur.pop();
            used[i] = false;
        }
    }
}

fn sequences(n: usize) -> Vec<Vec<usize>> {
    let mut all = vec![];
    for mask in 0u32..(1 << n) {
        let items: Vec<usize> = (0..n).filter(|i| mask & (1 << i) != 0).collect();
        let mut used = vec![false; items.len()];
        permutations(&items, &mut all, &mut vec![], &mut used);
    }
    all
}

fn check_closest_nodes(seq: &[usize], u: &[N], target: &Id20, out: &mut Partial) {
    out.add("evaluations", 1);
    out.add("distinct_nontrivial", (seq.len() >= 2) as u64);
    let replay = json!({"kind":"closest_nodes","seq":seq,"target":hex(target)});
    let r = quiet(|| {
        catch(|| {
            let mut c = ClosestNodes::new((*target).into());
            for &i in seq {
                c.add(u[i].node());
            }
            c
        })
    });
    let c = match r {
        Ok(c) => c,
        Err(p) => {
            out.violation("closest-nodes/panic", format!("ClosestNodes::add panicked: {p}"), replay);
            return;
        }
    };
    let got: Vec<(Id20, SocketAddrV4)> = c.nodes().iter().map(ident).collect();
    // strictly increasing under (secure-first, xor)
    let find = |g: &(Id20, SocketAddrV4)| u.iter().find(|n| n.id == g.0 && n.addr == g.1);
    let keys: Vec<(u8, Id20)> = got.iter().filter_map(|g| find(g).map(|n| key(n, target))).collect();
    if keys.len() != got.len() {
        out.violation("closest-nodes/foreign-node", "contains a node that was never added", replay);
        return;
    }
    if keys.windows(2).any(|w| w[0] >= w[1]) {
        out.violation(
            "closest-nodes/not-sorted",
            format!("nodes() is not strictly increasing under (secure-first, XOR) for insertion {seq:?}"),
            replay,
        );
        return;
    }
    // exactly the admitted set
    let mut want: Vec<(u8, Id20, SocketAddrV4)> = admitted(seq, u)
        .into_iter()
        .map(|i| {
            let k = key(&u[i], target);
            (k.0, k.1, u[i].addr)
        })
        .collect();
    want.sort();
    let got_keyed: Vec<(u8, Id20, SocketAddrV4)> = got
        .iter()
        .zip(keys.iter())
        .map(|(g, k)| (k.0, k.1, g.1))
        .collect();
    if got_keyed != want {
        out.violation(
            "closest-nodes/wrong-contents",
            format!(
                "insertion {seq:?}: kept {} nodes, admission rule replayed in order keeps {}",
                got.len(),
                want.len()
            ),
            replay.clone(),
        );
    }
    if c.len() != got.len() || c.is_empty() != got.is_empty() {
        out.violation("closest-nodes/len", "len()/is_empty() disagree with nodes()", replay);
    }
}

fn check_table(seq: &[usize], u: &[N], own: &Id20, targets: &[Id20], out: &mut Partial) {
    let r = quiet(|| {
        catch(|| {
            let mut t = RoutingTable::new((*own).into());
            for &i in seq {
                t.add(u[i].node());
            }
            t
        })
    });
    let table = match r {
        Ok(t) => t,
        Err(p) => {
            out.violation(
                "table/panic",
                format!("RoutingTable::add panicked: {p}"),
                json!({"kind":"table","seq":seq,"own":hex(own)}),
            );
            return;
        }
    };
    let members: Vec<(Id20, SocketAddrV4)> = table.nodes().map(|n| ident(&n)).collect();
    for target in targets {
        out.add("evaluations", 1);
        out.add("distinct_nontrivial", (seq.len() >= 2) as u64);
        let replay = json!({"kind":"table","seq":seq,"own":hex(own),"target":hex(target)});
        let closest = match quiet(|| catch(|| table.closest((*target).into()))) {
            Ok(c) => c,
            Err(p) => {
                out.violation("table/closest-panic", format!("closest() panicked: {p}"), replay);
                continue;
            }
        };
        let got: Vec<(Id20, SocketAddrV4)> = closest.iter().map(ident).collect();
        let mut want: Vec<((u8, Id20), (Id20, SocketAddrV4))> = members
            .iter()
            .map(|m| {
                let n = N { id: m.0, addr: m.1 };
                (key(&n, target), *m)
            })
            .collect();
        want.sort();
        want.truncate(20);
        let want: Vec<(Id20, SocketAddrV4)> = want.into_iter().map(|w| w.1).collect();
        // the selection of storage nodes / lookup seeds from the same table (take-until-secure):
        // a prefix of the table's full secure-first order, at least min(20, members) long
        match quiet(|| catch(|| dht::verif::table_closest_secure(&table, (*target).into()))) {
            Ok(sel) => {
                let sel: Vec<(Id20, SocketAddrV4)> = sel.iter().map(ident).collect();
                let mut full: Vec<((u8, Id20), (Id20, SocketAddrV4))> = members.iter().map(|m| (key(&N { id: m.0, addr: m.1 }, target), *m)).collect();
                full.sort();
                let full: Vec<(Id20, SocketAddrV4)> = full.into_iter().map(|w| w.1).collect();
                if sel.len() < members.len().min(20) || sel.len() > full.len() || sel[..] != full[..sel.len()] {
                    out.violation(
                        "table/closest-secure-not-a-prefix",
                        format!("table built by adds {seq:?} has {} members; the storage-node selection returned {} nodes, which is not a prefix (>= min(20, members)) of the table's secure-first order", members.len(), sel.len()),
                        replay.clone(),
                    );
                }
            }
            Err(p) => out.violation("table/closest-secure-panic", format!("closest_secure() panicked: {p}"), replay.clone()),
        }
        if got.len() > 20 {
            out.violation("table/closest-more-than-20", "closest() returned more than 20", replay.clone());
        }
        if got.iter().any(|g| !members.contains(g)) {
            out.violation("table/closest-foreign", "closest() returned a node that is not in the table", replay.clone());
        }
        let mut dedup = got.clone();
        dedup.sort();
        dedup.dedup();
        if dedup.len() != got.len() {
            out.violation("table/closest-duplicates", "closest() returned duplicates", replay.clone());
        }
        if got != want {
            let missing: Vec<String> = want
                .iter()
                .filter(|w| !got.contains(w))
                .map(|w| {
                    let n = N { id: w.0, addr: w.1 };
                    format!("{}{}", if n.secure() { "secure@" } else { "insecure@" }, w.1)
                })
                .collect();
            let class = if missing.is_empty() {
                "order"
            } else if missing.iter().any(|m| m.starts_with("secure@")) {
                "drops-secure-member"
            } else {
                "drops-member"
            };
            out.violation(
                format!("table/closest-not-first-20/{class}"),
                format!(
                    "table built by adds {seq:?} has {} members; closest() returned {} nodes, missing {missing:?}",
                    members.len(),
                    got.len()
                ),
                replay,
            );
        }
    }
}

fn big_universe(n: usize) -> Vec<N> {
    (0..n)
        .map(|i| {
            let ip = Ipv4Addr::new(50 + i as u8, 3, 3, 3);
            let mut fill = [0u8; 20];
            for (j, b) in fill.iter_mut().enumerate() {
                *b = (i as u8).wrapping_mul(37).wrapping_add(j as u8 * 3);
            }
            let id = if i % 3 != 0 { bep42_id(ip, &fill, (i % 8) as u8) } else { fill };
            N { id, addr: SocketAddrV4::new(ip, 6000 + i as u16) }
        })
        .collect()
}

fn orders(n: usize) -> Vec<Vec<usize>> {
    let base: Vec<usize> = (0..n).collect();
    let mut v = vec![base.clone(), base.iter().rev().cloned().collect()];
    for r in 1..n {
        let mut o = base.clone();
        o.rotate_left(r);
        v.push(o);
    }
    for i in 0..n - 1 {
        let mut o = base.clone();
        o.swap(i, i + 1);
        v.push(o);
    }
    v
}

fn check_truncation(out: &mut Partial) {
    for n in 21..=24usize {
        let u = big_universe(n);
        let targets = [u[3].id, [0x80u8; 20], [0u8; 20]];
        for order in orders(n) {
            for t in &targets {
                check_closest_nodes(&order, &u, t, out);
                // take_until_secure
                let mut c = ClosestNodes::new((*t).into());
                for &i in &order {
                    c.add(u[i].node());
                }
                let all: Vec<(Id20, SocketAddrV4)> = c.nodes().iter().map(ident).collect();
                for est in [0usize, 1, 20, 1000, usize::MAX] {
                    for subnets in [0usize, 1, 5, 64, usize::MAX] {
                        out.add("evaluations", 1);
                        let replay = json!({"kind":"take_until_secure","n":n,"order":order,"target":hex(t),"est":est.to_string(),"subnets":subnets.to_string()});
                        match quiet(|| catch(|| c.take_until_secure(est, subnets).iter().map(ident).collect::<Vec<_>>())) {
                            Err(p) => out.violation("take-until-secure/panic", format!("panicked: {p}"), replay),
                            Ok(got) => {
                                let min = 20.min(all.len());
                                if got.len() < min || got.len() > all.len() || got[..] != all[..got.len()] {
                                    out.violation(
                                        "take-until-secure/not-a-prefix-of-at-least-20",
                                        format!("returned {} of {} nodes (est={est}, subnets={subnets})", got.len(), all.len()),
                                        replay,
                                    );
                                }
                            }
                        }
                    }
                }
            }
            // through a table: all nodes fall in different buckets or not, K-truncation applies
            for own in [[0x01u8; 20], u[0].id] {
                check_table(&order, &u, &own, &targets, out);
            }
        }
    }
}

/// More than 200 nodes (the accumulator's initial capacity, ten full buckets): 12 buckets of 20
/// insecure nodes each on distinct IPs plus 6 secure ones, inserted in index order, reversed
/// (the closest arrive last) and under rotations, through `ClosestNodes` and through a table.
fn check_large(out: &mut Partial) {
    let own: Id20 = [0xAA; 20];
    let mut u: Vec<N> = vec![];
    for b in 0..12usize {
        for j in 0..20usize {
            let i = u.len();
            let mut id = own;
            let p = 50 + b; // first differing bit
            id[p / 8] ^= 0x80 >> (p % 8);
            id[18] = b as u8 ^ 0x5c;
            id[19] = (j * 3 + 1) as u8;
            u.push(N { id, addr: SocketAddrV4::new(Ipv4Addr::new(60 + (i / 200) as u8, (i % 200) as u8, 7, 7), 6000 + i as u16) });
        }
    }
    for i in 0..6usize {
        let ip = Ipv4Addr::new(70, 1, 1, 1 + i as u8);
        let mut fill = [0x3Cu8; 20];
        fill[5] = i as u8;
        u.push(N { id: bep42_id(ip, &fill, i as u8), addr: SocketAddrV4::new(ip, 7000 + i as u16) });
    }
    let n = u.len();
    let mut near = own;
    near[19] ^= 0x01;
    let targets = [near, [0x55u8; 20], u[230].id, u[5].id];
    let base: Vec<usize> = (0..n).collect();
    let mut orders: Vec<Vec<usize>> = vec![base.clone(), base.iter().rev().cloned().collect()];
    for r in [1usize, 20, 199, 200, 201, 239] {
        let mut o = base.clone();
        o.rotate_left(r);
        orders.push(o);
    }
    for order in &orders {
        for t in &targets {
            check_closest_nodes(order, &u, t, out);
            out.add("large_sets", 1);
        }
        check_table(order, &u, &own, &targets, out);
    }
}

/// Brute-force reference: the first 20 of `members` by (secure first, XOR distance to target).
fn brute(members: &[(Id20, SocketAddrV4)], target: &Id20) -> Vec<(Id20, SocketAddrV4)> {
    let mut want: Vec<((u8, Id20), (Id20, SocketAddrV4))> = members.iter().map(|m| (key(&N { id: m.0, addr: m.1 }, target), *m)).collect();
    want.sort();
    want.truncate(20);
    want.into_iter().map(|w| w.1).collect()
}

/// Members that went quiet: the first `k` nodes are added at one instant, the rest 16 minutes
/// later, so the early ones are stale (not heard from for 15 minutes) but still members when the
/// table is asked. The answer is still the first 20 of the table's nodes.
fn check_table_with_stale_members(out: &mut Partial) {
    use crate::sim::{local_set_clock, MIN, SEC, T0};
    let own: Id20 = [0x01; 20];
    for n in [6usize, 20, 22, 26] {
        let u = big_universe(n);
        let targets: Vec<Id20> = vec![u[0].id, u[n - 1].id, [0x77; 20], own];
        for k in [1usize, n / 2, n - 1] {
            local_set_clock(T0);
            let mut t = RoutingTable::new(own.into());
            for i in 0..k {
                t.add(u[i].node());
            }
            local_set_clock(T0 + 16 * MIN);
            for i in k..n {
                t.add(u[i].node());
            }
            local_set_clock(T0 + 16 * MIN + SEC);
            let members: Vec<(Id20, SocketAddrV4)> = t.nodes().map(|n| ident(&n)).collect();
            for target in &targets {
                out.add("evaluations", 1);
                out.add("distinct_nontrivial", 1);
                out.add("tables_with_stale_members", 1);
                let got: Vec<(Id20, SocketAddrV4)> = match quiet(|| catch(|| t.closest((*target).into()))) {
                    Ok(c) => c.iter().map(ident).collect(),
                    Err(p) => {
                        out.violation("table/closest-panic", format!("closest() panicked: {p}"), json!({"kind": "stale", "n": n, "k": k}));
                        continue;
                    }
                };
                let want = brute(&members, target);
                if got != want {
                    let missing = want.iter().filter(|w| !got.contains(w)).count();
                    out.violation(
                        "table/closest-not-first-20/with-stale-members",
                        format!("a table of {} members, {k} of them not heard from for 16 minutes (still members): closest() returned {} nodes, {missing} of the first 20 are missing", members.len(), got.len()),
                        json!({"kind": "stale", "n": n, "k": k, "target": hex(target)}),
                    );
                }
            }
            local_set_clock(T0);
        }
    }
}

/// The node lists a *server* puts in its answers (find_node, get_peers, get, get_signed_peers),
/// driven through the real decoder -> Server::handle_request -> encoder with a main table and a
/// signed-peers table of every size relation.
fn check_server_responses(out: &mut Partial) {
    use crate::krpc::{self, Krpc};
    use dht::verif::{decode, encode, MessageType, Server, WireMessage};
    let own: Id20 = [0x01; 20];
    let u = big_universe(40);
    let from = SocketAddrV4::new(Ipv4Addr::new(44, 4, 4, 4), 4444);
    let rid: Id20 = [0xA7; 20];
    for a in [0usize, 5, 19, 20, 21, 30] {
        for b in [0usize, 1, 6, 19, 20, 25] {
            // the signed-peers table holds `b` nodes: the first b of the main table's, or a window
            // that lies partly outside it
            for offset in [0usize, a.saturating_sub(3)] {
                if offset + b > u.len() || (offset > 0 && b == 0) {
                    continue;
                }
                let mut main = RoutingTable::new(own.into());
                for n in &u[..a] {
                    main.add(n.node());
                }
                let mut signed = RoutingTable::new(own.into());
                for n in &u[offset..offset + b] {
                    signed.add(n.node());
                }
                let m_members: Vec<(Id20, SocketAddrV4)> = main.nodes().map(|n| ident(&n)).collect();
                let s_members: Vec<(Id20, SocketAddrV4)> = signed.nodes().map(|n| ident(&n)).collect();
                let mut union = m_members.clone();
                for x in &s_members {
                    if !union.contains(x) {
                        union.push(*x);
                    }
                }
                let mut server = Server::new(dht::ServerSettings::default());
                for target in [u[2].id, u[33].id, [0x77u8; 20], own] {
                    for kind in 0..4usize {
                        let bytes = match kind {
                            0 => krpc::q_find_node(&[0, 0, 0, 1], &rid, &target, None),
                            1 => krpc::q_get_peers(&[0, 0, 0, 1], &rid, &target, false),
                            2 => krpc::q_get(&[0, 0, 0, 1], &rid, &target, None),
                            _ => krpc::q_get_peers(&[0, 0, 0, 1], &rid, &target, true),
                        };
                        let kname = ["find_node", "get_peers", "get", "get_signed_peers"][kind];
                        out.add("evaluations", 1);
                        out.add("distinct_nontrivial", 1);
                        out.add("server_responses", 1);
                        let replay = json!({"kind": "server", "a": a, "b": b, "offset": offset, "target": hex(&target), "q": kname});
                        let got = quiet(|| {
                            catch(|| {
                                let m = decode(&bytes).expect("harness query decodes");
                                let MessageType::Request(r) = m.message_type else { unreachable!() };
                                let reply = server.handle_request(&main, &signed, from, r).expect("a reply");
                                let w = WireMessage { transaction_id: 1, version: None, requester_ip: None, message_type: reply, read_only: false };
                                Krpc::parse(&encode(&w).expect("encode")).and_then(|k| k.res_nodes()).unwrap_or_default()
                            })
                        });
                        let got = match got {
                            Ok(g) => g,
                            Err(p) => {
                                out.violation(format!("server-response/panic/{kname}"), format!("answering {kname} panicked: {p}"), replay);
                                continue;
                            }
                        };
                        let mut dd = got.clone();
                        dd.sort();
                        dd.dedup();
                        let ctx = format!("{kname} answered by a server whose main table has {} nodes and whose signed-peers table has {} ({} of them also in the main table)", m_members.len(), s_members.len(), s_members.iter().filter(|x| m_members.contains(x)).count());
                        if got.len() > 20 {
                            out.violation(format!("server-response/more-than-20/{kname}"), format!("{ctx}: {} nodes in the answer", got.len()), replay.clone());
                        }
                        if dd.len() != got.len() {
                            out.violation(format!("server-response/duplicates/{kname}"), format!("{ctx}: the answer lists {} nodes, only {} distinct", got.len(), dd.len()), replay.clone());
                        }
                        if got.iter().any(|g| !union.contains(g)) {
                            out.violation(format!("server-response/foreign/{kname}"), format!("{ctx}: the answer lists a node that is in neither table"), replay.clone());
                        }
                        match kind {
                            0 => {
                                // signed-peers supporters first, topped up to 20 from the main table
                                let first = brute(&s_members, &target);
                                let rest_pool: Vec<(Id20, SocketAddrV4)> = m_members.iter().filter(|x| !first.contains(x)).cloned().collect();
                                let mut want = first.clone();
                                want.extend(brute(&rest_pool, &target).into_iter().take(20 - first.len()));
                                if dd.len() != want.len().min(20) && dd.len() == got.len() && got.len() <= 20 {
                                    out.violation(format!("server-response/not-full/{kname}"), format!("{ctx}: the answer lists {} nodes although the tables hold {} distinct ones", got.len(), union.len()), replay.clone());
                                } else if got != want && got != brute(&union, &target) && dd.len() == got.len() && got.len() <= 20 {
                                    // (either policy is an answer made of the closest known nodes: supporters of
                                    // signed peers first and the main table's closest after them - what the code
                                    // does - or the first 20 of the two tables taken together)
                                    out.violation(format!("server-response/not-the-closest/{kname}"), format!("{ctx}: the answer is neither the signed-peers table's closest followed by the main table's closest, nor the closest of both tables together"), replay.clone());
                                }
                            }
                            1 | 2 => {
                                if got != brute(&m_members, &target) {
                                    out.violation(format!("server-response/not-the-closest/{kname}"), format!("{ctx}: the answer is not the first 20 of the main table"), replay.clone());
                                }
                            }
                            _ => {
                                if got != brute(&s_members, &target) {
                                    out.violation(format!("server-response/not-the-closest/{kname}"), format!("{ctx}: the answer is not the first 20 of the signed-peers table"), replay.clone());
                                }
                            }
                        }
                    }
                }
                // the same server once it HOLDS data for the targets asked about: an immutable
                // value, a mutable item (asked for without seq, with an older and with the stored
                // seq), a peer and a signed peer. The nodes of a hit are the nodes of a miss.
                let ask = |server: &mut Server, bytes: &[u8]| -> Option<Krpc> {
                    let m = decode(bytes).expect("harness query decodes");
                    let MessageType::Request(r) = m.message_type else { unreachable!() };
                    let reply = server.handle_request(&main, &signed, from, r)?;
                    let w = WireMessage { transaction_id: 1, version: None, requester_ip: None, message_type: reply, read_only: false };
                    Krpc::parse(&encode(&w).expect("encode"))
                };
                let got = quiet(|| {
                    catch(|| {
                        let imm: &[u8] = b"c11 stored immutable value";
                        let t_imm = krpc::immutable_target(imm);
                        let sk = krpc::signing_key(0x11);
                        let pk = sk.verifying_key().to_bytes();
                        let t_mut = krpc::mutable_target(&pk, None);
                        let ih: Id20 = [0x3c; 20];
                        let tid = [0u8, 0, 0, 1];
                        let mut res: Vec<(&'static str, Id20, bool, bool, Vec<(Id20, SocketAddrV4)>)> = vec![];
                        let tok = |k: &Krpc| k.res_bytes("token").map(|t| t.to_vec()).unwrap_or_default();
                        let token = tok(&ask(&mut server, &krpc::q_get(&tid, &rid, &t_imm, None)).expect("reply"));
                        let stored_imm = ask(&mut server, &krpc::q_put_immutable(&tid, &rid, &t_imm, &token, imm)).map(|k| !k.is_error()).unwrap_or(false);
                        let token = tok(&ask(&mut server, &krpc::q_get(&tid, &rid, &t_mut, None)).expect("reply"));
                        let sig = krpc::sign_mutable(&sk, 7, b"c11 item", None);
                        let stored_mut = ask(&mut server, &krpc::q_put_mutable(&tid, &rid, &t_mut, &token, b"c11 item", &pk, &sig, 7, None, None)).map(|k| !k.is_error()).unwrap_or(false);
                        let token = tok(&ask(&mut server, &krpc::q_get_peers(&tid, &rid, &ih, false)).expect("reply"));
                        let stored_peer = ask(&mut server, &krpc::q_announce_peer(&tid, &rid, &ih, &token, 5555, None)).map(|k| !k.is_error()).unwrap_or(false);
                        let ts = crate::sim::UNIX_BASE_MICROS + crate::sim::T0 / 1000;
                        let asig = krpc::sign_announce(&sk, &ih, ts);
                        let stored_signed = ask(&mut server, &krpc::q_announce_signed_peer(&tid, &rid, &ih, &token, &pk, &asig, ts)).map(|k| !k.is_error()).unwrap_or(false);
                        for (name, t, bytes, want_signed_table, stored, field) in [
                            ("get (immutable value held)", t_imm, krpc::q_get(&tid, &rid, &t_imm, None), false, stored_imm, "v"),
                            ("get (mutable item held)", t_mut, krpc::q_get(&tid, &rid, &t_mut, None), false, stored_mut, "v"),
                            ("get (mutable item held, seq below the stored one)", t_mut, krpc::q_get(&tid, &rid, &t_mut, Some(3)), false, stored_mut, "v"),
                            ("get (mutable item held, seq = the stored one)", t_mut, krpc::q_get(&tid, &rid, &t_mut, Some(7)), false, stored_mut, "seq"),
                            ("get_peers (peers held)", ih, krpc::q_get_peers(&tid, &rid, &ih, false), false, stored_peer, "values"),
                            ("get_signed_peers (signed peers held)", ih, krpc::q_get_peers(&tid, &rid, &ih, true), true, stored_signed, "peers"),
                        ] {
                            let k = ask(&mut server, &bytes).expect("reply");
                            let hit = stored && k.res(field).is_some();
                            res.push((name, t, want_signed_table, hit, k.res_nodes().unwrap_or_default()));
                        }
                        res
                    })
                });
                match got {
                    Err(p) => out.violation("server-response/panic/with-data", format!("answering a server that holds data panicked: {p}"), json!({"kind": "server-data", "a": a, "b": b, "offset": offset})),
                    Ok(res) => {
                        for (name, target, want_signed_table, hit, got) in res {
                            out.add("evaluations", 1);
                            out.add("server_responses_with_data", 1);
                            out.add("server_hits", hit as u64);
                            let want = if want_signed_table { brute(&s_members, &target) } else { brute(&m_members, &target) };
                            if got != want {
                                let short = name.split(' ').next().unwrap_or("get");
                                out.violation(
                                    format!("server-response/not-the-closest/{short}/data-held"),
                                    format!("{name} answered by a server whose main table has {} nodes and whose signed-peers table has {}: the answer's {} nodes are not the first 20 of the {} table", m_members.len(), s_members.len(), got.len(), if want_signed_table { "signed-peers" } else { "main" }),
                                    json!({"kind": "server-data", "a": a, "b": b, "offset": offset}),
                                );
                            }
                        }
                    }
                }
            }
        }
    }
}

fn run(tier: Tier, _s: usize, _n: usize, _seed: u64) -> Partial {
    let chunks = super::cores();
    let (u, targets) = universe();
    let usize_n = if tier.is_quick() { 5 } else { 8 };
    let seqs = sequences(8)
        .into_iter()
        .filter(|s| tier == Tier::Thorough || s.len() <= usize_n)
        .collect::<Vec<_>>();
    let owns: Vec<Id20> = vec![[0x01u8; 20], {
        let mut o = u[0].id;
        o[19] ^= 1;
        o
    }, [0xfeu8; 20]];
    let mut merged = par_local(chunks, |chunk, chunks| {
        let mut out = Partial::default();
        for (i, seq) in seqs.iter().enumerate() {
            if i % chunks != chunk {
                continue;
            }
            for t in &targets {
                check_closest_nodes(seq, &u, t, &mut out);
            }
            for own in &owns {
                check_table(seq, &u, own, &targets, &mut out);
            }
        }
        if chunk == 0 {
            check_truncation(&mut out);
        }
        if chunk == 1 % chunks {
            check_large(&mut out);
        }
        if chunk == 2 % chunks {
            check_table_with_stale_members(&mut out);
        }
        if chunk == 3 % chunks {
            check_server_responses(&mut out);
        }
        out
    });
    merged.sample(json!({"kind":"closest_nodes","seq":[1,0,5,6,2,3,4],"target":hex(&targets[0]),"universe":"n0 secure@80.1.2.3, n1 insecure@80.1.2.3, n2/n3 secure same prefix@93.7.7.7, n4 secure other prefix@93.7.7.7, n5/n6 equal insecure ids on two IPs"}));
    merged.sample(json!({"kind":"table","seq":[0,1],"own":hex(&owns[0]),"target":hex(&targets[2])}));
    let n = merged.count("evaluations");
    merged.witness("sequences were generated", n > 10_000);
    merged.witness("servers answered with the data they hold", merged.count("server_hits") > 0);
    merged
}

fn replay(v: &Value) -> Result<Option<Violation>, String> {
    crate::sim::install_env();
    crate::sim::enter_local(crate::sim::T0, 1);
    let mut out = Partial::default();
    let (u, targets) = universe();
    let getid = |k: &str| -> Result<Id20, String> {
        let s = v.get(k).and_then(|x| x.as_str()).ok_or(format!("missing {k}"))?;
        crate::report::unhex(s).ok_or("hex")?.try_into().map_err(|_| "len".to_string())
    };
    let seq = |k: &str| -> Vec<usize> {
        v.get(k)
            .and_then(|s| s.as_array())
            .map(|a| a.iter().filter_map(|x| x.as_u64().map(|x| x as usize)).collect())
            .unwrap_or_default()
    };
    match v.get("kind").and_then(|k| k.as_str()) {
        Some("closest_nodes") => {
            let s = seq("seq");
            let t = getid("target")?;
            if s.iter().any(|i| *i >= 8) || s.len() > 8 {
                let n = s.len();
                check_closest_nodes(&s, &big_universe(n), &t, &mut out);
            } else {
                check_closest_nodes(&s, &u, &t, &mut out);
            }
        }
        Some("table") => {
            let s = seq("seq");
            let own = getid("own")?;
            let ts = match getid("target") {
                Ok(t) => vec![t],
                Err(_) => targets.clone(),
            };
            if s.iter().any(|i| *i >= 8) || s.len() > 8 {
                let n = s.len();
                check_table(&s, &big_universe(n), &own, &ts, &mut out);
            } else {
                check_table(&s, &u, &own, &ts, &mut out);
            }
        }
        Some("take_until_secure") => check_truncation(&mut out),
        Some("stale") => check_table_with_stale_members(&mut out),
        Some("server") | Some("server-data") => check_server_responses(&mut out),
        _ => return Err("kind".into()),
    }
    Ok(out.violations.into_iter().next())
}
