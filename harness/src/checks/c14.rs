//! C14 - routing tables stay healthy over time.
//! Engine E1 with real nodes on long virtual timelines: an observer and four peers; deviations
//! (crash, restart under a new id, late join, lookup on the observer) at every maintenance
//! boundary +-1 s and mid-interval; oracle evaluated at every 5-minute boundary from the
//! network log.

use std::collections::BTreeMap;
use std::net::SocketAddrV4;

use serde_json::{json, Value};

use super::CheckDef;
use crate::explore::Chooser;
use crate::krpc::{Id20, Krpc};
use crate::report::{CheckInfo, Partial, Tier, Violation};
use crate::sim::*;

pub fn def() -> CheckDef {
    CheckDef {
        id: "C14",
        info,
        shards: |_| super::cores(),
        run,
        replay,
    }
}

fn horizon_min(tier: Tier) -> u64 {
    if tier.is_quick() {
        65
    } else {
        180
    }
}

fn info(tier: Tier) -> CheckInfo {
    let mut ci = CheckInfo {
        id: "C14",
        level: "model_checking",
        rule: format!(
            "Tier {}: an observer (server mode) and 4 real peers on a private and on a public IP plan for {} virtual minutes ({} five-minute ping rounds, {} refreshes). The steady timeline is the 0-deviation run; every single deviation{} from {{crash peer p, restart p at the same address under a new id, peer p joins late, a lookup is issued on the observer}} x p in 0..3 x placement in {{each 5-minute boundary -1 s / +1 s, mid-interval}} is run to the horizon, plus: the observer started a minute before its bootstrap peer; every ordered pair (p,q) crashed at minute 5 and minute 27; a blackout (all four peers crash at minute 5, the table is purged empty, the bootstrap peer - alone or followed by a second peer - comes back at minute 26 / 31 / 38; also with a late joiner at minute 7, the blackout at minute 23 / 28 and the bootstrap peer back 14 / 19 minutes later). At every 5-minute boundary (+3 s), from the datagram log: (a) a live peer whose response the observer accepted within the last 15 minutes is in its table; (b) a peer silent for 21 minutes is gone; (c) a restarted peer's new id is present 16 minutes after the restart; (d) the table is not empty while a known peer is alive and a find_node(own id) was sent in every 16-minute window.",
            tier.name(),
            horizon_min(tier),
            horizon_min(tier) / 5,
            horizon_min(tier) / 15,
            if tier.is_quick() { "" } else { " and every pair of deviations over a reduced placement set" }
        ),
        assumptions: vec!["loss-free network, 10 ms latency".into(), "'about 20 minutes' is read as 21 minutes (15 min stale + one 5-minute round + polling slack)".into()],
    };
    ci.rule.push_str(" Added: at the end of every timeline Info and to_bootstrap() must equal the observer's state.");
    ci
}

#[derive(Clone, Debug, PartialEq)]
enum Act {
    Crash(usize),
    Restart(usize),
    Lookup,
}

#[derive(Clone, Debug)]
struct Dev {
    at: u64,
    act: Act,
}

#[derive(Clone, Debug)]
struct Cfg {
    public: bool,
    /// peer that joins late (minute), if any
    late: Option<(usize, u64)>,
    devs: Vec<Dev>,
    horizon: u64,
    /// the observer starts one minute before any of its peers (its bootstrap address is dead
    /// at first)
    observer_first: bool,
    /// the observer is built in the default (adaptive) mode instead of server mode: on public
    /// addresses it confirms its address and turns into a server at its first refresh
    adaptive: bool,
}

fn peer_ip(i: usize, public: bool) -> [u8; 4] {
    if public {
        [41 + i as u8, 40, 50, 60]
    } else {
        [10, 1, 0, i as u8 + 1]
    }
}

fn peer_id(i: usize, gen: usize) -> Id20 {
    let mut id = [0x77u8; 20];
    id[0] = [0x10, 0x90, 0x50, 0xD0, 0x30][i % 5] ^ (gen as u8 * 3);
    id[1] = (i * 17 + gen * 101) as u8;
    id[5] = gen as u8;
    id
}

struct Out {
    problems: Vec<(String, String)>,
    steps: u64,
    digests: Vec<u64>,
    boundaries: u64,
    refreshes: u64,
}

struct PeerState {
    node: usize,
    addr: SocketAddrV4,
    alive: bool,
    crashed_at: Option<u64>,
    restarted_at: Option<u64>,
    gen: usize,
    started: bool,
}

fn scenario(cfg: &Cfg, track: bool) -> Out {
    let mut w = World::new(Chooser::default_run());
    w.track_states = track;
    let mut peers: Vec<PeerState> = vec![];
    let mut boots: Vec<SocketAddrV4> = vec![];
    let n_peers = 4;
    let obs_cfg = NodeCfg::new(if cfg.public { [50, 40, 50, 60] } else { [10, 1, 0, 100] }, 6881).bootstrap(&[SocketAddrV4::new(peer_ip(0, cfg.public).into(), 6881)]).id([0x0B; 20]);
    let mut obs_cfg = if cfg.adaptive { obs_cfg } else { obs_cfg.server() };
    // the observer's bootstrap list starts with two entries that are not addresses (a port out of
    // range, no port): the reachable server listed after them is what counts
    obs_cfg.bootstrap_junk = vec!["66.66.66.66:99999".to_string(), "66.66.66.66".to_string()];
    let mut early_obs: Option<usize> = None;
    if cfg.observer_first {
        early_obs = Some(w.add_node(obs_cfg.clone()));
        w.run_for(MIN);
    }
    for i in 0..n_peers {
        let addr = SocketAddrV4::new(peer_ip(i, cfg.public).into(), 6881);
        let late = cfg.late.map(|(p, _)| p == i).unwrap_or(false);
        if late {
            peers.push(PeerState { node: usize::MAX, addr, alive: false, crashed_at: None, restarted_at: None, gen: 0, started: false });
            continue;
        }
        let n = w.add_node(NodeCfg::new(peer_ip(i, cfg.public), 6881).server().bootstrap(&boots).id(peer_id(i, 0)));
        if i == 0 {
            boots.push(addr);
        }
        let c = w.call_bootstrapped(n);
        let h = w.now + 30 * SEC;
        w.run_calls(&[c], h);
        peers.push(PeerState { node: n, addr, alive: true, crashed_at: None, restarted_at: None, gen: 0, started: true });
    }
    let obs = match early_obs {
        Some(o) => o,
        None => w.add_node(obs_cfg),
    };
    let obs_addr = w.node_addr(obs);
    let t_start = w.now;
    if early_obs.is_none() {
        let c = w.call_bootstrapped(obs);
        let h = w.now + 30 * SEC;
        w.run_calls(&[c], h);
    }

    let mut problems: Vec<(String, String)> = vec![];
    let mut devs = cfg.devs.clone();
    devs.sort_by_key(|d| d.at);
    let mut next_dev = 0usize;
    let mut late_done = cfg.late.is_none();
    let mut boundaries = 0u64;
    let end = t_start + cfg.horizon;
    let mut next_boundary = t_start + 5 * MIN + 3 * SEC;
    // incremental log scan state
    let mut log_pos = 0usize;
    let mut obs_requests: BTreeMap<Vec<u8>, SocketAddrV4> = BTreeMap::new();
    let mut last_accepted: BTreeMap<SocketAddrV4, u64> = BTreeMap::new();
    let mut self_lookups: Vec<u64> = vec![t_start];
    let mut lookup_calls = 0u8;
    loop {
        // next thing to do
        let mut t_next = next_boundary.min(end);
        if next_dev < devs.len() {
            t_next = t_next.min(t_start + devs[next_dev].at);
        }
        if !late_done {
            t_next = t_next.min(t_start + cfg.late.expect("late").1 * MIN);
        }
        w.run_until(t_next, |_, _| false);
        if w.now >= end {
            break;
        }
        // late join
        if !late_done && w.now >= t_start + cfg.late.expect("late").1 * MIN {
            let (p, _) = cfg.late.expect("late");
            let n = w.add_node(NodeCfg::new(peer_ip(p, cfg.public), 6881).server().bootstrap(&boots).id(peer_id(p, 0)));
            peers[p].node = n;
            peers[p].alive = true;
            peers[p].started = true;
            peers[p].restarted_at = Some(w.now); // "present within one refresh" applies to it too
            late_done = true;
            continue;
        }
        // deviations
        if next_dev < devs.len() && w.now >= t_start + devs[next_dev].at {
            let d = devs[next_dev].clone();
            next_dev += 1;
            match d.act {
                Act::Crash(p) => {
                    if peers[p].alive {
                        w.crash(peers[p].node);
                        peers[p].alive = false;
                        peers[p].crashed_at = Some(w.now);
                    }
                }
                Act::Restart(p) => {
                    if peers[p].alive {
                        w.crash(peers[p].node);
                    }
                    if peers[p].started {
                        peers[p].gen += 1;
                        let b: Vec<SocketAddrV4> = if p == 0 { vec![] } else { boots.clone() };
                        let n = w.add_node(NodeCfg::new(peer_ip(p, cfg.public), 6881).server().bootstrap(&b).id(peer_id(p, peers[p].gen)));
                        peers[p].node = n;
                        peers[p].alive = true;
                        peers[p].crashed_at = None;
                        peers[p].restarted_at = Some(w.now);
                    }
                }
                Act::Lookup => {
                    lookup_calls = lookup_calls.wrapping_add(1);
                    let mut t = [0xABu8; 20];
                    t[0] = lookup_calls.wrapping_mul(57);
                    w.call_get_immutable(obs, t.into());
                }
            }
            continue;
        }
        if w.now < next_boundary {
            continue;
        }
        // ------------------------------------------------------------ boundary: evaluate
        next_boundary += 5 * MIN;
        boundaries += 1;
        let now = w.now;
        // scan the new part of the log
        let delivered = w.delivered_ids();
        for e in &w.log[log_pos..] {
            if let LogEntry::Sent { dgram, .. } = e {
                let Some(k) = Krpc::parse(&dgram.bytes) else { continue };
                if dgram.from_node == Some(obs) && k.is_query() {
                    obs_requests.insert(k.t.clone(), dgram.to);
                    if k.q.as_deref() == Some("find_node") && k.arg_bytes("target") == k.arg_bytes("id") {
                        self_lookups.push(dgram.sent_at);
                    }
                } else if dgram.to == obs_addr && k.is_response() {
                    if let Some(at) = delivered.get(&dgram.id) {
                        if obs_requests.get(&k.t) == Some(&dgram.from) {
                            let e = last_accepted.entry(dgram.from).or_insert(0);
                            *e = (*e).max(*at);
                        }
                    }
                }
            }
        }
        log_pos = w.log.len();
        if !w.nodes[obs].alive {
            problems.push(("observer-died".into(), "the observer's actor thread died".into()));
            break;
        }
        let snap = w.snapshot(obs);
        // "its routing table": the node keeps two (the second one for peers that support signed
        // announcements); a peer held in either is known to it
        let main_table: Vec<(Id20, SocketAddrV4)> = snap.core.routing_table.buckets.iter().flat_map(|(_, b)| b.iter().map(|n| (*n.id.as_bytes(), n.address))).collect();
        let table: Vec<(Id20, SocketAddrV4)> = main_table
            .iter()
            .cloned()
            .chain(snap.core.signed_peers_routing_table.buckets.iter().flat_map(|(_, b)| b.iter().map(|n| (*n.id.as_bytes(), n.address))))
            .collect();
        let minute = (now - t_start) / MIN;
        for (p, ps) in peers.iter().enumerate() {
            if !ps.started {
                continue;
            }
            let cur_id = if ps.alive { Some(*w.snapshot(ps.node).core.routing_table.id.as_bytes()) } else { None };
            let in_table_by_addr = table.iter().any(|(_, a)| *a == ps.addr);
            // (a)
            if ps.alive {
                if let Some(at) = last_accepted.get(&ps.addr) {
                    let accepted_since_restart = ps.restarted_at.map(|r| *at > r).unwrap_or(true);
                    if now - at <= 15 * MIN && accepted_since_restart && !in_table_by_addr {
                        problems.push((
                            format!("responsive-peer-missing#{p}"),
                            format!("minute {minute}: peer {p} answered the observer {} s ago and is alive but is not in its routing table", (now - at) / SEC),
                        ));
                    }
                }
            }
            // (b)
            if let Some(c) = ps.crashed_at {
                if !ps.alive && now - c > 21 * MIN && in_table_by_addr {
                    problems.push(("dead-peer-still-in-table".into(), format!("minute {minute}: peer {p} has been silent for {} min and is still in the table", (now - c) / MIN)));
                }
            }
            // (c)
            if let (Some(r), Some(id)) = (ps.restarted_at, cur_id) {
                if ps.alive && now - r > 16 * MIN && now - r <= 21 * MIN && !table.iter().any(|(i, a)| *i == id && *a == ps.addr) {
                    // the node may have re-keyed after confirming its address: accept any entry
                    // for its address that is not the pre-restart id
                    let old = peer_id(p, ps.gen.saturating_sub(1));
                    if !table.iter().any(|(i, a)| *a == ps.addr && (*i != old || ps.gen == 0)) {
                        problems.push((
                            format!("restarted-peer-not-relearned#{p}"),
                            format!("minute {minute}: peer {p} restarted (or joined) {} min ago under a new id which is not in the observer's table", (now - r) / MIN),
                        ));
                    }
                }
            }
        }
        // (d)
        let someone_alive = peers.iter().any(|p| p.alive);
        if someone_alive && main_table.is_empty() {
            problems.push(("table-empty-at-boundary".into(), format!("minute {minute}: the observer's table is empty although a known peer is alive")));
        }
        if now - t_start >= 16 * MIN && !self_lookups.iter().any(|t| now - *t <= 16 * MIN) {
            problems.push(("no-refresh-in-window".into(), format!("minute {minute}: no find_node(own id) was sent in the last 16 minutes")));
        }
    }
    // what the public API reports at the end of the timeline (Info, to_bootstrap) must be the
    // observer's state
    for (k, d) in w.api_view_mismatches(obs) {
        problems.push((k, format!("end of the timeline: {d}")));
    }
    let refreshes = {
        let mut v = self_lookups.clone();
        v.sort();
        v.dedup_by(|a, b| *a - *b < 30 * SEC);
        v.len() as u64
    };
    Out { problems, steps: w.steps, digests: w.state_digests.iter().copied().collect(), boundaries, refreshes }
}

fn dev_desc(d: &Dev) -> String {
    format!("{:?}@{}m{:02}s", d.act, d.at / MIN, (d.at % MIN) / SEC)
}

fn record(c: &Cfg, o: &Out, out: &mut Partial) {
    out.add("executions", 1);
    out.add("transitions", o.steps);
    out.digests.extend(o.digests.iter());
    out.add("boundaries_evaluated", o.boundaries);
    out.gauge_max("max_refreshes_in_one_run", o.refreshes);
    let devs: Vec<String> = c.devs.iter().map(dev_desc).collect();
    let kinds: Vec<String> = c
        .devs
        .iter()
        .map(|d| match d.act {
            Act::Crash(_) => "crash".to_string(),
            Act::Restart(0) => "restart-first-node".to_string(),
            Act::Restart(_) => "restart".to_string(),
            Act::Lookup => "lookup".to_string(),
        })
        .collect();
    out.outcomes.insert(format!("{}:late{:?}:{}:problems{}", if c.public { "public" } else { "private" }, c.late.map(|l| l.1), kinds.join("+"), o.problems.len().min(3)));
    if o.problems.is_empty() {
        out.add("healthy_runs", 1);
    }
    let mut seen = std::collections::BTreeSet::new();
    for (k, d) in &o.problems {
        // findings about one peer carry its index after '#'
        let (k, about) = match k.split_once('#') {
            Some((k, p)) => (k.to_string(), p.parse::<usize>().ok()),
            None => (k.clone(), None),
        };
        // The restarted first node that is never relearned (public plan) is one history whatever
        // else happens to the other peers in the same run: the finding is keyed by that history.
        let first_node_restart = c.public && about == Some(0) && c.devs.iter().any(|d| matches!(d.act, Act::Restart(0))) && (k == "responsive-peer-missing" || k == "restarted-peer-not-relearned");
        let key = if first_node_restart { format!("{k}/public/restart-first-node") } else { format!("{k}/{}/{}{}{}", if c.public { "public" } else { "private" }, if kinds.is_empty() { "steady".to_string() } else { kinds.join("+") }, if c.late.is_some() { "+late-joiner" } else { "" }, if c.observer_first { "+observer-starts-first" } else if c.adaptive { "+adaptive-observer" } else { "" }) };
        if seen.insert(key.clone()) {
            out.violation(
                key,
                format!("{} plan, late joiner {:?}, deviations {devs:?}: {d}", if c.public { "public" } else { "private" }, c.late),
                cfg_json(c),
            );
        }
    }
}

fn cfg_json(c: &Cfg) -> Value {
    json!({"public": c.public, "late": c.late.map(|(p, m)| vec![p as u64, m]), "devs": c.devs.iter().map(|d| json!({"at_s": d.at / SEC, "act": match d.act { Act::Crash(p) => format!("crash{p}"), Act::Restart(p) => format!("restart{p}"), Act::Lookup => "lookup".to_string() }})).collect::<Vec<_>>(), "horizon_min": c.horizon / MIN, "observer_first": c.observer_first, "adaptive": c.adaptive})
}

fn placements(horizon: u64, reduced: bool) -> Vec<u64> {
    let mut v = vec![];
    let mut k = 1;
    while k * 5 * MIN < horizon.saturating_sub(22 * MIN) {
        let b = k * 5 * MIN;
        if reduced {
            if k % 3 == 0 {
                v.push(b + SEC);
            }
        } else {
            v.push(b - SEC);
            v.push(b + SEC);
            v.push(b + 150 * SEC);
        }
        k += 1;
    }
    v
}

fn run(tier: Tier, shard: usize, nshards: usize, _seed: u64) -> Partial {
    let mut out = Partial::default();
    let horizon = horizon_min(tier) * MIN;
    let mut cfgs: Vec<Cfg> = vec![];
    for public in [false, true] {
        // steady, and a late joiner at three different minutes
        cfgs.push(Cfg { public, late: None, devs: vec![], horizon, observer_first: false, adaptive: false });
        for (p, m) in [(3usize, 2u64), (3, 7), (2, 12), (1, 7)] {
            cfgs.push(Cfg { public, late: Some((p, m)), devs: vec![], horizon, observer_first: false, adaptive: false });
        }
        cfgs.push(Cfg { public, late: None, devs: vec![], horizon, observer_first: true, adaptive: false });
        // blackout: every peer dies at minute 5, the observer's table is purged empty, and
        // later its bootstrap peer (alone, or with a second peer) comes back at the same address
        for back_at in [26u64, 31, 38] {
            for second in [false, true] {
                let mut devs: Vec<Dev> = (0..4).map(|p| Dev { at: 5 * MIN + (1 + p as u64) * SEC, act: Act::Crash(p) }).collect();
                devs.push(Dev { at: back_at * MIN + 7 * SEC, act: Act::Restart(0) });
                if second {
                    devs.push(Dev { at: back_at * MIN + 40 * SEC, act: Act::Restart(2) });
                }
                cfgs.push(Cfg { public, late: None, devs, horizon: horizon.max(65 * MIN), observer_first: false, adaptive: false });
            }
        }
        // the same with a late joiner (minute 7) whose own refresh reaches the observer after
        // the observer last heard an answer from it: the two tables age differently
        for crash_at in [23u64, 28] {
            for back_after in [14u64, 19] {
                let mut devs: Vec<Dev> = (0..4).map(|p| Dev { at: crash_at * MIN + (1 + p as u64) * SEC, act: Act::Crash(p) }).collect();
                devs.push(Dev { at: (crash_at + back_after) * MIN + 7 * SEC, act: Act::Restart(0) });
                cfgs.push(Cfg { public, late: Some((3, 7)), devs, horizon: horizon.max(75 * MIN), observer_first: false, adaptive: false });
            }
        }
        // a near peer dies, and more than 20 minutes later a second one
        for p in 0..4 {
            for q in 0..4 {
                if p != q {
                    cfgs.push(Cfg { public, late: None, devs: vec![Dev { at: 5 * MIN + SEC, act: Act::Crash(p) }, Dev { at: 27 * MIN + SEC, act: Act::Crash(q) }], horizon: horizon.max(55 * MIN), observer_first: false, adaptive: false });
                }
            }
        }
        for at in placements(horizon, false) {
            for p in 0..4 {
                cfgs.push(Cfg { public, late: None, devs: vec![Dev { at, act: Act::Crash(p) }], horizon, observer_first: false, adaptive: false });
                cfgs.push(Cfg { public, late: None, devs: vec![Dev { at, act: Act::Restart(p) }], horizon, observer_first: false, adaptive: false });
            }
            cfgs.push(Cfg { public, late: None, devs: vec![Dev { at, act: Act::Lookup }], horizon, observer_first: false, adaptive: false });
        }
        // an adaptive observer (it turns into a server at its first refresh when its address was
        // confirmed): steady, and with its bootstrap peer or another peer crashing at every placement
        cfgs.push(Cfg { public, late: None, devs: vec![], horizon, observer_first: false, adaptive: true });
        for at in placements(horizon, false) {
            for p in [0usize, 2] {
                cfgs.push(Cfg { public, late: None, devs: vec![Dev { at, act: Act::Crash(p) }], horizon, observer_first: false, adaptive: true });
            }
            cfgs.push(Cfg { public, late: None, devs: vec![Dev { at, act: Act::Lookup }], horizon, observer_first: false, adaptive: true });
        }
        if !tier.is_quick() {
            let pl = placements(horizon, true);
            for (i, a1) in pl.iter().enumerate() {
                for a2 in pl.iter().skip(i) {
                    for (x, y) in [(Act::Crash(1), Act::Restart(1)), (Act::Restart(0), Act::Crash(2)), (Act::Crash(0), Act::Lookup), (Act::Restart(3), Act::Restart(3)), (Act::Crash(2), Act::Crash(3))] {
                        cfgs.push(Cfg { public, late: None, devs: vec![Dev { at: *a1, act: x }, Dev { at: *a2 + 7 * SEC, act: y }], horizon, observer_first: false, adaptive: false });
                    }
                }
            }
        }
    }
    if shard == 0 {
        let c = Cfg { public: false, late: Some((3, 7)), devs: vec![Dev { at: 10 * MIN + SEC, act: Act::Restart(1) }], horizon: 40 * MIN, observer_first: false, adaptive: false };
        let (a, b) = (scenario(&c, true), scenario(&c, true));
        assert!(a.steps == b.steps && a.digests.len() == b.digests.len() && a.problems.len() == b.problems.len(), "MACHINERY: scenario is not deterministic");
    }
    for (i, c) in cfgs.iter().enumerate() {
        if i % nshards != shard {
            continue;
        }
        super::guard_dead_actor(&mut out, &format!("{}/{}", if c.public { "public" } else { "private" }, c.devs.iter().map(dev_desc).collect::<Vec<_>>().join("+")), cfg_json(c), |out| {
            let o = scenario(c, i % 40 == 0);
            record(c, &o, out);
        });
    }
    out.witness("timelines without a problem", out.count("healthy_runs") > 0);
    out.witness("several refreshes happened", out.gauges.get("max_refreshes_in_one_run").copied().unwrap_or(0) >= 3 || shard != 0);
    out.sample(json!({"plan": "private", "late_joiner": [3, 7], "deviations": ["Restart(1)@10m01s"], "horizon_min": horizon / MIN}));
    out
}

fn replay(v: &Value) -> Result<Option<Violation>, String> {
    let devs: Vec<Dev> = v
        .get("devs")
        .and_then(|d| d.as_array())
        .ok_or("devs")?
        .iter()
        .filter_map(|d| {
            let at = d.get("at_s")?.as_u64()? * SEC;
            let a = d.get("act")?.as_str()?;
            let act = if a == "lookup" {
                Act::Lookup
            } else if let Some(p) = a.strip_prefix("crash") {
                Act::Crash(p.parse().ok()?)
            } else {
                Act::Restart(a.strip_prefix("restart")?.parse().ok()?)
            };
            Some(Dev { at, act })
        })
        .collect();
    let late = v.get("late").and_then(|l| l.as_array()).and_then(|a| Some((a.first()?.as_u64()? as usize, a.get(1)?.as_u64()?)));
    let cfg = Cfg { public: v.get("public").and_then(|p| p.as_bool()).unwrap_or(false), late, devs, horizon: v.get("horizon_min").and_then(|h| h.as_u64()).unwrap_or(65) * MIN, observer_first: v.get("observer_first").and_then(|h| h.as_bool()).unwrap_or(false), adaptive: v.get("adaptive").and_then(|h| h.as_bool()).unwrap_or(false) };
    let mut out = Partial::default();
    let mut died = Partial::default();
    super::guard_dead_actor(&mut died, "replay", v.clone(), |_| {});
    let o = match std::panic::catch_unwind(std::panic::AssertUnwindSafe(|| scenario(&cfg, false))) {
        Ok(o) => o,
        Err(p) => match p.downcast::<crate::sim::DeadActor>() {
            Ok(d) => return Ok(Some(Violation { key: "actor-died".into(), desc: format!("the actor thread of node {} {}", d.node, d.why), replay: v.clone() })),
            Err(other) => std::panic::resume_unwind(other),
        },
    };
    record(&cfg, &o, &mut out);
    Ok(out.violations.into_iter().next())
}
