//! C18 - client, server and adaptive modes (BEP43).
//! Engine E1, four parts: (a) every request kind sent to a client-mode node; (b) read-only and
//! normal requesters against real servers; (c) lookups answered by endpoints flagging `ro`;
//! (d) adaptive nodes for 35 virtual minutes under every NAT rule x vote pattern.

use std::net::{Ipv4Addr, SocketAddrV4};

use serde_json::{json, Value};

use super::CheckDef;
use crate::bencode::B;
use crate::epnet::EpNet;
use crate::explore::Chooser;
use crate::krpc::{self, bep42_valid, Id20, Krpc};
use crate::report::{CheckInfo, Partial, Tier, Violation};
use crate::sim::*;

pub fn def() -> CheckDef {
    CheckDef {
        id: "C18",
        info,
        shards: |_| super::cores(),
        run,
        replay,
    }
}

fn info(tier: Tier) -> CheckInfo {
    let mut ci = CheckInfo {
        id: "C18",
        level: "model_checking",
        rule: format!(
            "Tier {}: (a) all 8 request kinds (valid and with every single field deviation of C05's grammar) sent to a real client-mode node: it must emit no reply, store nothing, and every request it sends itself carries ro=1. (b) scripted requesters with ro in {{absent,0,1}} sending each request kind to a real server without and with a bootstrap list, plus a real client node looking up through them: no read-only requester may appear in either routing table; non-read-only find_node requesters do appear in the first node's table. (c) a real client looks up (find_node, get_immutable, get_peers, get_mutable) over 3 endpoints, every subset of which flags its replies ro=1: flagged endpoints contribute no value, no table entry and no responder; likewise every subset of 3 storers flags only its acknowledgement of a put (immutable, mutable, announce_peer): flagged acknowledgements do not count. (d) an adaptive node for 35 virtual minutes with 4 peers reporting its address: NAT in {{reachable, firewalled, port-rewritten, reachable until minute 5 then remapped to an unreachable port (a lookup at minute 6 lets the peers report it)}} x votes in {{all truthful, one liar, tie}} x explicit configurations {{adaptive, server_mode(), public_ip()}}{}. Oracle (d): reachable and a truthful majority => a self-addressed ping is observed, firewalled clears and server mode starts at a refresh no later than 30 min; NATed => still a client at 35 min; public_ip => the id is BEP42-valid for it from the start; on the wire, every message the node sends after it was seen in server mode carries no ro flag, every request before that is flagged ro=1 and no reply is sent; a ping from a known peer at minute 32 is answered (unflagged) iff the node is in server mode.",
            tier.name(),
            if tier.is_quick() { "" } else { ", each also with one lost datagram among the votes / the self-ping (deviation bound 1)" }
        ),
        assumptions: vec!["in the tie case either address may win (map iteration order): both outcomes are accepted".into()],
    };
    ci.rule.push_str(" Added: the public Info accessors must equal the node's state; every adaptive / public_ip timeline again with the application calling bootstrapped() at minutes 10 and 24. Also: a lone bootstrap server with an empty table as the node's only voter; without message loss the switch to server mode is due at the first refresh; the same timelines with a request filter that also vetoes the node's own public IP (the confirming self-ping is not a remote request). Read-only flags are spelled 1, 2, 255 and i32::MAX. Part e: two lookups that end in one loop iteration and disagree about the address (one answered by a lying peer only) - the node is a server by the second refresh whichever is processed last.");
    ci
}

const T: Id20 = [0x18; 20];

fn tables_of(w: &World, n: usize) -> (Vec<(Id20, SocketAddrV4)>, Vec<(Id20, SocketAddrV4)>) {
    let s = w.snapshot(n);
    let t = |t: &dht::verif::TableSnapshot| -> Vec<(Id20, SocketAddrV4)> { t.buckets.iter().flat_map(|(_, b)| b.iter().map(|n| (*n.id.as_bytes(), n.address))).collect() };
    (t(&s.core.routing_table), t(&s.core.signed_peers_routing_table))
}

// ------------------------------------------------------------------------------------------ (a)

fn part_a(grams: &[(String, Vec<u8>)], out: &mut Partial) {
    let mut w = World::new(Chooser::default_run());
    let ids = crate::epnet::ranked_ids(&T, 2);
    let mut net = EpNet::new(&mut w, &ids);
    let boots = net.addrs();
    let c = w.add_node(NodeCfg::new([9, 9, 9, 9], 7000).bootstrap(&boots).id([0x21; 20]));
    let c_addr = w.node_addr(c);
    let stranger = SocketAddrV4::new(Ipv4Addr::new(77, 7, 7, 7), 7777);
    let sp = w.add_endpoint(stranger);
    let pump = |w: &mut World, net: &mut EpNet, ev: &Event, replies: &mut u64| {
        if let Event::EndpointRecv { ep, dgram } = ev {
            if *ep == sp {
                *replies += 1;
            } else {
                net.handle(w, *ep, dgram);
            }
        }
    };
    let mut replies = 0u64;
    let h = w.now + 2 * SEC;
    w.run_until(h, |w, ev| {
        pump(w, &mut net, ev, &mut replies);
        false
    });
    // a lookup of its own so that it sends requests
    let call = w.call_get_immutable(c, T.into());
    for (label, bytes) in grams {
        out.add("executions", 1);
        let before = replies;
        w.send_raw_with_latency(stranger, c_addr, bytes.clone(), MS);
        let h = w.now + 40 * MS;
        w.run_until(h, |w, ev| {
            pump(w, &mut net, ev, &mut replies);
            false
        });
        if replies != before {
            out.violation(
                format!("client-replied/{}", label.split(':').next().unwrap_or("")),
                format!("a client-mode node answered a request ({label})"),
                json!({"part": "a", "label": label, "bytes": crate::report::hex(bytes)}),
            );
        }
    }
    let h = w.now + 5 * SEC;
    w.run_until(h, |w, ev| {
        pump(w, &mut net, ev, &mut replies);
        w.result(call).is_some()
    });
    out.add("transitions", w.steps);
    if w.nodes[c].alive {
        let s = w.snapshot(c);
        let srv = &s.core.server;
        if !(srv.immutable.is_empty() && srv.mutable.is_empty() && srv.peers.is_empty() && srv.signed_peers.is_empty()) {
            out.violation("client-stored-data", "a client-mode node stored data from an incoming write".to_string(), json!({"part": "a"}));
        }
        if s.core.server_mode {
            out.violation("client-became-server", "the client switched to server mode within seconds".to_string(), json!({"part": "a"}));
        }
    } else {
        out.violation("actor-died/part-a", "client actor died".to_string(), json!({"part": "a"}));
    }
    // all of its own requests carry ro=1
    let mut own = 0;
    for (d, _) in w.sent() {
        if d.from_node == Some(c) {
            if let Some(k) = Krpc::parse(&d.bytes) {
                if k.is_query() {
                    own += 1;
                    if k.ro != Some(1) {
                        out.violation("client-request-without-ro", format!("a client-mode node sent a {} request with ro={:?}", k.q.clone().unwrap_or_default(), k.ro), json!({"part": "a"}));
                    }
                } else {
                    out.violation("client-sent-reply", format!("a client-mode node sent a {} message", if k.is_response() { "response" } else { "error" }), json!({"part": "a"}));
                }
            }
        }
    }
    out.add("client_requests_seen", own);
}

// ------------------------------------------------------------------------------------------ (b)

fn part_b(out: &mut Partial) {
    let mut w = World::new(Chooser::default_run());
    let s0 = w.add_node(NodeCfg::new([8, 8, 1, 1], 6881).server().id([0x10; 20]));
    let s0_addr = w.node_addr(s0);
    let s1 = w.add_node(NodeCfg::new([8, 8, 2, 1], 6881).server().bootstrap(&[s0_addr]).id([0x90; 20]));
    let s1_addr = w.node_addr(s1);
    let c = w.call_bootstrapped(s1);
    let h = w.now + 30 * SEC;
    w.run_calls(&[c], h);
    // scripted requesters: (ro flag, id, address)
    let mut reqs: Vec<(Option<i64>, Id20, SocketAddrV4)> = vec![];
    // (a flag other than 0 is a set flag: the library reads "ro" like BEP5 reads implied_port)
    for (i, ro) in [None, Some(0), Some(1), Some(2), Some(255), Some(i32::MAX as i64)].into_iter().enumerate() {
        for j in 0..2u8 {
            let mut id = [0x30 + i as u8 * 0x10 + j; 20];
            id[0] = if j == 0 { 0x22 } else { 0xA2 };
            let addr = SocketAddrV4::new(Ipv4Addr::new(70 + i as u8, 1, 1, 1 + j), 5000);
            w.add_endpoint(addr);
            reqs.push((ro, id, addr));
        }
    }
    let kinds: [&'static str; 5] = ["ping", "find_node", "get_peers", "get", "get_signed_peers"];
    let mut tid = 0u32;
    for (ro, id, addr) in &reqs {
        for server in [s0_addr, s1_addr] {
            for q in kinds {
                tid += 1;
                let t = tid.to_be_bytes();
                let mut a: Vec<(&'static str, B)> = vec![("id", B::bytes(id))];
                match q {
                    "find_node" => a.push(("target", B::bytes(id))),
                    "get" => a.push(("target", B::bytes(T))),
                    "get_peers" | "get_signed_peers" => a.push(("info_hash", B::bytes(T))),
                    _ => {}
                }
                let bytes = krpc::query(&t, q, a, *ro, Some(&krpc::VERSION_RS));
                w.send_raw(*addr, server, bytes);
                out.add("executions", 1);
            }
        }
    }
    // a real client node looking things up through the servers
    let cl = w.add_node(NodeCfg::new([9, 9, 9, 9], 7000).bootstrap(&[s0_addr, s1_addr]).id([0x55; 20]));
    let cl_addr = w.node_addr(cl);
    let c1 = w.call_bootstrapped(cl);
    let c2 = w.call_get_immutable(cl, T.into());
    let h = w.now + 30 * SEC;
    w.run_calls(&[c1, c2], h);
    w.run_for(3 * SEC);
    out.add("transitions", w.steps);
    for (name, n) in [("first-node", s0), ("bootstrapped-server", s1)] {
        let (rt, srt) = tables_of(&w, n);
        for (ro, id, addr) in &reqs {
            let present = rt.iter().chain(srt.iter()).any(|(i, a)| i == id || a == addr);
            let flagged = ro.map(|r| r != 0).unwrap_or(false);
            if flagged && present {
                out.violation(format!("ro-requester-in-table/{name}"), format!("a requester that flagged ro={} is in the {name}'s routing tables ({addr})", ro.unwrap_or(0)), json!({"part": "b"}));
            }
            if !flagged && n == s0 && !rt.iter().any(|(i, _)| i == id) {
                out.violation(
                    "first-node-ignores-requester".to_string(),
                    format!("the first node did not add a non-read-only find_node requester ({addr}, ro={ro:?})"),
                    json!({"part": "b"}),
                );
            }
        }
        if rt.iter().chain(srt.iter()).any(|(_, a)| *a == cl_addr) {
            out.violation(format!("real-client-in-table/{name}"), format!("a real client-mode node is in the {name}'s routing tables"), json!({"part": "b"}));
        }
    }
}

// ------------------------------------------------------------------------------------------ (c)

const LOOKUPS: [&str; 4] = ["find_node", "get_immutable", "get_peers", "get_mutable"];
const IMM: &[u8] = b"c18 immutable value";

fn part_c(kind: usize, ro_mask: u8, out: &mut Partial) {
    let mut w = World::new(Chooser::default_run());
    let sk = krpc::signing_key(0x18);
    let pk = sk.verifying_key().to_bytes();
    let target: Id20 = match kind {
        1 => krpc::immutable_target(IMM),
        3 => krpc::mutable_target(&pk, None),
        _ => T,
    };
    let ids = crate::epnet::ranked_ids(&target, 3);
    let mut net = EpNet::new(&mut w, &ids);
    for (i, e) in net.eps.iter_mut().enumerate() {
        if ro_mask & (1 << i) != 0 {
            // each flagged endpoint spells the flag differently
            e.ro = Some([1, 2, 255][i % 3]);
        }
        match kind {
            1 => {
                e.imm.insert(target, IMM.to_vec());
            }
            2 => {
                e.peers.insert(target, vec![SocketAddrV4::new(Ipv4Addr::new(44, 0, 0, i as u8 + 1), 4000 + i as u16)]);
            }
            3 => {
                e.mutable.insert(target, (pk, 3, format!("from-{i}").into_bytes(), krpc::sign_mutable(&sk, 3, format!("from-{i}").as_bytes(), None).to_vec()));
            }
            _ => {}
        }
    }
    let boots = net.addrs();
    let a = w.add_node(NodeCfg::new([9, 9, 9, 9], 7000).bootstrap(&boots).id([0x21; 20]));
    let call = match kind {
        0 => w.call_find_node(a, target.into()),
        1 => w.call_get_immutable(a, target.into()),
        2 => w.call_get_peers(a, target.into()),
        _ => w.call_get_mutable(a, pk, None, None),
    };
    let h = w.now + 30 * SEC;
    w.run_until(h, |w, ev| {
        if let Event::EndpointRecv { ep, dgram } = ev {
            net.handle(w, *ep, dgram);
        }
        false
    });
    out.add("executions", 1);
    out.add("transitions", w.steps);
    let replay = json!({"part": "c", "kind": kind, "ro_mask": ro_mask});
    let flagged: Vec<usize> = (0..3).filter(|i| ro_mask & (1 << i) != 0).collect();
    let (rt, srt) = tables_of(&w, a);
    let snap = w.snapshot(a);
    for i in &flagged {
        let addr = net.eps[*i].addr;
        if rt.iter().chain(srt.iter()).any(|(_, a)| *a == addr) {
            out.violation(format!("ro-responder-in-table/{}", LOOKUPS[kind]), format!("{}: endpoint {i} flags ro=1 but was added to the routing table", LOOKUPS[kind]), replay.clone());
        }
        // for value lookups the cached entry holds the responders (token givers) of that lookup
        if kind != 0 && snap.core.cached_iterative_queries.iter().any(|c| *c.target.as_bytes() == target && c.closest_responding_nodes.iter().any(|n| n.address == addr)) {
            out.violation(format!("ro-responder-cached/{}", LOOKUPS[kind]), format!("{}: endpoint {i} flags ro=1 but is among the cached closest nodes", LOOKUPS[kind]), replay.clone());
        }
    }
    // values: only unflagged endpoints may contribute
    match w.result(call) {
        Some(CallResult::Bytes(v)) => {
            if v.is_some() && flagged.len() == 3 {
                out.violation("ro-value-yielded/get_immutable".to_string(), "a value came only from ro-flagged replies and was yielded".to_string(), replay.clone());
            }
            if v.is_none() && flagged.len() < 3 {
                out.violation("value-missing/get_immutable".to_string(), "an unflagged endpoint holds the value but nothing was yielded".to_string(), replay.clone());
            }
        }
        Some(CallResult::Peers(batches)) => {
            for b in batches {
                for p in b {
                    let i = (p.port() - 4000) as usize;
                    if flagged.contains(&i) {
                        out.violation("ro-value-yielded/get_peers".to_string(), format!("peers from ro-flagged endpoint {i} were yielded"), replay.clone());
                    }
                }
            }
            if batches.len() != 3 - flagged.len() {
                out.violation("value-count/get_peers".to_string(), format!("{} batches yielded, {} endpoints are unflagged", batches.len(), 3 - flagged.len()), replay.clone());
            }
        }
        Some(CallResult::Mutables(items)) => {
            for it in items {
                let v = String::from_utf8_lossy(it.value()).to_string();
                if let Some(i) = v.strip_prefix("from-").and_then(|x| x.parse::<usize>().ok()) {
                    if flagged.contains(&i) {
                        out.violation("ro-value-yielded/get_mutable".to_string(), format!("the item from ro-flagged endpoint {i} was yielded"), replay.clone());
                    }
                }
            }
            if items.len() != 3 - flagged.len() {
                out.violation("value-count/get_mutable".to_string(), format!("{} items yielded, {} endpoints are unflagged", items.len(), 3 - flagged.len()), replay.clone());
            }
        }
        Some(CallResult::Nodes(_)) => {}
        other => out.violation(format!("no-result/{}", LOOKUPS[kind]), format!("{other:?}"), replay.clone()),
    }
    out.add("part_c_done", 1);
}

/// (c'): endpoints answer the lookup normally but flag their acknowledgement of the write.
fn part_c_put(kind: usize, ro_mask: u8, out: &mut Partial) {
    let mut w = World::new(Chooser::default_run());
    let item = dht::MutableItem::new(&krpc::signing_key(0x19), b"c18", 1, None);
    let target: Id20 = match kind {
        0 => krpc::immutable_target(IMM),
        1 => *item.target().as_bytes(),
        _ => T,
    };
    let ids = crate::epnet::ranked_ids(&target, 3);
    let mut net = EpNet::new(&mut w, &ids);
    for (i, e) in net.eps.iter_mut().enumerate() {
        if ro_mask & (1 << i) != 0 {
            e.ro_on_put_replies = Some([1, 2, 255][i % 3]);
        }
    }
    let boots = net.addrs();
    let a = w.add_node(NodeCfg::new([9, 9, 9, 9], 7000).bootstrap(&boots).id([0x21; 20]));
    let h = w.now + 2 * SEC;
    w.run_until(h, |w, ev| {
        if let Event::EndpointRecv { ep, dgram } = ev {
            net.handle(w, *ep, dgram);
        }
        false
    });
    let call = match kind {
        0 => w.call_put_immutable(a, IMM.to_vec()),
        1 => w.call_put_mutable(a, item, None),
        _ => w.call_announce_peer(a, target.into(), Some(77)),
    };
    let h = w.now + 30 * SEC;
    w.run_until(h, |w, ev| {
        if let Event::EndpointRecv { ep, dgram } = ev {
            net.handle(w, *ep, dgram);
        }
        w.result(call).is_some()
    });
    out.add("executions", 1);
    out.add("transitions", w.steps);
    let unflagged = 3 - ro_mask.count_ones() as usize;
    let ok = matches!(w.result(call), Some(CallResult::Put(Ok(_))));
    let names = ["put_immutable", "put_mutable", "announce_peer"];
    if ok != (unflagged > 0) {
        out.violation(
            format!("ro-put-reply-counted/{}", names[kind]),
            format!("{}: {} of 3 storers flag their acknowledgement ro=1; the put returned {:?}", names[kind], 3 - unflagged, w.result(call)),
            json!({"part": "c-put", "kind": kind, "ro_mask": ro_mask}),
        );
    }
}

// ------------------------------------------------------------------------------------------ (d)

const NATS: [&str; 4] = ["reachable", "firewalled", "port-rewritten", "port-remapped-after-confirmation"];
const VOTES: [&str; 6] = ["all-truthful", "one-liar", "tie", "one-liar-higher-address", "one-liar-same-ip-higher-port", "lone-bootstrap-with-an-empty-table"];
const CONFS: [&str; 3] = ["adaptive", "server_mode()", "public_ip()"];

thread_local! {
    /// The application on the observed node calls `bootstrapped()` (a lookup of its own id) at
    /// minutes 10 and 24 of the timeline.
    static APP_CALLS: std::cell::Cell<bool> = const { std::cell::Cell::new(false) };
    /// The configured request filter also vetoes the node's own public IP (a user who drops
    /// requests that claim to come from the node itself): the confirming self-ping is the
    /// node's own mechanism, not a remote request, and is not subject to the filter.
    static VETO_OWN_IP: std::cell::Cell<bool> = const { std::cell::Cell::new(false) };
}

struct DOut {
    problems: Vec<(String, String)>,
    steps: u64,
    digests: Vec<u64>,
    self_ping_seen: bool,
    server_at_min: Option<u64>,
}

fn part_d(chooser: Chooser, nat: usize, votes: usize, conf: usize, faults: bool, track: bool) -> (Chooser, DOut) {
    let mut w = World::new(chooser);
    w.track_states = track;
    w.keep_log = true;
    let ip = Ipv4Addr::new(93, 184, 216, 34);
    // four voting peers and a fifth DHT node that shares the observed node's public IP (another
    // host behind the same NAT, another port): the node queries it like any peer, and at minute
    // 12 it pings the node - which is no confirmation of the node's own address
    let ids = crate::epnet::ranked_ids(&T, 5);
    let mut net = EpNet::new(&mut w, &ids);
    let sibling = SocketAddrV4::new(ip, 51413);
    let sib_ep = net.base + 4;
    w.endpoints[sib_ep].addr = sibling;
    net.eps[4].addr = sibling;
    // votes pattern 5: one bootstrap server that knows nobody (its answers list no nodes, but
    // they still report the requester's address): the node's only lookups "find nothing"
    let lone = votes == 5;
    if lone {
        for e in net.eps.iter_mut() {
            e.knows = Some(vec![]);
        }
    }
    let boots: Vec<SocketAddrV4> = net.addrs()[..if lone { 1 } else { 4 }].to_vec();
    let mut sibling_pinged = false;
    let mut cfg = NodeCfg::new(ip.octets(), 7000).bootstrap(&boots).id([0x21; 20]);
    cfg.nat = match nat {
        0 => Nat::None,
        1 => Nat::Firewalled,
        2 => Nat::PortRewrite(40123),
        // reachable when it confirms its address; five minutes later the NAT maps it to
        // another (unreachable) port, and a lookup at minute 6 lets its peers tell it so
        _ => Nat::None,
    };
    match conf {
        1 => cfg.server_mode = true,
        2 => {
            cfg.public_ip = Some(ip);
            // from_ipv4 draws 21 bytes
            cfg.rng_script = vec![vec![0x5Au8; 21]];
        }
        _ => {}
    }
    // every node is configured with a request filter (vetoing one IP): a node that becomes a
    // server later must consult the filter it was configured with
    let vetoed = SocketAddrV4::new(Ipv4Addr::new(66, 66, 66, 66), 6000);
    let allowed = SocketAddrV4::new(Ipv4Addr::new(67, 1, 1, 1), 6000);
    cfg.server_settings = if VETO_OWN_IP.with(|c| c.get()) {
        Some(dht::ServerSettings { filter: Box::new(crate::srv::VetoIps { ips: vec![*vetoed.ip(), ip] }), ..Default::default() })
    } else {
        Some(dht::ServerSettings { filter: Box::new(crate::srv::VetoFilter { ip: *vetoed.ip() }), ..Default::default() })
    };
    let vetoed_ep = w.add_endpoint(vetoed);
    let allowed_ep = w.add_endpoint(allowed);
    let mut filter_probe_sent = false;
    let mut vetoed_answered = false;
    let mut allowed_answered = false;
    let ext = cfg.addr();
    w.faults.menu = vec![Fate::Deliver(DEFAULT_LATENCY), Fate::Drop];
    w.faults.enabled = faults;
    w.fault_filter = Some(Box::new(move |d: &Datagram| d.to == ext && d.sent_at < T0 + 10 * SEC));
    let a = w.add_node(cfg);
    // what the lying minority reports: an address that sorts below the true one, above it, or the
    // true IP with a higher port (a second NAT mapping)
    let liar = match votes {
        3 => SocketAddrV4::new(Ipv4Addr::new(250, 6, 6, 6), 666),
        4 => SocketAddrV4::new(ip, 65000),
        _ => SocketAddrV4::new(Ipv4Addr::new(6, 6, 6, 6), 666),
    };
    let mut self_ping_seen = false;
    let mut server_at: Option<u64> = None;
    let mut firewalled_cleared_at: Option<u64> = None;
    let start = w.now;
    let h = start + 35 * MIN;
    let mut next_sample = start;
    let mut remapped = false;
    let mut lookup_issued = false;
    let mut probe_sent = false;
    let app_calls = APP_CALLS.with(|c| c.get());
    let mut app_calls_made = 0u64;
    let mut probe_reply: Option<Option<i128>> = None;
    let probe_tid = [0x70u8, 0x72, 0x6f, 0x62];
    loop {
        if nat == 3 && !remapped && w.now >= start + 5 * MIN {
            w.nodes[a].cfg.nat = Nat::PortRewrite(40123);
            remapped = true;
        }
        if nat == 3 && !lookup_issued && w.now >= start + 6 * MIN {
            let _ = w.call_find_node(a, [0x6Cu8; 20].into());
            lookup_issued = true;
        }
        if app_calls && app_calls_made < 2 && w.now >= start + [10 * MIN, 24 * MIN][app_calls_made as usize] {
            let _ = w.call_bootstrapped(a);
            app_calls_made += 1;
        }
        if !probe_sent && w.now >= start + 32 * MIN {
            // a peer the node has talked to pings it at its current external address
            let to = w.nodes[a].cfg.addr();
            w.send_raw(net.eps[0].addr, to, krpc::q_ping(&probe_tid, &net.eps[0].id));
            probe_sent = true;
        }
        if !sibling_pinged && w.now >= start + 12 * MIN {
            let to = w.nodes[a].cfg.addr();
            w.send_raw(sibling, to, krpc::q_ping(&[0x73, 0x69, 0x62, 0x6c], &net.eps[4].id));
            sibling_pinged = true;
        }
        if !filter_probe_sent && w.now >= start + 33 * MIN {
            let to = w.nodes[a].cfg.addr();
            w.send_raw(vetoed, to, krpc::q_get_peers(&[0x76, 0x65, 0x74, 0x6f], &[0x66; 20], &T, false));
            w.send_raw(allowed, to, krpc::q_get_peers(&[0x61, 0x6c, 0x6c, 0x6f], &[0x67; 20], &T, false));
            filter_probe_sent = true;
        }
        let stop = [start + 5 * MIN, start + 6 * MIN, start + 10 * MIN, start + 12 * MIN, start + 24 * MIN, start + 32 * MIN, start + 33 * MIN, h].into_iter().filter(|t| *t > w.now).min().unwrap_or(h);
        let Some(ev) = w.step(stop) else {
            if stop >= h {
                break;
            }
            w.advance_to(stop);
            continue;
        };
        match &ev {
            Event::EndpointRecv { ep, .. } if *ep == vetoed_ep => vetoed_answered = true,
            Event::EndpointRecv { ep, .. } if *ep == allowed_ep => allowed_answered = true,
            Event::EndpointRecv { ep, dgram } => {
                let i = net.index_of(*ep).expect("ep");
                if let Some(k) = Krpc::parse(&dgram.bytes) {
                    if !k.is_query() && k.t == probe_tid {
                        probe_reply = Some(k.ro);
                    }
                }
                if let Some(q) = Krpc::parse(&dgram.bytes) {
                    if q.is_query() {
                        if let Some(bytes) = net.honest_reply(i, &q, dgram.from, w.now) {
                            // rewrite the reported address for liars
                            let lies = match votes {
                                1 | 3 | 4 => i == 0,
                                2 => i < 2,
                                _ => false,
                            };
                            let bytes = if lies {
                                let (mut tree, _) = crate::bencode::decode(&bytes).expect("own reply");
                                tree.set("ip", B::bytes(krpc::compact_addr(&liar)));
                                crate::bencode::encode(&tree)
                            } else {
                                bytes
                            };
                            let from = net.eps[i].addr;
                            w.send_raw(from, dgram.from, bytes);
                        }
                    }
                }
            }
            Event::Arrived { node, id } if *node == a => {
                // a ping that the node addressed to itself?
                if let Some(d) = w.sent().map(|(d, _)| d).find(|d| d.id == *id) {
                    if d.from_node == Some(a) {
                        if let Some(k) = Krpc::parse(&d.bytes) {
                            self_ping_seen |= k.is_query() && k.q.as_deref() == Some("ping");
                        }
                    }
                }
            }
            _ => {}
        }
        if w.now >= next_sample && w.nodes[a].alive {
            next_sample = w.now + 10 * SEC;
            let s = w.snapshot(a);
            if s.core.server_mode && server_at.is_none() {
                server_at = Some(w.now - start);
            }
            if !s.core.firewalled && firewalled_cleared_at.is_none() {
                firewalled_cleared_at = Some(w.now - start);
            }
        }
    }
    let mut problems = vec![];
    let ctx = format!("{} node, NAT {}, votes {}", CONFS[conf], NATS[nat], VOTES[votes]);
    if !w.nodes[a].alive {
        problems.push(("actor-died".to_string(), ctx.clone()));
    } else {
        let s = w.snapshot(a);
        match conf {
            1 => {
                if !s.core.server_mode {
                    problems.push(("explicit-server-not-server".into(), ctx.clone()));
                }
            }
            2 => {
                let id = *s.core.routing_table.id.as_bytes();
                // the id drawn at start must already be valid (checked on the first request)
                let first_id = w.sent().find_map(|(d, _)| if d.from_node == Some(a) { Krpc::parse(&d.bytes).and_then(|k| k.sender_id()) } else { None });
                if first_id.map(|f| !bep42_valid(&f, ip)).unwrap_or(true) || !bep42_valid(&id, ip) {
                    problems.push(("public-ip-id-not-secure".into(), format!("{ctx}: the node's id is not BEP42-valid for its configured public ip")));
                }
            }
            _ => {}
        }
        if conf != 1 {
            let truthful_majority = votes != 2;
            if nat == 0 && votes != 2 {
                if !self_ping_seen {
                    problems.push((format!("no-self-ping/{}", VOTES[votes]), format!("{ctx}: reachable at the reported address but no self-addressed ping was observed in 35 minutes")));
                }
                if s.core.firewalled {
                    problems.push((format!("firewalled-not-cleared/{}", VOTES[votes]), format!("{ctx}: still firewalled after 35 minutes")));
                }
                // "at the next 15-minute refresh": its peers report the address from the first
                // lookup on, so without message loss that is the refresh at minute 15; when replies
                // of the first ten seconds may be lost, the one after it at the latest
                let deadline = if faults { 30 * MIN + 30 * SEC } else { 15 * MIN + 60 * SEC };
                if !s.core.server_mode || server_at.map(|t| t > deadline).unwrap_or(true) {
                    problems.push((format!("no-switch-to-server/{}", VOTES[votes]), format!("{ctx}: server mode reached at {:?} min (must be by the {} refresh)", server_at.map(|t| t / MIN), if faults { "second" } else { "first" })));
                }
                if s.core.public_address != Some(ext) {
                    problems.push((format!("wrong-public-address/{}", VOTES[votes]), format!("{ctx}: public_address = {:?}, peers report {ext}", s.core.public_address)));
                }
            }
            if nat != 0 {
                if s.core.server_mode || !s.core.firewalled {
                    problems.push((format!("nat-node-became-server/{}", NATS[nat]), format!("{ctx}: server_mode={} firewalled={} although the reported address is not reachable", s.core.server_mode, s.core.firewalled)));
                }
            }
            if nat == 0 && votes == 2 && s.core.server_mode && !self_ping_seen {
                problems.push(("server-without-confirmation".into(), format!("{ctx}: switched to server mode without a confirming self-ping")));
            }
            let _ = truthful_majority;
        }
        // what the public API reports (Info, to_bootstrap) must be the node's state
        for (k, d) in w.api_view_mismatches(a) {
            problems.push((k, format!("{ctx}: {d}")));
        }
    }
    // ---- on the wire: read-only flags must follow the mode the node is in. The switch is
    // observed by sampling every 10 s, so messages sent more than 10 s before the first
    // server-mode sample are client-mode messages and those after it server-mode messages.
    if w.nodes[a].alive {
        let mut bad_client: Option<String> = None;
        let mut bad_server: Option<String> = None;
        for (d, _) in w.sent() {
            if d.from_node != Some(a) {
                continue;
            }
            let Some(k) = Krpc::parse(&d.bytes) else { continue };
            let t = d.sent_at - start;
            let flagged = k.ro.map(|r| r != 0).unwrap_or(false);
            match server_at {
                Some(sa) if t > sa => {
                    if flagged && bad_server.is_none() {
                        bad_server = Some(format!("a {} sent at minute {} (server mode since minute {}) is flagged ro=1", if k.is_query() { "request" } else { "reply" }, t / MIN, sa / MIN));
                    }
                }
                Some(sa) if t + 10 * SEC >= sa => {}
                _ => {
                    if k.is_query() && !flagged && bad_client.is_none() {
                        bad_client = Some(format!("a request sent at minute {} while in client mode is not flagged read-only", t / MIN));
                    }
                    if !k.is_query() && bad_client.is_none() && d.to != d.from {
                        bad_client = Some(format!("a reply was sent at minute {} while in client mode", t / MIN));
                    }
                }
            }
        }
        if let Some(b) = bad_server {
            problems.push(("server-mode-messages-flagged-read-only".into(), format!("{ctx}: {b}")));
        }
        if let Some(b) = bad_client {
            problems.push(("client-mode-wire-behaviour".into(), format!("{ctx}: {b}")));
        }
        let s = w.snapshot(a);
        if vetoed_answered {
            problems.push(("vetoed-request-answered".into(), format!("{ctx}: a request from the address the configured request filter vetoes was answered at minute 33 (server mode: {})", s.core.server_mode)));
        }
        if s.core.server_mode && nat == 0 && !allowed_answered {
            problems.push(("server-does-not-answer".into(), format!("{ctx}: in server mode at minute 33 but a get_peers from a stranger got no reply")));
        }
        match (s.core.server_mode, probe_reply) {
            (true, None) if nat == 0 => problems.push(("server-does-not-answer".into(), format!("{ctx}: in server mode at minute 32 but a ping from a known peer got no reply"))),
            (true, Some(Some(r))) if r != 0 => problems.push(("server-mode-messages-flagged-read-only".into(), format!("{ctx}: the reply to a ping at minute 32 is flagged ro={r}"))),
            (false, Some(_)) => problems.push(("client-answered-a-request".into(), format!("{ctx}: in client mode at minute 32 but answered a ping"))),
            _ => {}
        }
    }
    let out = DOut { problems, steps: w.steps, digests: w.state_digests.iter().copied().collect(), self_ping_seen, server_at_min: server_at.map(|t| t / MIN) };
    let ch = std::mem::take(&mut w.chooser);
    (ch, out)
}

// ------------------------------------------------------------------------------------------ (e)
/// Two lookups that end in the same loop iteration and disagree about the node's address: for
/// target X only the lying peer answers (it reports W), for target Y the liar and two truthful
/// peers answer (the majority reports the true address A); the fourth peer answers neither, so
/// both lookups end when their requests to it expire. Whichever of the two the node processes
/// last decides what it believes for now - but the address it pings must be the one it believes,
/// and a reachable node is a server by the second refresh at the latest.
fn part_e(pair: usize, swap: bool, out: &mut Partial) {
    let mut w = World::new(Chooser::default_run());
    let ip = Ipv4Addr::new(93, 184, 216, 34);
    let ids = crate::epnet::ranked_ids(&T, 4);
    let mut net = EpNet::new(&mut w, &ids);
    let boots: Vec<SocketAddrV4> = net.addrs();
    let a = w.add_node(NodeCfg::new(ip.octets(), 7000).bootstrap(&boots).id([0x21; 20]));
    let ext = w.node_addr(a);
    let liar = SocketAddrV4::new(Ipv4Addr::new(6, 6, 6, 6), 666);
    let targets: [Id20; 2] = [[[0x3A; 20], [0xC5; 20]], [[0x71; 20], [0x8E; 20]]][pair % 2];
    let (x, y) = if swap { (targets[1], targets[0]) } else { (targets[0], targets[1]) };
    let start = w.now;
    let mut issued = false;
    let mut both_pending = false;
    let mut ended_together = false;
    let mut server_at: Option<u64> = None;
    let mut next_sample = start;
    let h = start + 35 * MIN;
    loop {
        if !issued && w.now >= start + 5 * MIN {
            issued = true;
            let _ = w.call_find_node(a, x.into());
            let _ = w.call_find_node(a, y.into());
        }
        let stop = if issued { h } else { start + 5 * MIN };
        let Some(ev) = w.step(stop) else {
            if stop >= h {
                break;
            }
            w.advance_to(stop);
            continue;
        };
        match &ev {
            Event::EndpointRecv { ep, dgram } => {
                let i = net.index_of(*ep).expect("ep");
                if let Some(q) = Krpc::parse(&dgram.bytes) {
                    if q.is_query() {
                        let t = q.query_target();
                        // who answers what: X - the liar only; Y - the liar and peers 1, 2; peer 3
                        // answers neither of the two
                        let answers = if t == Some(x) {
                            i == 0
                        } else if t == Some(y) {
                            i <= 2
                        } else {
                            true
                        };
                        if answers {
                            if let Some(bytes) = net.honest_reply(i, &q, dgram.from, w.now) {
                                let bytes = if i == 0 && (t == Some(x) || t == Some(y)) {
                                    let (mut tree, _) = crate::bencode::decode(&bytes).expect("own reply");
                                    tree.set("ip", B::bytes(krpc::compact_addr(&liar)));
                                    crate::bencode::encode(&tree)
                                } else {
                                    bytes
                                };
                                let from = net.eps[i].addr;
                                w.send_raw(from, dgram.from, bytes);
                            }
                        }
                    }
                }
            }
            Event::Iter { node } if *node == a && issued && !ended_together => {
                let s = w.snapshot(a);
                let pending = s.core.iterative_queries.iter().filter(|q| *q.target.as_bytes() == x || *q.target.as_bytes() == y).count();
                if pending == 2 {
                    both_pending = true;
                } else if both_pending && pending == 0 {
                    ended_together = true;
                } else if pending == 1 {
                    both_pending = false;
                }
            }
            _ => {}
        }
        if w.now >= next_sample {
            next_sample = w.now + 10 * SEC;
            let s = w.snapshot(a);
            if s.core.server_mode && server_at.is_none() {
                server_at = Some(w.now - start);
            }
        }
    }
    out.add("executions", 1);
    out.add("transitions", w.steps);
    out.add("two_lookups_ended_in_one_iteration", ended_together as u64);
    let s = w.snapshot(a);
    let ctx = format!("adaptive reachable node; at minute 5 two lookups, one answered by a lying peer only, one by the liar and two truthful peers, both ending when their requests to a silent peer expire ({}in one loop iteration)", if ended_together { "" } else { "NOT " });
    if server_at.map(|t| t > 30 * MIN + 30 * SEC).unwrap_or(true) || s.core.firewalled || s.core.public_address != Some(ext) {
        out.violation(
            "no-switch-to-server/two-lookups-end-in-one-iteration",
            format!("{ctx}: server mode reached at {:?} min, firewalled = {}, public_address = {:?} (true address {ext}) after 35 minutes", server_at.map(|t| t / MIN), s.core.firewalled, s.core.public_address),
            json!({"part": "e", "pair": pair, "swap": swap}),
        );
    }
    out.outcomes.insert(format!("two-lookups:pair{pair}:swap{swap}:together={ended_together}:server@{:?}", server_at.map(|t| t / MIN)));
}

fn run(tier: Tier, shard: usize, nshards: usize, _seed: u64) -> Partial {
    let mut out = Partial::default();
    let mut unit = 0usize;
    let mut mine = || {
        unit += 1;
        unit % nshards == shard
    };
    // (a)
    let mut grams: Vec<(String, Vec<u8>)> = vec![];
    for t in super::c05::templates().iter().filter(|t| t.name.starts_with("q-")) {
        grams.push((format!("{}:valid", t.name), crate::bencode::encode(&t.msg)));
        grams.extend(super::c05::singles(t));
    }
    let chunk = grams.len().div_ceil(nshards);
    if let Some(my) = grams.chunks(chunk).nth(shard) {
        part_a(my, &mut out);
    }
    // (b)
    if mine() {
        part_b(&mut out);
    }
    // (c)
    for kind in 0..4 {
        for mask in 0..8u8 {
            if mine() {
                part_c(kind, mask, &mut out);
            }
        }
    }
    for kind in 0..3 {
        for mask in 0..8u8 {
            if mine() {
                part_c_put(kind, mask, &mut out);
            }
        }
    }
    // (d)
    for conf in 0..3 {
        for nat in 0..4 {
            for votes in 0..VOTES.len() {
                if !mine() {
                    continue;
                }
                let (_, o) = part_d(Chooser::default_run(), nat, votes, conf, false, true);
                out.add("executions", 1);
                out.add("transitions", o.steps);
                out.digests.extend(o.digests.iter());
                out.outcomes.insert(format!("{}:{}:{}:selfping={}:server@{:?}", CONFS[conf], NATS[nat], VOTES[votes], o.self_ping_seen, o.server_at_min));
                if o.self_ping_seen {
                    out.add("self_pings", 1);
                }
                for (k, d) in o.problems {
                    out.violation(k, d, json!({"part": "d", "nat": nat, "votes": votes, "conf": conf, "choices": []}));
                }
                if conf != 1 {
                    // the same timeline while the application looks its own id up (bootstrapped())
                    // at minutes 10 and 24: the mode switch still happens at a 15-minute refresh
                    APP_CALLS.with(|c| c.set(true));
                    let (_, o) = part_d(Chooser::default_run(), nat, votes, conf, false, false);
                    APP_CALLS.with(|c| c.set(false));
                    out.add("executions", 1);
                    out.add("timelines_with_own_id_lookups", 1);
                    out.add("transitions", o.steps);
                    for (k, d) in o.problems {
                        out.violation(format!("{k}/with-own-id-lookups"), format!("[bootstrapped() called at minutes 10 and 24] {d}"), json!({"part": "d", "nat": nat, "votes": votes, "conf": conf, "choices": [], "app_calls": true}));
                    }
                }
                if conf != 1 && (votes == 0 || votes == 5) {
                    // the same timeline with a request filter that also vetoes the node's own IP
                    VETO_OWN_IP.with(|c| c.set(true));
                    let (_, o) = part_d(Chooser::default_run(), nat, votes, conf, false, false);
                    VETO_OWN_IP.with(|c| c.set(false));
                    out.add("executions", 1);
                    out.add("timelines_with_own_ip_vetoed", 1);
                    out.add("transitions", o.steps);
                    for (k, d) in o.problems {
                        out.violation(format!("{k}/filter-vetoes-own-ip"), format!("[the configured request filter also vetoes the node's own public IP] {d}"), json!({"part": "d", "nat": nat, "votes": votes, "conf": conf, "choices": [], "veto_own_ip": true}));
                    }
                }
                if !tier.is_quick() && conf == 0 {
                    let mut ex = crate::explore::Explorer::new(1, (0, 1));
                    ex.explore(&mut |chooser, _| {
                        let (ch, o) = part_d(chooser, nat, votes, conf, true, false);
                        if ch.choices().iter().any(|c| *c > 0) {
                            out.add("executions", 1);
                            out.add("transitions", o.steps);
                            // with a lost datagram only the safety half is demanded
                            for (k, d) in o.problems {
                                if k.starts_with("nat-node-became-server") || k.starts_with("server-without") || k == "actor-died" {
                                    out.violation(format!("{k}/with-loss"), d, json!({"part": "d", "nat": nat, "votes": votes, "conf": conf, "choices": ch.choices()}));
                                }
                            }
                        }
                        (ch, true)
                    });
                }
            }
        }
    }
    // (e)
    for pair in 0..2 {
        for swap in [false, true] {
            if mine() {
                part_e(pair, swap, &mut out);
            }
        }
    }
    out.witness("client requests were observed", out.count("client_requests_seen") > 0 || shard != 0);
    out.sample(json!({"part": "d", "conf": "adaptive", "nat": "reachable", "votes": "one-liar", "horizon_min": 35}));
    out.sample(json!({"part": "c", "lookup": "get_peers", "ro_mask": 5}));
    out
}

fn replay(v: &Value) -> Result<Option<Violation>, String> {
    let mut out = Partial::default();
    match v.get("part").and_then(|p| p.as_str()) {
        Some("a") => {
            let label = v.get("label").and_then(|l| l.as_str()).unwrap_or("q-ping:valid").to_string();
            let bytes = v.get("bytes").and_then(|b| b.as_str()).and_then(crate::report::unhex).unwrap_or_else(|| krpc::q_ping(&[0, 0, 0, 1], &[1; 20]));
            part_a(&[(label, bytes)], &mut out)
        }
        Some("b") => part_b(&mut out),
        Some("e") => part_e(v.get("pair").and_then(|x| x.as_u64()).unwrap_or(0) as usize, v.get("swap").and_then(|x| x.as_bool()).unwrap_or(false), &mut out),
        Some("c") => part_c(v.get("kind").and_then(|x| x.as_u64()).ok_or("kind")? as usize, v.get("ro_mask").and_then(|x| x.as_u64()).ok_or("mask")? as u8, &mut out),
        Some("c-put") => part_c_put(v.get("kind").and_then(|x| x.as_u64()).ok_or("kind")? as usize, v.get("ro_mask").and_then(|x| x.as_u64()).ok_or("mask")? as u8, &mut out),
        Some("d") => {
            let choices: Vec<u32> = v.get("choices").and_then(|c| c.as_array()).map(|a| a.iter().filter_map(|x| x.as_u64().map(|x| x as u32)).collect()).unwrap_or_default();
            let g = |k: &str| v.get(k).and_then(|x| x.as_u64()).map(|x| x as usize);
            let app = v.get("app_calls").and_then(|x| x.as_bool()).unwrap_or(false);
            APP_CALLS.with(|c| c.set(app));
            let veto = v.get("veto_own_ip").and_then(|x| x.as_bool()).unwrap_or(false);
            VETO_OWN_IP.with(|c| c.set(veto));
            let (_, o) = part_d(Chooser::new(choices.clone()), g("nat").ok_or("nat")?, g("votes").ok_or("votes")?, g("conf").ok_or("conf")?, !choices.is_empty(), false);
            APP_CALLS.with(|c| c.set(false));
            VETO_OWN_IP.with(|c| c.set(false));
            for (k, d) in o.problems {
                out.violation(if app { format!("{k}/with-own-id-lookups") } else if veto { format!("{k}/filter-vetoes-own-ip") } else { k }, d, v.clone());
            }
        }
        _ => return Err("part".into()),
    }
    Ok(out.violations.into_iter().next())
}
