//! C01 - stored data is found: put-then-get completeness and availability.
//! Engine E1 with real nodes only: every small network shape x join order x (writer, reader)
//! pair x data kind x IP plan; after the put returned Ok every admissible crash set is applied
//! and the reader looks the key up; variants with a reader lookup already in flight.

use std::collections::BTreeSet;
use std::net::SocketAddrV4;

use dht::MutableItem;
use serde_json::{json, Value};

use super::CheckDef;
use crate::explore::{Chooser, Explorer};
use crate::krpc::{self, Id20, Krpc};
use crate::report::{CheckInfo, Partial, Tier, Violation};
use crate::sim::*;

pub fn def() -> CheckDef {
    CheckDef {
        id: "C01",
        info,
        shards: |_| super::cores(),
        run,
        replay,
    }
}

const KINDS: [&str; 7] = ["immutable", "mutable", "mutable+salt", "announce_peer(port)", "announce_peer(implied)", "announce_signed_peer", "immutable(1000 bytes)"];

fn info(tier: Tier) -> CheckInfo {
    let mut ci = CheckInfo {
        id: "C01",
        level: "model_checking",
        rule: format!(
            "Tier {}: networks of S in 1..{} real server nodes + C in 0..{} real client nodes built by real joins (every join order of the id classes), every ordered (writer, reader) pair of distinct nodes, six data kinds (immutable; mutable without and with salt; announce_peer explicit and implied port; announce_signed_peer), plus the largest legal immutable value (1000 bytes) on 20-server shapes made a full mesh first, where every get answer also lists 19-20 nodes, public and private IP plan. After the put returned Ok, every crash set X with reader not in X, an acknowledging node other than the reader left alive and the reader still knowing a live node is applied, then the reader looks the key up. Variants: the reader already has a lookup for the key in flight (issued when the put starts, kept open by a node crashed beforehand); the reader looks up 60 s after the put; the reader issues the lookup twice 100 ms apart; the reader already looked the key up (a completed miss) right after it joined and before the later nodes joined, so its lookup cache names only early nodes, and walked to an unrelated id after everybody joined; the reader has its own put for the same key in flight (an older item of the same mutable key / its own announcement), started 30 ms or 100 ms before the lookup{}. Oracle: the reader's result contains the exact bytes / an item equal in key, seq, value, salt / the writer's IP with the announced (or source) port / the signed announcement; the acknowledging set is read from the datagram log. Puts that do not return Ok are non-instances.",
            tier.name(),
            if tier.is_quick() { 3 } else { 4 },
            if tier.is_quick() { 1 } else { 2 },
            if tier.is_quick() { "" } else { "; every single latency deviation (225/450 ms) on the datagrams of the put and of the lookup for S=3; fixed shapes S=20 with C in {0,30}" }
        ),
        assumptions: vec![
            "honest, mutually reachable nodes; latencies below the request timeout".into(),
            "the 50..300-node success-rate clause is statistical and not decided here".into(),
        ],
    };
    ci.rule.push_str(" Added: the plain, overlapping-caller and own-put variants are also run through the blocking Dht API.");
    ci
}

#[derive(Clone, Debug)]
struct Cfg {
    s: usize,
    c: usize,
    perm: usize,
    writer: usize,
    reader: usize,
    kind: usize,
    public: bool,
    /// 0: plain; 1: the reader has a lookup in flight, issued when the put starts;
    /// 2: the reader looks up 60 s after the put; 3: the reader issues the lookup twice,
    /// 100 ms apart (the second joins the first while a crashed node keeps it open);
    /// 4: the reader already looked the key up (a miss, completed) right after it joined, before
    /// the later nodes joined, so it holds a cached set of responders for the key;
    /// 5, 6: the reader has its own put for the same key in flight (started after the crash,
    /// 30 ms / 100 ms before the lookup); 7: plain, on a network made a full mesh first
    variant: usize,
    /// the put and the lookups go through the blocking `Dht` API
    sync: bool,
}

fn id_class(i: usize) -> Id20 {
    let mut id = [0x5Eu8; 20];
    id[0] = [0x00, 0x80, 0x81, 0xC0, 0x40, 0x41][i % 6] ^ ((i / 6) as u8) << 1;
    id[1] = (i * 41) as u8;
    id[7] = i as u8;
    id
}

fn permutation(n: usize, mut k: usize) -> Vec<usize> {
    let mut items: Vec<usize> = (0..n).collect();
    let mut out = vec![];
    for i in (1..=n).rev() {
        out.push(items.remove(k % i));
        k /= i;
    }
    out
}

fn node_ip(i: usize, public: bool) -> [u8; 4] {
    if public {
        [31 + (i % 200) as u8, 40, 50 + (i / 200) as u8, 60]
    } else {
        [10, 0, (i / 200) as u8, (i % 200) as u8 + 1]
    }
}

const IMM: &[u8] = b"c01 immutable value";
/// The largest immutable value BEP44 allows: a get answer carrying it plus 15-20 closer nodes is
/// the largest datagram a reader legitimately receives.
fn big_imm() -> Vec<u8> {
    (0..1000u32).map(|i| (i * 11 + 5) as u8).collect()
}
const SALT: &[u8] = b"c01-salt";
const INFO: Id20 = [0xC1; 20];

struct Net {
    w: World,
    nodes: Vec<usize>,
    addrs: Vec<SocketAddrV4>,
    servers: usize,
}

fn build(cfg: &Cfg, chooser: Chooser, track: bool) -> Net {
    let mut w = World::new(chooser);
    w.track_states = track;
    let perm = permutation(cfg.s, cfg.perm);
    let total = cfg.s + cfg.c;
    let mut nodes = vec![usize::MAX; total];
    let addrs: Vec<SocketAddrV4> = (0..total).map(|j| SocketAddrV4::new(node_ip(j, cfg.public).into(), 6881)).collect();
    // join order: servers, then clients; in variant 4 the last server joins after everybody
    // else (it is the node the reader's earlier lookup cannot have seen)
    let mut order: Vec<usize> = (0..total).collect();
    if cfg.variant == 4 && cfg.s >= 2 {
        let late = order.remove(cfg.s - 1);
        order.push(late);
    }
    for j in order {
        let boots: Vec<SocketAddrV4> = if j == 0 { vec![] } else { vec![addrs[0]] };
        let idc = if j < cfg.s { perm[j] } else { j };
        let mut nc = NodeCfg::new(node_ip(j, cfg.public), 6881).bootstrap(&boots).id(id_class(idc));
        if j < cfg.s {
            nc = nc.server();
        }
        let n = w.add_node(nc);
        nodes[j] = n;
        assert_eq!(w.node_addr(n), addrs[j], "MACHINERY: node address");
        let c = w.call_bootstrapped(n);
        let h = w.now + 60 * SEC;
        w.run_calls(&[c], h);
        if cfg.variant == 4 && j == cfg.reader {
            let g = issue_get(&mut w, n, cfg.kind);
            let h = w.now + 60 * SEC;
            w.run_calls(&[g], h);
        }
    }
    w.run_for(2 * SEC);
    if cfg.variant == 7 {
        // full mesh: every node walks to a few ids once everybody has joined, so that every
        // routing table knows (nearly) everybody and every get answer lists as many nodes as
        // the protocol allows
        for round in 0..3u8 {
            let calls: Vec<usize> = nodes.iter().map(|n| w.call_find_node(*n, [0x11u8.wrapping_mul(round + 1) ^ 0x5A; 20].into())).collect();
            let h = w.now + 60 * SEC;
            w.run_calls(&calls, h);
        }
    }
    if cfg.variant == 4 {
        // the reader walks towards an unrelated id once everybody has joined, so that its
        // routing table (not its lookup cache for the key) knows the later nodes too
        let g = w.call_find_node(nodes[cfg.reader], [0x77u8; 20].into());
        let h = w.now + 60 * SEC;
        w.run_calls(&[g], h);
    }
    Net { w, nodes, addrs, servers: cfg.s }
}

/// (the unsalted mutable item is written with sequence number 0 - BEP44's first version - and the
/// reader's own older item with -1: sequence numbers are signed)
fn issue_put(w: &mut World, node: usize, kind: usize) -> usize {
    match kind {
        0 => w.call_put_immutable(node, IMM.to_vec()),
        1 => w.call_put_mutable(node, MutableItem::new(&krpc::signing_key(0xC1), b"c01 mutable", 0, None), None),
        2 => w.call_put_mutable(node, MutableItem::new(&krpc::signing_key(0xC1), b"c01 salted", 9, Some(SALT)), None),
        3 => w.call_announce_peer(node, INFO.into(), Some(4242)),
        4 => w.call_announce_peer(node, INFO.into(), None),
        5 => w.call_announce_signed_peer(node, INFO.into(), krpc::signing_key(0xC2)),
        _ => w.call_put_immutable(node, big_imm()),
    }
}

/// The reader's own put for the same key (variants 5, 6): an older item of the same mutable
/// key, its own announcement for the same info hash, the same immutable bytes.
fn issue_own_put(w: &mut World, node: usize, kind: usize) -> usize {
    match kind {
        0 => w.call_put_immutable(node, IMM.to_vec()),
        1 => w.call_put_mutable(node, MutableItem::new(&krpc::signing_key(0xC1), b"c01 older", -1, None), None),
        2 => w.call_put_mutable(node, MutableItem::new(&krpc::signing_key(0xC1), b"c01 older salted", 8, Some(SALT)), None),
        3 => w.call_announce_peer(node, INFO.into(), Some(5151)),
        4 => w.call_announce_peer(node, INFO.into(), None),
        5 => w.call_announce_signed_peer(node, INFO.into(), krpc::signing_key(0xC3)),
        _ => w.call_put_immutable(node, big_imm()),
    }
}

fn issue_get(w: &mut World, node: usize, kind: usize) -> usize {
    let pk = krpc::signing_key(0xC1).verifying_key().to_bytes();
    match kind {
        0 => w.call_get_immutable(node, krpc::immutable_target(IMM).into()),
        1 => w.call_get_mutable(node, pk, None, None),
        2 => w.call_get_mutable(node, pk, Some(SALT.to_vec()), None),
        3 | 4 => w.call_get_peers(node, INFO.into()),
        5 => w.call_get_signed_peers(node, INFO.into()),
        _ => w.call_get_immutable(node, krpc::immutable_target(&big_imm()).into()),
    }
}

fn found(r: Option<&CallResult>, kind: usize, writer_addr: SocketAddrV4) -> bool {
    let pk = krpc::signing_key(0xC1).verifying_key().to_bytes();
    match (kind, r) {
        (0, Some(CallResult::Bytes(Some(v)))) => v == IMM,
        (6, Some(CallResult::Bytes(Some(v)))) => *v == big_imm(),
        (1, Some(CallResult::Mutables(items))) => items.iter().any(|i| i.key() == &pk && i.seq() == 0 && i.value() == b"c01 mutable" && i.salt().is_none()),
        (2, Some(CallResult::Mutables(items))) => items.iter().any(|i| i.key() == &pk && i.seq() == 9 && i.value() == b"c01 salted" && i.salt() == Some(SALT)),
        (3, Some(CallResult::Peers(b))) => b.iter().flatten().any(|p| *p == SocketAddrV4::new(*writer_addr.ip(), 4242)),
        (4, Some(CallResult::Peers(b))) => b.iter().flatten().any(|p| *p == writer_addr),
        (5, Some(CallResult::SignedPeers(b))) => {
            let k = krpc::signing_key(0xC2).verifying_key().to_bytes();
            b.iter().flatten().any(|a| a.key() == &k && krpc::verify_announce(a.key(), &INFO, a.timestamp(), a.signature()))
        }
        _ => false,
    }
}

struct Out {
    instance: bool,
    crash_sets: usize,
    problems: Vec<(String, String)>,
    steps: u64,
    digests: Vec<u64>,
    ackers: usize,
}

/// One world per crash set: `crash_mask` selects which of the admissible crash sets to apply
/// (None = only measure how many there are).
fn scenario(cfg: &Cfg, chooser: Chooser, faults: bool, crash_index: Option<usize>, track: bool) -> (Chooser, Out) {
    let mut net = build(cfg, chooser, track);
    net.w.sync_api = cfg.sync;
    let n = cfg.s + cfg.c;
    let writer = net.nodes[cfg.writer];
    let reader = net.nodes[cfg.reader];
    let writer_addr = net.addrs[cfg.writer];
    let mut problems = vec![];
    let w = &mut net.w;
    w.faults.menu = latency_menu();
    w.faults.enabled = faults;
    // variant 1: a node is crashed beforehand so that the reader's early lookup stays open
    let mut pre_crashed: Option<usize> = None;
    if cfg.variant == 1 {
        // a server that is neither writer nor reader, if there is one
        pre_crashed = (0..net.servers).rev().find(|j| *j != cfg.writer && *j != cfg.reader && *j != 0);
        if let Some(j) = pre_crashed {
            w.crash(net.nodes[j]);
        }
    }
    let log_start = w.log.len();
    let early_get = if cfg.variant == 1 { Some(issue_get(w, reader, cfg.kind)) } else { None };
    let put = issue_put(w, writer, cfg.kind);
    let h = w.now + 60 * SEC;
    w.run_calls(&[put], h);
    let ok = matches!(w.result(put), Some(CallResult::Put(Ok(_))));
    if !ok {
        let steps = w.steps;
        let digests = w.state_digests.iter().copied().collect();
        let ch = std::mem::take(&mut w.chooser);
        return (ch, Out { instance: false, crash_sets: 0, problems, steps, digests, ackers: 0 });
    }
    // ackers: nodes whose response to one of the writer's store requests was delivered
    let delivered = w.delivered_ids();
    let mut store_tids: Vec<(Vec<u8>, SocketAddrV4)> = vec![];
    let mut ackers: BTreeSet<usize> = BTreeSet::new();
    for e in &w.log[log_start..] {
        if let LogEntry::Sent { dgram, .. } = e {
            let Some(k) = Krpc::parse(&dgram.bytes) else { continue };
            if dgram.from_node == Some(writer) && k.is_query() && matches!(k.q.as_deref(), Some("put") | Some("announce_peer") | Some("announce_signed_peer")) {
                store_tids.push((k.t.clone(), dgram.to));
            } else if dgram.to == writer_addr && k.is_response() && delivered.contains_key(&dgram.id) {
                if store_tids.iter().any(|(t, to)| *t == k.t && *to == dgram.from) {
                    if let Some(j) = net.addrs.iter().position(|a| *a == dgram.from) {
                        ackers.insert(j);
                    }
                }
            }
        }
    }
    // admissible crash sets
    let candidates: Vec<usize> = (0..n).filter(|j| *j != cfg.reader && Some(*j) != pre_crashed).collect();
    let reader_snapshot = w.snapshot(reader);
    let reader_knows: BTreeSet<SocketAddrV4> = reader_snapshot
        .core
        .routing_table
        .buckets
        .iter()
        .flat_map(|(_, b)| b.iter().map(|n| n.address))
        .chain(reader_snapshot.core.bootstrap.iter().copied())
        .collect();
    let mut sets: Vec<Vec<usize>> = vec![];
    // (every subset for the small networks whose crash sets are enumerated; the large shapes only
    // ever use the first admissible set - nobody crashes - so 16 candidate bits are plenty)
    let bits = candidates.len().min(16) as u32;
    for mask in 0u32..(1u32 << bits) {
        let x: Vec<usize> = candidates.iter().enumerate().filter(|(i, _)| (*i as u32) < bits && mask & (1u32 << i) != 0).map(|(_, j)| *j).collect();
        let acker_left = ackers.iter().any(|a| *a != cfg.reader && !x.contains(a));
        let knows_live = net.addrs.iter().enumerate().any(|(j, a)| j != cfg.reader && !x.contains(&j) && Some(j) != pre_crashed && j < net.servers && reader_knows.contains(a));
        if acker_left && knows_live {
            sets.push(x);
        }
    }
    let crash_sets = sets.len();
    if let Some(ci) = crash_index {
        if let Some(x) = sets.get(ci) {
            for j in x {
                w.crash(net.nodes[*j]);
            }
            if cfg.variant == 2 {
                w.run_for(60 * SEC);
            }
            let mut own_put = None;
            if cfg.variant == 5 || cfg.variant == 6 {
                own_put = Some(issue_own_put(w, reader, cfg.kind));
                w.run_for(if cfg.variant == 5 { 30 * MS } else { 100 * MS });
            }
            let mut get = issue_get(w, reader, cfg.kind);
            let mut calls = vec![get];
            calls.extend(own_put);
            if let Some(e) = early_get {
                calls.push(e);
            }
            if cfg.variant == 3 {
                w.run_for(100 * MS);
                // the verdict is on the second caller
                get = issue_get(w, reader, cfg.kind);
                calls.push(get);
            }
            let h = w.now + 120 * SEC;
            w.run_calls(&calls, h);
            let r = w.result(get);
            if r.is_none() {
                problems.push((format!("reader-lookup-never-ends/{}", KINDS[cfg.kind]), "the reader's lookup did not end".into()));
            } else if !found(r, cfg.kind, writer_addr) {
                let left: Vec<usize> = ackers.iter().filter(|a| **a != cfg.reader && !x.contains(a)).cloned().collect();
                problems.push((
                    format!("value-not-found/{}/{}", KINDS[cfg.kind], ["plain", "reader-lookup-in-flight", "lookup-60s-later", "second-caller-joins", "reader-looked-up-before-later-joins", "reader-put-in-flight-30ms", "reader-put-in-flight-100ms", "full-mesh"][cfg.variant]),
                    format!("put Ok acknowledged by nodes {ackers:?}; crashed {x:?}; acknowledging nodes still alive {left:?}; the reader got {}", match r {
                        Some(CallResult::Bytes(b)) => format!("bytes={}", b.is_some()),
                        Some(CallResult::Mutables(m)) => format!("{} items", m.len()),
                        Some(CallResult::Peers(p)) => format!("{:?}", p),
                        Some(CallResult::SignedPeers(p)) => format!("{} batches", p.len()),
                        o => format!("{o:?}"),
                    }),
                ));
            }
        }
    }
    if let Some(dead) = w.any_actor_panicked() {
        problems.push(("actor-died".into(), format!("an actor thread died: node {dead} {}", w.death_reason(dead))));
    }
    let steps = w.steps;
    let digests = w.state_digests.iter().copied().collect();
    let ch = std::mem::take(&mut w.chooser);
    (ch, Out { instance: true, crash_sets, problems, steps, digests, ackers: ackers.len() })
}

fn cfg_json(c: &Cfg) -> Value {
    json!({"s": c.s, "c": c.c, "perm": c.perm, "writer": c.writer, "reader": c.reader, "kind": c.kind, "public": c.public, "variant": c.variant, "sync": c.sync})
}

fn record(c: &Cfg, crash: Option<usize>, choices: &[u32], o: &Out, out: &mut Partial) {
    out.add("executions", 1);
    out.add("transitions", o.steps);
    out.digests.extend(o.digests.iter());
    if !o.instance {
        out.add("non_instances_put_not_ok", 1);
        return;
    }
    if crash.is_some() && o.problems.is_empty() {
        out.add("values_found", 1);
        if c.sync {
            out.add("values_found_through_blocking_api", 1);
        }
    }
    out.gauge_max("max_ackers", o.ackers as u64);
    out.outcomes.insert(format!("s{}c{}:{}:v{}:ackers{}:sets{}:ok{}", c.s, c.c, KINDS[c.kind], c.variant, o.ackers.min(4), o.crash_sets.min(9), o.problems.is_empty()));
    for (k, d) in &o.problems {
        // the in-flight-lookup history is one finding per data kind, whatever the shape
        let key = if c.variant == 1 && k.starts_with("value-not-found") { k.clone() } else { format!("{k}/s{}c{}/{}{}", c.s, c.c, if c.public { "public" } else { "private" }, if c.sync { "/blocking-api" } else { "" }) };
        out.violation(
            key,
            format!("{}S={} C={} join order #{} writer #{} reader #{} kind {} plan {}: {d}{}", if c.sync { "[blocking Dht API] " } else { "" }, c.s, c.c, c.perm, c.writer, c.reader, KINDS[c.kind], if c.public { "public" } else { "private" }, if choices.iter().any(|x| *x > 0) { format!(" [latency deviations {choices:?}]") } else { String::new() }),
            json!({"cfg": cfg_json(c), "crash": crash, "choices": choices}),
        );
    }
}

fn run(tier: Tier, shard: usize, nshards: usize, _seed: u64) -> Partial {
    let mut out = Partial::default();
    let mut cfgs: Vec<Cfg> = vec![];
    let (max_s, max_c) = if tier.is_quick() { (3, 1) } else { (4, 2) };
    let mut shapes: Vec<(usize, usize)> = (1..=max_s).flat_map(|s| (0..=max_c).map(move |c| (s, c))).collect();
    if tier.is_quick() {
        // a single holder read by a second client (the holder's answer is then the only, and the
        // last, answer of the reader's lookup)
        shapes.push((1, 2));
    }
    for (s, c) in shapes {
        {
            let n = s + c;
            if n < 2 {
                continue;
            }
            let perms: usize = (1..=s).product();
            for perm in 0..perms {
                // quick: every join order only for the plain variant of one kind per order
                for writer in 0..n {
                    for reader in 0..n {
                        if writer == reader {
                            continue;
                        }
                        for kind in 0..6 {
                            if tier.is_quick() && perm > 0 && (kind + perm) % 6 != 0 {
                                continue;
                            }
                            for public in [true, false] {
                                for variant in 0..7 {
                                    if variant == 1 && s < 3 {
                                        continue;
                                    }
                                    if variant >= 2 && (perm > 0 || !public) {
                                        continue;
                                    }
                                    cfgs.push(Cfg { s, c, perm, writer, reader, kind, public, variant, sync: false });
                                    // the same through the blocking API (first join order, public plan)
                                    if perm == 0 && public && matches!(variant, 0 | 3 | 5) {
                                        cfgs.push(Cfg { s, c, perm, writer, reader, kind, public, variant, sync: true });
                                    }
                                }
                            }
                        }
                    }
                }
            }
        }
    }
    if shard == 0 {
        let c = Cfg { s: 3, c: 1, perm: 2, writer: 3, reader: 1, kind: 2, public: true, variant: 0, sync: false };
        let (_, a) = scenario(&c, Chooser::default_run(), false, Some(0), true);
        let (_, b) = scenario(&c, Chooser::default_run(), false, Some(0), true);
        assert!(a.steps == b.steps && a.digests.len() == b.digests.len() && a.ackers == b.ackers, "MACHINERY: scenario is not deterministic");
    }
    for (i, c) in cfgs.iter().enumerate() {
        if i % nshards != shard {
            continue;
        }
        // how many admissible crash sets? then one world per set
        super::guard_dead_actor(&mut out, &format!("s{}c{}/{}", c.s, c.c, KINDS[c.kind]), json!({"cfg": cfg_json(c), "crash": null, "choices": []}), |out| {
            let (_, base) = scenario(c, Chooser::default_run(), false, None, false);
            record(c, None, &[], &base, out);
            for ci in 0..base.crash_sets {
                let (_, o) = scenario(c, Chooser::default_run(), false, Some(ci), ci == 0 && i % 5 == 0);
                record(c, Some(ci), &[], &o, out);
            }
        });
    }
    {
        // a network large enough that a get answer lists 15+ closer nodes next to the value
        // (20 servers with and without a client, the small and the largest immutable value)
        let shapes: Vec<(usize, usize, usize)> = [(20usize, 1usize, 0usize), (20, 1, 6), (20, 0, 6)].to_vec();
        for (bi, (s, c, kind)) in shapes.iter().enumerate() {
            if bi % nshards != shard {
                continue;
            }
            let cfg = Cfg { s: *s, c: *c, perm: 0, writer: if *c > 0 { *s } else { 3 }, reader: 7, kind: *kind, public: bi % 2 == 0, variant: 7, sync: false };
            let (_, o) = scenario(&cfg, Chooser::default_run(), false, Some(0), false);
            record(&cfg, Some(0), &[], &o, &mut out);
        }
    }
    if !tier.is_quick() {
        // latency deviations on S=3, C=1 (no crash, and the first crash set)
        let sel: Vec<&Cfg> = cfgs.iter().filter(|c| c.s == 3 && c.c == 1 && c.perm == 0 && c.variant == 0 && c.public).collect();
        for (i, c) in sel.iter().enumerate() {
            if i % nshards != shard {
                continue;
            }
            let mut ex = Explorer::new(1, (0, 1));
            ex.explore(&mut |chooser, _| {
                let (ch, o) = scenario(c, chooser, true, Some(0), false);
                if ch.choices().iter().any(|x| *x > 0) {
                    record(c, Some(0), &ch.choices(), &o, &mut out);
                }
                (ch, true)
            });
        }
        // fixed large shapes
        let bigs = [(20usize, 0usize), (20, 30)];
        for (bi, (s, c)) in bigs.iter().enumerate() {
            for kind in 0..7 {
                if (bi * 7 + kind) % nshards != shard {
                    continue;
                }
                let cfg = Cfg { s: *s, c: *c, perm: 0, writer: if *c > 0 { *s + 1 } else { 3 }, reader: if *c > 0 { *s + 2 } else { 7 }, kind, public: kind % 2 == 0, variant: 0, sync: false };
                let (_, o) = scenario(&cfg, Chooser::default_run(), false, Some(0), false);
                record(&cfg, Some(0), &[], &o, &mut out);
            }
        }
    }
    out.witness("values were found after a put", out.count("values_found") > 0);
    out.sample(json!({"s": 3, "c": 1, "join_order": 2, "writer": 3, "reader": 1, "kind": "mutable+salt", "plan": "public", "crash_set": [0, 2]}));
    out
}

fn replay(v: &Value) -> Result<Option<Violation>, String> {
    let c = v.get("cfg").ok_or("cfg")?;
    let g = |k: &str| c.get(k).and_then(|x| x.as_u64()).map(|x| x as usize);
    let cfg = Cfg {
        s: g("s").ok_or("s")?,
        c: g("c").ok_or("c")?,
        perm: g("perm").ok_or("perm")?,
        writer: g("writer").ok_or("writer")?,
        reader: g("reader").ok_or("reader")?,
        kind: g("kind").ok_or("kind")?,
        public: c.get("public").and_then(|x| x.as_bool()).unwrap_or(true),
        variant: g("variant").unwrap_or(0),
        sync: c.get("sync").and_then(|x| x.as_bool()).unwrap_or(false),
    };
    let crash = v.get("crash").and_then(|x| x.as_u64()).map(|x| x as usize);
    let choices: Vec<u32> = v.get("choices").and_then(|c| c.as_array()).map(|a| a.iter().filter_map(|x| x.as_u64().map(|x| x as u32)).collect()).unwrap_or_default();
    let faults = choices.iter().any(|x| *x > 0);
    let (_, o) = scenario(&cfg, Chooser::new(choices.clone()), faults, crash, false);
    let mut out = Partial::default();
    record(&cfg, crash, &choices, &o, &mut out);
    Ok(out.violations.into_iter().next())
}
