//! One module per property.

use serde_json::Value;

use crate::report::{CheckInfo, Partial, Tier, Violation};

pub mod c01;
pub mod c02;
pub mod c05;
pub mod c06;
pub mod c07;
pub mod c08;
pub mod c09;
pub mod c10;
pub mod c11;
pub mod c12;
pub mod c13;
pub mod c14;
pub mod c16;
pub mod c17;
pub mod c18;
pub mod c19;
pub mod c20;
pub mod srvchecks;

pub struct CheckDef {
    pub id: &'static str,
    pub info: fn(Tier) -> CheckInfo,
    /// Number of worker processes (1 = run inside the parent process).
    pub shards: fn(Tier) -> usize,
    pub run: fn(Tier, usize, usize, u64) -> Partial,
    /// Re-execute one recorded violation without the explorer.
    pub replay: fn(&Value) -> Result<Option<Violation>, String>,
}

pub fn all() -> Vec<CheckDef> {
    vec![
        c01::def(),
        c02::def(),
        srvchecks::def_c03(),
        srvchecks::def_c04(),
        c05::def(),
        c06::def(),
        c07::def(),
        c08::def(),
        c09::def(),
        c10::def(),
        c11::def(),
        c12::def(),
        c13::def(),
        c14::def(),
        srvchecks::def_c15(),
        c16::def(),
        c17::def(),
        c18::def(),
        c19::def(),
        c20::def(),
    ]
}

pub fn cores() -> usize {
    std::thread::available_parallelism()
        .map(|n| n.get())
        .unwrap_or(4)
        .min(16)
}

/// Run `f(chunk_index, chunks)` on `chunks` threads, each in local mode, and merge.
pub fn par_local(chunks: usize, f: impl Fn(usize, usize) -> Partial + Sync) -> Partial {
    let mut merged = Partial::default();
    let parts: Vec<Partial> = std::thread::scope(|s| {
        let hs: Vec<_> = (0..chunks)
            .map(|i| {
                let f = &f;
                s.spawn(move || {
                    crate::sim::install_env();
                    crate::sim::enter_local(crate::sim::T0, 0x5eed ^ i as u64);
                    f(i, chunks)
                })
            })
            .collect();
        hs.into_iter()
            .map(|h| match h.join() {
                Ok(p) => p,
                Err(e) => std::panic::resume_unwind(e),
            })
            .collect()
    });
    for p in parts {
        merged.merge(p);
    }
    merged
}

/// Run one scenario of a check. If it unwinds because it asked for the state of a node whose
/// actor thread had died (panicked, or stuck inside one loop iteration) at a point where the
/// scenario had not looked for that, the death is reported as a violation of the check's
/// property with the scenario's replay object, instead of taking the whole worker down.
pub fn guard_dead_actor(out: &mut Partial, what: &str, replay: Value, f: impl FnOnce(&mut Partial)) {
    let r = quiet(|| std::panic::catch_unwind(std::panic::AssertUnwindSafe(|| f(&mut *out))));
    if let Err(p) = r {
        match p.downcast::<crate::sim::DeadActor>() {
            Ok(d) => {
                // the world of the aborted scenario was dropped while unwinding
                out.violation(format!("actor-died/{what}"), format!("{what}: the actor thread of node {} {}", d.node, d.why), replay);
            }
            Err(other) => match other.downcast::<crate::sim::Runaway>() {
                Ok(r) => {
                    out.violation(
                        format!("runaway-node/{what}"),
                        format!("{what}: the scenario was abandoned after {} loop iterations in {} virtual seconds (node {} alone is far beyond what any scenario needs): a node never goes quiet", r.steps, r.virtual_secs, r.busiest_node),
                        replay,
                    );
                }
                Err(other) => std::panic::resume_unwind(other),
            },
        }
    }
}

/// Run a closure catching panics; returns the panic message on panic.
pub fn catch<R>(f: impl FnOnce() -> R) -> Result<R, String> {
    std::panic::catch_unwind(std::panic::AssertUnwindSafe(f)).map_err(|p| {
        p.downcast_ref::<String>()
            .cloned()
            .or_else(|| p.downcast_ref::<&str>().map(|s| s.to_string()))
            .unwrap_or_else(|| "panic".to_string())
    })
}

thread_local! {
    pub static QUIET_PANICS: std::cell::Cell<bool> = const { std::cell::Cell::new(false) };
}

/// Message and location of the most recent panic on an actor thread.
pub static LAST_ACTOR_PANIC: std::sync::Mutex<Option<String>> = std::sync::Mutex::new(None);

/// Install a panic hook that stays silent for threads that asked for it (expected panics of
/// the code under test inside `catch`), and prints normally otherwise.
pub fn install_panic_hook() {
    let default = std::panic::take_hook();
    std::panic::set_hook(Box::new(move |info| {
        let quiet = QUIET_PANICS.with(|q| q.get());
        let is_actor = std::thread::current()
            .name()
            .map(|n| n.contains("Mainline Dht actor"))
            .unwrap_or(false);
        if is_actor {
            let msg = info
                .payload()
                .downcast_ref::<String>()
                .cloned()
                .or_else(|| info.payload().downcast_ref::<&str>().map(|s| s.to_string()))
                .unwrap_or_else(|| "panic".to_string());
            let loc = info.location().map(|l| format!(" at {}:{}", l.file(), l.line())).unwrap_or_default();
            *LAST_ACTOR_PANIC.lock().unwrap_or_else(|e| e.into_inner()) = Some(format!("{msg}{loc}"));
        }
        if quiet || (is_actor && std::env::var_os("VERIF_VERBOSE").is_none()) {
            return;
        }
        default(info);
    }));
}

pub fn quiet<R>(f: impl FnOnce() -> R) -> R {
    let prev = QUIET_PANICS.with(|q| q.replace(true));
    let r = f();
    QUIET_PANICS.with(|q| q.set(prev));
    r
}
