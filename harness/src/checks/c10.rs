//! C10 - KRPC wire format round-trips and matches the BEPs.
//! Engine E3: every constructible message over boundary menus is encoded by the real encoder,
//! re-parsed by the independent strict bencode reader and compared with an independently built
//! expected tree, decoded back by the real decoder and compared with the original; the BEP
//! example messages are decoded and re-encoded.

use std::net::{Ipv4Addr, SocketAddrV4};

use dht::verif::*;
use dht::{Id, Node};
use serde_json::{json, Value};

use super::{catch, par_local, quiet, CheckDef};
use crate::bencode::{self, B};
use crate::krpc::{compact_addr, compact_nodes};
use crate::report::{hex, unhex, CheckInfo, Partial, Tier, Violation};

pub fn def() -> CheckDef {
    CheckDef {
        id: "C10",
        info,
        shards: |_| 1,
        run,
        replay,
    }
}

fn info(tier: Tier) -> CheckInfo {
    CheckInfo {
        id: "C10",
        level: "exploration",
        rule: format!(
            "Tier {}: every Message value over the menus - 5 request kinds + 4 put kinds, 8 response kinds, errors; envelope tid in {{0,0xffff,0x10000,u32::MAX}} x version present/absent x requester ip present/absent x read_only; ids {{00..,ff..,mixed}}; tokens/values/salts of length {{0,1,4,64,65,1000}}; node lists {{absent,0,1,8,20}}; peer lists {{0,1,20}}; signed-peer lists {{0,1,10}}; seq/cas in {{i64::MIN,-1,0,1,i64::MAX}}; t in {{0,2^63-1,2^63,u64::MAX}}; port {{0,1,65535}}; implied_port {{None,Some(true),Some(false)}}; error codes {{201..207,301,302,0,-1}}. Oracles: decode(encode(m)) equivalent to m; encoding is canonical bencode equal to an independently built tree with the BEP key names and compact formats; BEP5 example messages decode to the stated values and re-encode identically modulo v/ro; 2- and 4-byte t decode. Distinct = distinct message values (generated without repetition).",
            tier.name()
        ),
        assumptions: vec![
            "equivalence ignores Node::last_seen and compares implied_port as implied / not implied".into(),
            "the optional `ro` key may be absent or 0 when the sender is not read-only".into(),
        ],
    }
}

fn ids() -> Vec<Id> {
    let mut mixed = [0u8; 20];
    for (i, b) in mixed.iter_mut().enumerate() {
        *b = (i * 13 + 7) as u8;
    }
    vec![[0u8; 20].into(), [0xffu8; 20].into(), mixed.into()]
}

fn blob(len: usize, salt: u8) -> Box<[u8]> {
    (0..len).map(|i| (i as u8).wrapping_mul(31) ^ salt).collect()
}

fn nodes(n: usize) -> Box<[Node]> {
    (0..n)
        .map(|i| {
            let mut id = [i as u8; 20];
            id[19] = 0xEE;
            Node::new(
                id.into(),
                SocketAddrV4::new(Ipv4Addr::new(10 + i as u8, 0, 255, i as u8), 1 + i as u16 * 3277),
            )
        })
        .collect()
}

/// Boundary addresses: port 0 and 65535, unspecified and broadcast IPs, an all-zero and an all-ones id.
fn boundary_nodes() -> Box<[Node]> {
    vec![
        Node::new([0x11; 20].into(), SocketAddrV4::new(Ipv4Addr::new(50, 1, 1, 1), 0)),
        Node::new([0x22; 20].into(), SocketAddrV4::new(Ipv4Addr::new(50, 1, 1, 2), 65535)),
        Node::new([0x00; 20].into(), SocketAddrV4::new(Ipv4Addr::UNSPECIFIED, 1)),
        Node::new([0xFF; 20].into(), SocketAddrV4::new(Ipv4Addr::BROADCAST, 6881)),
        Node::new([0x33; 20].into(), SocketAddrV4::new(Ipv4Addr::new(50, 1, 1, 3), 0)),
    ]
    .into()
}

fn node_lists(quick: bool) -> Vec<Option<Box<[Node]>>> {
    let mut v = vec![None, Some(nodes(0)), Some(nodes(1)), Some(nodes(8)), Some(boundary_nodes())];
    if !quick {
        v.push(Some(nodes(20)));
    }
    v
}

const SEQS: [i64; 5] = [i64::MIN, -1, 0, 1, i64::MAX];

fn key32(s: u8) -> [u8; 32] {
    let mut k = [0u8; 32];
    for (i, b) in k.iter_mut().enumerate() {
        *b = s ^ (i as u8).wrapping_mul(7);
    }
    k
}

fn sig64(s: u8) -> [u8; 64] {
    let mut k = [0u8; 64];
    for (i, b) in k.iter_mut().enumerate() {
        *b = s ^ (i as u8).wrapping_mul(11);
    }
    k
}

fn bodies(tier: Tier) -> Vec<MessageType> {
    let quick = tier.is_quick();
    let mut out = vec![];
    let idv = ids();
    let lens: Vec<usize> = if quick {
        vec![0, 1, 4, 65, 1000]
    } else {
        vec![0, 1, 4, 64, 65, 1000]
    };
    let tok_lens: Vec<usize> = vec![0, 1, 4, 64];
    // --- requests
    for rid in &idv {
        let req = |t: RequestTypeSpecific| {
            MessageType::Request(RequestSpecific {
                requester_id: *rid,
                request_type: t,
            })
        };
        out.push(req(RequestTypeSpecific::Ping));
        for t in &idv {
            out.push(req(RequestTypeSpecific::FindNode(FindNodeRequestArguments {
                target: *t,
            })));
            out.push(req(RequestTypeSpecific::GetPeers(GetPeersRequestArguments {
                info_hash: *t,
            })));
            out.push(req(RequestTypeSpecific::GetSignedPeers(
                GetPeersRequestArguments { info_hash: *t },
            )));
            out.push(req(RequestTypeSpecific::GetValue(GetValueRequestArguments {
                target: *t,
                seq: None,
                salt: None,
            })));
            for s in SEQS {
                out.push(req(RequestTypeSpecific::GetValue(GetValueRequestArguments {
                    target: *t,
                    seq: Some(s),
                    salt: None,
                })));
            }
        }
        let t = idv[2];
        for tl in &tok_lens {
            let put = |p: PutRequestSpecific| {
                req(RequestTypeSpecific::Put(PutRequest {
                    token: blob(*tl, 0x44),
                    put_request_type: p,
                }))
            };
            for port in [0u16, 1, 65535] {
                for ip in [None, Some(true), Some(false)] {
                    out.push(put(PutRequestSpecific::AnnouncePeer(
                        AnnouncePeerRequestArguments {
                            info_hash: t,
                            port,
                            implied_port: ip,
                        },
                    )));
                }
            }
            for ts in [0u64, (1 << 63) - 1, 1 << 63, u64::MAX] {
                out.push(put(PutRequestSpecific::AnnounceSignedPeer(
                    AnnounceSignedPeerRequestArguments {
                        info_hash: t,
                        t: ts,
                        k: key32(1),
                        sig: sig64(2),
                    },
                )));
            }
            for vl in &lens {
                out.push(put(PutRequestSpecific::PutImmutable(
                    PutImmutableRequestArguments {
                        target: t,
                        v: blob(*vl, 9),
                    },
                )));
            }
            for vl in [0usize, 1, 1000] {
                for seq in SEQS {
                    for salt in [None, Some(0usize), Some(1), Some(64), Some(65)] {
                        for cas in [None, Some(i64::MIN), Some(-1), Some(0), Some(1), Some(i64::MAX)] {
                            if quick && vl == 1000 && (cas.is_some() && salt.is_some()) {
                                continue;
                            }
                            out.push(put(PutRequestSpecific::PutMutable(
                                PutMutableRequestArguments {
                                    target: t,
                                    v: blob(vl, 3),
                                    k: key32(5),
                                    seq,
                                    sig: sig64(6),
                                    salt: salt.map(|l| blob(l, 0x77)),
                                    cas,
                                },
                            )));
                        }
                    }
                }
            }
        }
    }
    // --- responses
    for rid in &idv {
        out.push(MessageType::Response(ResponseSpecific::Ping(
            PingResponseArguments { responder_id: *rid },
        )));
        for n in node_lists(quick).into_iter().flatten() {
            out.push(MessageType::Response(ResponseSpecific::FindNode(
                FindNodeResponseArguments {
                    responder_id: *rid,
                    nodes: n,
                },
            )));
        }
        for tl in &tok_lens {
            for n in node_lists(quick) {
                let token = blob(*tl, 0x21);
                for pc in [0usize, 1, 20] {
                    let values: Vec<SocketAddrV4> = (0..pc)
                        .map(|i| SocketAddrV4::new(Ipv4Addr::new(1, 2, i as u8, 255), i as u16 * 3000))
                        .collect();
                    out.push(MessageType::Response(ResponseSpecific::GetPeers(
                        GetPeersResponseArguments {
                            responder_id: *rid,
                            token: token.clone(),
                            values,
                            nodes: n.clone(),
                        },
                    )));
                }
                for pc in [0usize, 1, 10] {
                    let peers: Vec<([u8; 32], u64, [u8; 64])> = (0..pc)
                        .map(|i| (key32(i as u8), [0u64, 1 << 63, u64::MAX][i % 3], sig64(i as u8)))
                        .collect();
                    out.push(MessageType::Response(ResponseSpecific::GetSignedPeers(
                        GetSignedPeersResponseArguments {
                            responder_id: *rid,
                            token: token.clone(),
                            peers,
                            nodes: n.clone(),
                        },
                    )));
                }
                out.push(MessageType::Response(ResponseSpecific::NoValues(
                    NoValuesResponseArguments {
                        responder_id: *rid,
                        token: token.clone(),
                        nodes: n.clone(),
                    },
                )));
                for vl in &lens {
                    out.push(MessageType::Response(ResponseSpecific::GetImmutable(
                        GetImmutableResponseArguments {
                            responder_id: *rid,
                            token: token.clone(),
                            nodes: n.clone(),
                            v: blob(*vl, 8),
                        },
                    )));
                }
                for seq in SEQS {
                    out.push(MessageType::Response(ResponseSpecific::NoMoreRecentValue(
                        NoMoreRecentValueResponseArguments {
                            responder_id: *rid,
                            token: token.clone(),
                            nodes: n.clone(),
                            seq,
                        },
                    )));
                    for vl in [0usize, 1, 1000] {
                        out.push(MessageType::Response(ResponseSpecific::GetMutable(
                            GetMutableResponseArguments {
                                responder_id: *rid,
                                token: token.clone(),
                                nodes: n.clone(),
                                v: blob(vl, 4),
                                k: key32(9),
                                seq,
                                sig: sig64(10),
                            },
                        )));
                    }
                }
            }
        }
    }
    // --- errors
    for code in [201, 202, 203, 204, 205, 206, 207, 301, 302, 0, -1] {
        for d in ["", "A Generic Error Ocurred"] {
            out.push(MessageType::Error(ErrorSpecific {
                code,
                description: d.to_string(),
            }));
        }
    }
    out
}

fn envelopes() -> Vec<(u32, Option<[u8; 4]>, Option<SocketAddrV4>, bool)> {
    let mut v = vec![];
    for tid in [0u32, 0xffff, 0x10000, u32::MAX] {
        for ver in [None, Some([82, 83, 0, 6])] {
            for ip in [None, Some(SocketAddrV4::new(Ipv4Addr::new(1, 2, 3, 4), 5))] {
                for ro in [false, true] {
                    v.push((tid, ver, ip, ro));
                }
            }
        }
    }
    v
}

fn nodes_tree(n: &[Node]) -> B {
    let v: Vec<([u8; 20], SocketAddrV4)> = n.iter().map(|n| (*n.id().as_bytes(), n.address())).collect();
    B::bytes(compact_nodes(&v))
}

/// Independent construction of the expected wire tree for a message. `ro` and `t` are
/// handled by the comparison (several encodings are acceptable).
fn expected_tree(m: &WireMessage) -> B {
    let mut top: Vec<(&str, B)> = vec![];
    if let Some(v) = m.version {
        top.push(("v", B::bytes(v)));
    }
    if let Some(ip) = m.requester_ip {
        top.push(("ip", B::bytes(compact_addr(&ip))));
    }
    match &m.message_type {
        MessageType::Request(r) => {
            top.push(("y", B::bytes("q")));
            let mut a: Vec<(&str, B)> = vec![("id", B::bytes(r.requester_id.as_bytes()))];
            let q = match &r.request_type {
                RequestTypeSpecific::Ping => "ping",
                RequestTypeSpecific::FindNode(x) => {
                    a.push(("target", B::bytes(x.target.as_bytes())));
                    "find_node"
                }
                RequestTypeSpecific::GetPeers(x) => {
                    a.push(("info_hash", B::bytes(x.info_hash.as_bytes())));
                    "get_peers"
                }
                RequestTypeSpecific::GetSignedPeers(x) => {
                    a.push(("info_hash", B::bytes(x.info_hash.as_bytes())));
                    "get_signed_peers"
                }
                RequestTypeSpecific::GetValue(x) => {
                    a.push(("target", B::bytes(x.target.as_bytes())));
                    if let Some(s) = x.seq {
                        a.push(("seq", B::Int(s as i128)));
                    }
                    "get"
                }
                RequestTypeSpecific::Put(p) => {
                    a.push(("token", B::bytes(&p.token)));
                    match &p.put_request_type {
                        PutRequestSpecific::AnnouncePeer(x) => {
                            a.push(("info_hash", B::bytes(x.info_hash.as_bytes())));
                            a.push(("port", B::Int(x.port as i128)));
                            // implied_port handled by the comparison
                            "announce_peer"
                        }
                        PutRequestSpecific::AnnounceSignedPeer(x) => {
                            a.push(("info_hash", B::bytes(x.info_hash.as_bytes())));
                            a.push(("k", B::bytes(x.k)));
                            a.push(("sig", B::bytes(x.sig)));
                            a.push(("t", B::Int(x.t as i64 as i128)));
                            "announce_signed_peer"
                        }
                        PutRequestSpecific::PutImmutable(x) => {
                            a.push(("target", B::bytes(x.target.as_bytes())));
                            a.push(("v", B::bytes(&x.v)));
                            "put"
                        }
                        PutRequestSpecific::PutMutable(x) => {
                            a.push(("target", B::bytes(x.target.as_bytes())));
                            a.push(("v", B::bytes(&x.v)));
                            a.push(("k", B::bytes(x.k)));
                            a.push(("sig", B::bytes(x.sig)));
                            a.push(("seq", B::Int(x.seq as i128)));
                            if let Some(s) = &x.salt {
                                a.push(("salt", B::bytes(s)));
                            }
                            if let Some(c) = x.cas {
                                a.push(("cas", B::Int(c as i128)));
                            }
                            "put"
                        }
                    }
                }
            };
            top.push(("q", B::bytes(q)));
            top.push(("a", B::dict(a)));
        }
        MessageType::Response(r) => {
            top.push(("y", B::bytes("r")));
            let mut d: Vec<(&str, B)> = vec![];
            let common = |id: &Id, token: Option<&[u8]>, nodes: Option<&[Node]>, d: &mut Vec<(&str, B)>| {
                d.push(("id", B::bytes(id.as_bytes())));
                if let Some(t) = token {
                    d.push(("token", B::bytes(t)));
                }
                if let Some(n) = nodes {
                    d.push(("nodes", nodes_tree(n)));
                }
            };
            match r {
                ResponseSpecific::Ping(x) => common(&x.responder_id, None, None, &mut d),
                ResponseSpecific::FindNode(x) => {
                    common(&x.responder_id, None, Some(&x.nodes), &mut d)
                }
                ResponseSpecific::GetPeers(x) => {
                    common(&x.responder_id, Some(&x.token), x.nodes.as_deref(), &mut d);
                    d.push((
                        "values",
                        B::List(x.values.iter().map(|p| B::bytes(compact_addr(p))).collect()),
                    ));
                }
                ResponseSpecific::GetSignedPeers(x) => {
                    common(&x.responder_id, Some(&x.token), x.nodes.as_deref(), &mut d);
                    d.push((
                        "peers",
                        B::List(
                            x.peers
                                .iter()
                                .map(|(k, t, s)| {
                                    let mut b = k.to_vec();
                                    b.extend_from_slice(&t.to_be_bytes());
                                    b.extend_from_slice(s);
                                    B::bytes(b)
                                })
                                .collect(),
                        ),
                    ));
                }
                ResponseSpecific::GetImmutable(x) => {
                    common(&x.responder_id, Some(&x.token), x.nodes.as_deref(), &mut d);
                    d.push(("v", B::bytes(&x.v)));
                }
                ResponseSpecific::GetMutable(x) => {
                    common(&x.responder_id, Some(&x.token), x.nodes.as_deref(), &mut d);
                    d.push(("v", B::bytes(&x.v)));
                    d.push(("k", B::bytes(x.k)));
                    d.push(("sig", B::bytes(x.sig)));
                    d.push(("seq", B::Int(x.seq as i128)));
                }
                ResponseSpecific::NoValues(x) => {
                    common(&x.responder_id, Some(&x.token), x.nodes.as_deref(), &mut d)
                }
                ResponseSpecific::NoMoreRecentValue(x) => {
                    common(&x.responder_id, Some(&x.token), x.nodes.as_deref(), &mut d);
                    d.push(("seq", B::Int(x.seq as i128)));
                }
            }
            top.push(("r", B::dict(d)));
        }
        MessageType::Error(e) => {
            top.push(("y", B::bytes("e")));
            top.push((
                "e",
                B::List(vec![B::Int(e.code as i128), B::bytes(e.description.as_bytes())]),
            ));
        }
    }
    B::dict(top)
}

fn implied(m: &MessageType) -> Option<bool> {
    if let MessageType::Request(RequestSpecific {
        request_type:
            RequestTypeSpecific::Put(PutRequest {
                put_request_type: PutRequestSpecific::AnnouncePeer(a),
                ..
            }),
        ..
    }) = m
    {
        Some(a.implied_port == Some(true))
    } else {
        None
    }
}

/// Equivalence of two messages: implied_port compared as implied / not implied.
fn equivalent(a: &WireMessage, b: &WireMessage) -> bool {
    let norm = |m: &WireMessage| {
        let mut m = m.clone();
        if let MessageType::Request(RequestSpecific {
            request_type:
                RequestTypeSpecific::Put(PutRequest {
                    put_request_type: PutRequestSpecific::AnnouncePeer(a),
                    ..
                }),
            ..
        }) = &mut m.message_type
        {
            a.implied_port = Some(a.implied_port == Some(true));
        }
        m
    };
    norm(a) == norm(b)
}

fn kind(m: &MessageType) -> String {
    match m {
        MessageType::Request(r) => match &r.request_type {
            RequestTypeSpecific::Ping => "q-ping".into(),
            RequestTypeSpecific::FindNode(_) => "q-find_node".into(),
            RequestTypeSpecific::GetPeers(_) => "q-get_peers".into(),
            RequestTypeSpecific::GetSignedPeers(_) => "q-get_signed_peers".into(),
            RequestTypeSpecific::GetValue(_) => "q-get".into(),
            RequestTypeSpecific::Put(p) => match &p.put_request_type {
                PutRequestSpecific::AnnouncePeer(a) => {
                    format!("q-announce_peer(implied_port={:?})", a.implied_port)
                }
                PutRequestSpecific::AnnounceSignedPeer(_) => "q-announce_signed_peer".into(),
                PutRequestSpecific::PutImmutable(_) => "q-put-immutable".into(),
                PutRequestSpecific::PutMutable(_) => "q-put-mutable".into(),
            },
        },
        MessageType::Response(r) => match r {
            ResponseSpecific::Ping(_) => "r-ping".into(),
            ResponseSpecific::FindNode(_) => "r-find_node".into(),
            ResponseSpecific::GetPeers(_) => "r-get_peers".into(),
            ResponseSpecific::GetSignedPeers(_) => "r-get_signed_peers".into(),
            ResponseSpecific::GetImmutable(_) => "r-get_immutable".into(),
            ResponseSpecific::GetMutable(_) => "r-get_mutable".into(),
            ResponseSpecific::NoValues(_) => "r-no_values".into(),
            ResponseSpecific::NoMoreRecentValue(_) => "r-no_more_recent".into(),
        },
        MessageType::Error(_) => "error".into(),
    }
}

fn check_message(m: &WireMessage, out: &mut Partial) {
    out.add("evaluations", 1);
    out.add("distinct_nontrivial", 1);
    let k = kind(&m.message_type);
    out.outcomes.insert(k.clone());
    let replay = |bytes: Option<&[u8]>| json!({"kind":"message","debug":format!("{m:?}").chars().take(600).collect::<String>(),"bytes":bytes.map(hex)});
    let bytes = match quiet(|| catch(|| encode(m))) {
        Err(p) => {
            out.violation(format!("encode-panic/{k}"), format!("encode panicked: {p}"), replay(None));
            return;
        }
        Ok(Err(e)) => {
            out.violation(format!("encode-error/{k}"), format!("encode failed: {e}"), replay(None));
            return;
        }
        Ok(Ok(b)) => b,
    };
    // (1) round trip through the real decoder
    match quiet(|| catch(|| decode(&bytes))) {
        Err(p) => out.violation(
            format!("roundtrip-decode-panic/{k}"),
            format!("decode of own encoding panicked: {p}"),
            replay(Some(&bytes)),
        ),
        Ok(Err(e)) => out.violation(
            format!("roundtrip-decode-error/{k}"),
            format!("decode of own encoding failed: {e}"),
            replay(Some(&bytes)),
        ),
        Ok(Ok(back)) => {
            if !equivalent(m, &back) {
                out.violation(
                    format!("roundtrip-not-equivalent/{k}"),
                    format!("decode(encode(m)) != m: got {:?}", format!("{back:?}").chars().take(300).collect::<String>()),
                    replay(Some(&bytes)),
                );
            }
        }
    }
    // (2) canonical bencode equal to the independently built tree
    match bencode::decode(&bytes) {
        Err(e) => out.violation(
            format!("not-bencode/{k}"),
            format!("independent reader rejects the encoding: {e}"),
            replay(Some(&bytes)),
        ),
        Ok((tree, canon)) => {
            if !canon.is_canonical() {
                out.violation(
                    format!("not-canonical/{k}"),
                    format!("encoding is not canonical bencode: {canon:?}"),
                    replay(Some(&bytes)),
                );
            }
            let mut got = tree.clone();
            // t: 2 or 4 bytes whose big-endian value is the tid
            let t_ok = match got.get("t").and_then(|t| t.as_bytes()) {
                Some([a, b]) => u16::from_be_bytes([*a, *b]) as u32 == m.transaction_id,
                Some([a, b, c, d]) => u32::from_be_bytes([*a, *b, *c, *d]) == m.transaction_id,
                _ => false,
            };
            if !t_ok {
                out.violation(format!("tid-encoding/{k}"), "t is not a 2/4-byte big-endian tid", replay(Some(&bytes)));
            }
            got.remove("t");
            // ro: absent or 0 when not read-only, 1 when read-only
            let ro = got.get("ro").and_then(|x| x.as_int());
            let ro_ok = if m.read_only { ro == Some(1) } else { ro.is_none() || ro == Some(0) };
            if !ro_ok {
                out.violation(format!("ro-encoding/{k}"), format!("ro={ro:?} for read_only={}", m.read_only), replay(Some(&bytes)));
            }
            got.remove("ro");
            // implied_port: nonzero iff implied; absent allowed when not implied
            if let Some(imp) = implied(&m.message_type) {
                if let Some(B::Dict(top)) = Some(&mut got) {
                    if let Some((_, a)) = top.iter_mut().find(|(k, _)| k == b"a") {
                        let v = a.get("implied_port").and_then(|x| x.as_int());
                        let ok = if imp { v.map(|x| x != 0).unwrap_or(false) } else { v.is_none() || v == Some(0) };
                        if !ok {
                            out.violation(
                                format!("implied-port-encoding/{k}"),
                                format!("implied_port encoded as {v:?} for a message with implied={imp}"),
                                replay(Some(&bytes)),
                            );
                        }
                        a.remove("implied_port");
                    }
                }
            }
            let want = expected_tree(m);
            if got != want {
                out.violation(
                    format!("tree-mismatch/{k}"),
                    format!(
                        "wire tree differs from the BEP layout: got {} want {}",
                        String::from_utf8_lossy(&bencode::encode(&got)).chars().take(200).collect::<String>(),
                        String::from_utf8_lossy(&bencode::encode(&want)).chars().take(200).collect::<String>()
                    ),
                    replay(Some(&bytes)),
                );
            }
        }
    }
}

struct Example {
    name: &'static str,
    bytes: &'static [u8],
    expect: fn(&WireMessage) -> bool,
}

fn id_of(s: &[u8]) -> Id {
    Id::from_bytes(s).expect("20")
}

fn examples() -> Vec<Example> {
    vec![
        Example {
            name: "bep5-error",
            bytes: b"d1:eli201e23:A Generic Error Ocurrede1:t2:aa1:y1:ee",
            expect: |m| {
                m.transaction_id == 0x6161
                    && m.message_type
                        == MessageType::Error(ErrorSpecific {
                            code: 201,
                            description: "A Generic Error Ocurred".into(),
                        })
            },
        },
        Example {
            name: "bep5-ping-query",
            bytes: b"d1:ad2:id20:abcdefghij0123456789e1:q4:ping1:t2:aa1:y1:qe",
            expect: |m| {
                m.message_type
                    == MessageType::Request(RequestSpecific {
                        requester_id: id_of(b"abcdefghij0123456789"),
                        request_type: RequestTypeSpecific::Ping,
                    })
            },
        },
        Example {
            name: "bep5-ping-response",
            bytes: b"d1:rd2:id20:mnopqrstuvwxyz123456e1:t2:aa1:y1:re",
            expect: |m| {
                m.message_type
                    == MessageType::Response(ResponseSpecific::Ping(PingResponseArguments {
                        responder_id: id_of(b"mnopqrstuvwxyz123456"),
                    }))
            },
        },
        Example {
            name: "bep5-find_node-query",
            bytes: b"d1:ad2:id20:abcdefghij01234567896:target20:mnopqrstuvwxyz123456e1:q9:find_node1:t2:aa1:y1:qe",
            expect: |m| {
                m.message_type
                    == MessageType::Request(RequestSpecific {
                        requester_id: id_of(b"abcdefghij0123456789"),
                        request_type: RequestTypeSpecific::FindNode(FindNodeRequestArguments {
                            target: id_of(b"mnopqrstuvwxyz123456"),
                        }),
                    })
            },
        },
        Example {
            name: "bep5-get_peers-query",
            bytes: b"d1:ad2:id20:abcdefghij01234567899:info_hash20:mnopqrstuvwxyz123456e1:q9:get_peers1:t2:aa1:y1:qe",
            expect: |m| {
                m.message_type
                    == MessageType::Request(RequestSpecific {
                        requester_id: id_of(b"abcdefghij0123456789"),
                        request_type: RequestTypeSpecific::GetPeers(GetPeersRequestArguments {
                            info_hash: id_of(b"mnopqrstuvwxyz123456"),
                        }),
                    })
            },
        },
        Example {
            name: "bep5-get_peers-response-values",
            bytes: b"d1:rd2:id20:abcdefghij01234567895:token8:aoeusnth6:valuesl6:axje.u6:idhtnmee1:t2:aa1:y1:re",
            expect: |m| match &m.message_type {
                MessageType::Response(ResponseSpecific::GetPeers(a)) => {
                    a.responder_id == id_of(b"abcdefghij0123456789")
                        && &*a.token == b"aoeusnth"
                        && a.nodes.is_none()
                        && a.values
                            == vec![
                                SocketAddrV4::new(Ipv4Addr::new(b'a', b'x', b'j', b'e'), u16::from_be_bytes([b'.', b'u'])),
                                SocketAddrV4::new(Ipv4Addr::new(b'i', b'd', b'h', b't'), u16::from_be_bytes([b'n', b'm'])),
                            ]
                }
                _ => false,
            },
        },
        Example {
            name: "bep5-announce_peer-query",
            bytes: b"d1:ad2:id20:abcdefghij012345678912:implied_porti1e9:info_hash20:mnopqrstuvwxyz1234564:porti6881e5:token8:aoeusnthe1:q13:announce_peer1:t2:aa1:y1:qe",
            expect: |m| match &m.message_type {
                MessageType::Request(RequestSpecific {
                    requester_id,
                    request_type: RequestTypeSpecific::Put(PutRequest { token, put_request_type: PutRequestSpecific::AnnouncePeer(a) }),
                }) => {
                    *requester_id == id_of(b"abcdefghij0123456789")
                        && &**token == b"aoeusnth"
                        && a.info_hash == id_of(b"mnopqrstuvwxyz123456")
                        && a.port == 6881
                        && a.implied_port == Some(true)
                }
                _ => false,
            },
        },
    ]
}

fn strip(mut t: B) -> B {
    t.remove("v");
    t.remove("ro");
    t
}

fn check_examples(out: &mut Partial) {
    for ex in examples() {
        out.add("evaluations", 1);
        out.add("distinct_nontrivial", 1);
        let replay = json!({"kind":"example","name":ex.name});
        let m = match quiet(|| catch(|| decode(ex.bytes))) {
            Ok(Ok(m)) => m,
            other => {
                out.violation(format!("example-decode/{}", ex.name), format!("BEP example does not decode: {other:?}"), replay);
                continue;
            }
        };
        if !(ex.expect)(&m) {
            out.violation(format!("example-value/{}", ex.name), format!("BEP example decodes to unexpected value {m:?}"), replay.clone());
        }
        match encode(&m) {
            Err(e) => out.violation(format!("example-reencode/{}", ex.name), format!("re-encode failed: {e}"), replay),
            Ok(b) => {
                let got = bencode::decode(&b).map(|(t, _)| strip(t));
                let want = bencode::decode(ex.bytes).map(|(t, _)| strip(t));
                if got != want {
                    // classify: does it differ in `t` only?
                    let only_t = match (&got, &want) {
                        (Ok(g), Ok(w)) => {
                            let (mut g, mut w) = (g.clone(), w.clone());
                            g.remove("t");
                            w.remove("t");
                            g == w
                        }
                        _ => false,
                    };
                    let class = if only_t { "t-length-not-preserved" } else { "other" };
                    out.violation(
                        format!("example-reencode/{class}"),
                        format!(
                            "{}: re-encoding differs beyond v/ro: {:?} vs {:?}",
                            ex.name,
                            String::from_utf8_lossy(&b),
                            String::from_utf8_lossy(ex.bytes)
                        ),
                        replay,
                    );
                }
            }
        }
    }
}

fn check_tid_lengths(out: &mut Partial) {
    // 2- and 4-byte transaction ids both decode, for a query, a response and an error
    let id = [7u8; 20];
    for t in [&b"aa"[..], &b"\x00\x00aa"[..], &b"\xff\xff"[..], &b"\xff\xff\xff\xff"[..]] {
        let msgs = [
            crate::krpc::q_ping(t, &id),
            crate::krpc::response(t, vec![("id", B::bytes(id))], None, None),
            crate::krpc::error(t, 203, "x"),
        ];
        for bytes in msgs {
            out.add("evaluations", 1);
            out.add("distinct_nontrivial", 1);
            let want = match t.len() {
                2 => u16::from_be_bytes([t[0], t[1]]) as u32,
                _ => u32::from_be_bytes([t[0], t[1], t[2], t[3]]),
            };
            match quiet(|| catch(|| decode(&bytes))) {
                Ok(Ok(m)) if m.transaction_id == want => {}
                other => out.violation(
                    format!("tid-length-{}", t.len()),
                    format!("{}-byte transaction id not accepted: {other:?}", t.len()),
                    json!({"kind":"bytes","bytes":hex(&bytes)}),
                ),
            }
        }
    }
}

fn run(tier: Tier, _s: usize, _n: usize, _seed: u64) -> Partial {
    let chunks = super::cores();
    let mut merged = par_local(chunks, |chunk, chunks| {
        let mut out = Partial::default();
        let bodies = bodies(tier);
        let envs = envelopes();
        let mut idx = 0usize;
        for b in &bodies {
            for (tid, ver, ip, ro) in &envs {
                idx += 1;
                if idx % chunks != chunk {
                    continue;
                }
                // quick: the full envelope product only for a stride of bodies
                if tier.is_quick() && !(idx % 7 == 0 || (*tid == 0x10000 && ver.is_some())) {
                    continue;
                }
                let m = WireMessage {
                    transaction_id: *tid,
                    version: *ver,
                    requester_ip: *ip,
                    message_type: b.clone(),
                    read_only: *ro,
                };
                check_message(&m, &mut out);
            }
        }
        if chunk == 0 {
            check_examples(&mut out);
            check_tid_lengths(&mut out);
        }
        out
    });
    merged.sample(json!({"kind":"example","bytes":"d1:ad2:id20:abcdefghij0123456789e1:q4:ping1:t2:aa1:y1:qe"}));
    merged.sample(json!({"kind":"message","what":"PutMutable{seq:i64::MIN, salt:65 bytes, cas:Some(i64::MAX)} with tid 0x10000, v=RS06, ro=1"}));
    let n = merged.count("evaluations");
    merged.witness("messages were generated", n > 1000);
    merged
}

fn replay(v: &Value) -> Result<Option<Violation>, String> {
    crate::sim::install_env();
    crate::sim::enter_local(crate::sim::T0, 1);
    let mut out = Partial::default();
    match v.get("kind").and_then(|k| k.as_str()) {
        Some("example") => check_examples(&mut out),
        Some("bytes") => check_tid_lengths(&mut out),
        Some("message") => {
            // messages are re-generated (the replay names the failing value by its debug form)
            let want = v.get("debug").and_then(|d| d.as_str()).unwrap_or("").to_string();
            for b in bodies(Tier::Thorough) {
                for (tid, ver, ip, ro) in envelopes() {
                    let m = WireMessage { transaction_id: tid, version: ver, requester_ip: ip, message_type: b.clone(), read_only: ro };
                    if format!("{m:?}").chars().take(600).collect::<String>() == want {
                        check_message(&m, &mut out);
                    }
                }
            }
            if out.count("evaluations") == 0 {
                // fall back to decoding the recorded bytes
                if let Some(b) = v.get("bytes").and_then(|b| b.as_str()).and_then(unhex) {
                    if let Ok(m) = decode(&b) {
                        check_message(&m, &mut out);
                    }
                }
            }
        }
        _ => return Err("kind".into()),
    }
    Ok(out.violations.into_iter().next())
}
