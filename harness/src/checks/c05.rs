//! C05 - no datagram can crash a node or an API caller.
//! E3 part: a bencode grammar neighbourhood of every KRPC message kind through the real decoder
//! under catch_unwind. E1 part: the same datagrams delivered to live nodes (server mode, client
//! mode, as replies to in-flight lookups and puts), reply-latency timelines, then a liveness
//! probe.

use std::net::{Ipv4Addr, SocketAddrV4};

use dht::verif::decode;
use serde_json::{json, Value};

use super::{catch, quiet, CheckDef};
use crate::bencode::{encode, B};
use crate::epnet::EpNet;
use crate::explore::Chooser;
use crate::krpc::{self, Id20, Krpc};
use crate::report::{hex, unhex, CheckInfo, Partial, Tier, Violation};
use crate::sim::*;

pub fn def() -> CheckDef {
    CheckDef {
        id: "C05",
        info,
        shards: |_| super::cores(),
        run,
        replay,
    }
}

fn info(tier: Tier) -> CheckInfo {
    let mut ci = CheckInfo {
        id: "C05",
        level: "exploration",
        rule: format!(
            "Tier {}: grammar neighbourhood of the 17 KRPC message shapes (8 queries, 8 responses, error): every field removed or replaced by each of 17 classes (wrong type int/bytes/list/dict, length 0 / n-1 / n+1 / 3000, negative / > i64 / leading-zero integers, empty list / mixed bad list / nested list / list with an empty, a short, a double-length element), all single deviations and all pairs of deviations, and every subset of the listed fields absent at once; structural damage of every valid message (every truncation point, duplicated and unsorted keys, trailing bytes, t of length 0..5, v and ip of every length 0..19). Every datagram goes through the real decoder under catch_unwind (E3). Live (E1, real nodes on the simulated network): every single-deviation datagram and every absent-subset datagram that the decoder accepts is delivered (a) to a server-mode node, (b) to a client-mode node, (c) as the reply - right address, right transaction id - to an in-flight lookup of each kind, (d) as the reply of 1 or all of 3 storers to each put kind, together with every error code in {{201..207,301,302,0,-1,i32::MAX}}, and every mix of {{ack,203,205,301}} over the 3 storers in every arrival order; every reply-latency timeline of length {} over {{10 ms, 520 ms, 3 s}}. After each batch: no actor thread exited, a ping is answered (server), info() and a put+get round trip complete, no API call panicked. Distinct = distinct datagrams (generated without repetition).",
            tier.name(),
            if tier.is_quick() { 7 } else { 9 }
        ),
        assumptions: vec![
            "optimised build with integer overflow checks on and debug assertions off: an arithmetic overflow in the library panics (as in a debug build) instead of wrapping silently".into(),
            "the claim is the stated grammar neighbourhood, not all byte strings up to the MTU".into(),
        ],
    };
    ci.rule.push_str(" Added: hostile contents of the right bencode type (multi-byte / invalid UTF-8 at every byte alignment in every text field, non-curve keys, own id and address, zero ports, extreme integers, longest lists); every write-shaped datagram delivered to the live server a second time with a token it has just issued to the sender.");
    ci
}

// ---------------------------------------------------------------------------------------------
// Grammar
// ---------------------------------------------------------------------------------------------

const ID_A: Id20 = [0x41; 20];
const ID_B: Id20 = [0x42; 20];

#[derive(Clone)]
pub struct Template {
    pub name: &'static str,
    pub msg: B,
    /// paths of the fields that get mutated: (container key or "", field key)
    pub fields: Vec<(&'static str, &'static str)>,
}

fn nodes26(n: usize) -> Vec<u8> {
    let v: Vec<(Id20, SocketAddrV4)> = (0..n).map(|i| ([i as u8 + 1; 20], SocketAddrV4::new(Ipv4Addr::new(50, 0, 0, i as u8 + 1), 6881))).collect();
    krpc::compact_nodes(&v)
}

pub fn templates() -> Vec<Template> {
    let t4 = B::bytes([0, 0, 0, 7]);
    let q = |name: &'static str, qn: &str, a: Vec<(&'static str, B)>| {
        let fields: Vec<(&'static str, &'static str)> = a.iter().map(|(k, _)| ("a", *k)).chain([("", "t"), ("", "y"), ("", "q"), ("", "a"), ("", "v"), ("", "ro")]).collect();
        Template {
            name,
            msg: B::dict(vec![("t", t4.clone()), ("y", B::bytes("q")), ("q", B::bytes(qn)), ("a", B::dict(a)), ("v", B::bytes([82, 83, 0, 6])), ("ro", B::Int(0))]),
            fields,
        }
    };
    let r = |name: &'static str, rr: Vec<(&'static str, B)>| {
        let fields: Vec<(&'static str, &'static str)> = rr.iter().map(|(k, _)| ("r", *k)).chain([("", "t"), ("", "y"), ("", "r"), ("", "ip"), ("", "v")]).collect();
        Template {
            name,
            msg: B::dict(vec![("t", t4.clone()), ("y", B::bytes("r")), ("r", B::dict(rr)), ("ip", B::bytes([9, 9, 9, 9, 0x1b, 0x58])), ("v", B::bytes([82, 83, 0, 6]))]),
            fields,
        }
    };
    let sk = krpc::signing_key(3);
    let k = sk.verifying_key().to_bytes();
    let sig = krpc::sign_mutable(&sk, 1, b"val", None);
    let ts: u64 = UNIX_BASE_MICROS + T0 / 1000;
    let asig = krpc::sign_announce(&sk, &ID_B, ts);
    let mut rec = k.to_vec();
    rec.extend_from_slice(&ts.to_be_bytes());
    rec.extend_from_slice(&asig);
    vec![
        q("q-ping", "ping", vec![("id", B::bytes(ID_A))]),
        q("q-find_node", "find_node", vec![("id", B::bytes(ID_A)), ("target", B::bytes(ID_B))]),
        q("q-get_peers", "get_peers", vec![("id", B::bytes(ID_A)), ("info_hash", B::bytes(ID_B))]),
        q("q-get_signed_peers", "get_signed_peers", vec![("id", B::bytes(ID_A)), ("info_hash", B::bytes(ID_B))]),
        q("q-get", "get", vec![("id", B::bytes(ID_A)), ("target", B::bytes(ID_B)), ("seq", B::Int(3))]),
        q("q-announce_peer", "announce_peer", vec![("id", B::bytes(ID_A)), ("info_hash", B::bytes(ID_B)), ("token", B::bytes(b"tokn")), ("port", B::Int(6881)), ("implied_port", B::Int(1))]),
        q(
            "q-announce_signed_peer",
            "announce_signed_peer",
            vec![("id", B::bytes(ID_A)), ("info_hash", B::bytes(ID_B)), ("token", B::bytes(b"tokn")), ("k", B::bytes(k)), ("sig", B::bytes(asig)), ("t", B::Int(ts as i128))],
        ),
        q(
            "q-put",
            "put",
            vec![
                ("id", B::bytes(ID_A)),
                ("target", B::bytes(krpc::mutable_target(&k, None))),
                ("token", B::bytes(b"tokn")),
                ("v", B::bytes(b"val")),
                ("k", B::bytes(k)),
                ("sig", B::bytes(sig)),
                ("seq", B::Int(1)),
                ("cas", B::Int(0)),
                ("salt", B::bytes(b"s")),
            ],
        ),
        r("r-ping", vec![("id", B::bytes(ID_A))]),
        r("r-find_node", vec![("id", B::bytes(ID_A)), ("nodes", B::bytes(nodes26(2)))]),
        r("r-get_peers", vec![("id", B::bytes(ID_A)), ("token", B::bytes(b"tokn")), ("nodes", B::bytes(nodes26(2))), ("values", B::List(vec![B::bytes([1, 2, 3, 4, 0, 80]), B::bytes([1, 2, 3, 5, 0, 81])]))]),
        r("r-get_signed_peers", vec![("id", B::bytes(ID_A)), ("token", B::bytes(b"tokn")), ("nodes", B::bytes(nodes26(2))), ("peers", B::List(vec![B::bytes(&rec)]))]),
        r("r-no_values", vec![("id", B::bytes(ID_A)), ("token", B::bytes(b"tokn")), ("nodes", B::bytes(nodes26(2)))]),
        r("r-get_immutable", vec![("id", B::bytes(ID_A)), ("token", B::bytes(b"tokn")), ("nodes", B::bytes(nodes26(1))), ("v", B::bytes(b"val"))]),
        r("r-get_mutable", vec![("id", B::bytes(ID_A)), ("token", B::bytes(b"tokn")), ("nodes", B::bytes(nodes26(1))), ("v", B::bytes(b"val")), ("k", B::bytes(k)), ("sig", B::bytes(sig)), ("seq", B::Int(1))]),
        r("r-no_more_recent", vec![("id", B::bytes(ID_A)), ("token", B::bytes(b"tokn")), ("nodes", B::bytes(nodes26(1))), ("seq", B::Int(1))]),
        Template {
            name: "error",
            msg: B::dict(vec![("t", t4.clone()), ("y", B::bytes("e")), ("e", B::List(vec![B::Int(203), B::bytes("msg")]))]),
            fields: vec![("", "t"), ("", "y"), ("", "e")],
        },
    ]
}

pub const N_DEV: usize = 18;
pub const DEV_NAMES: [&str; N_DEV] = [
    "removed", "int", "bytes", "list", "dict", "len0", "len-1", "len+1", "len3000", "negative", "over-i64", "leading-zero", "empty-list", "list-of-bad-elements", "nested-list", "list-with-empty-element", "list-with-short-element", "list-with-double-length-element",
];

/// The replacement for `orig` under deviation `d` (None = remove the field, or not applicable).
fn deviate(orig: &B, d: usize) -> Option<Option<B>> {
    let resized = |n: usize| -> B {
        match orig {
            B::Bytes(b) => {
                let mut v = b.clone();
                v.resize(n, 0x55);
                B::Bytes(v)
            }
            _ => B::Bytes(vec![0x55; n]),
        }
    };
    let len = match orig {
        B::Bytes(b) => b.len(),
        _ => 4,
    };
    Some(match d {
        0 => None,
        1 => {
            if matches!(orig, B::Int(_)) {
                return None;
            }
            Some(B::Int(7))
        }
        2 => {
            if matches!(orig, B::Bytes(_)) {
                return None;
            }
            Some(B::bytes(b"xy"))
        }
        3 => Some(B::List(vec![B::Int(1), B::bytes(b"a")])),
        4 => Some(B::dict(vec![("id", B::bytes(ID_A)), ("x", B::Int(1))])),
        5 => Some(resized(0)),
        6 => Some(resized(len.saturating_sub(1))),
        7 => Some(resized(len + 1)),
        8 => Some(resized(3000)),
        9 => Some(B::Int(-1)),
        10 => Some(B::Int(i64::MAX as i128 + 1)),
        11 => Some(B::Raw(b"i03e".to_vec())),
        12 => Some(B::List(vec![])),
        13 => Some(B::List(vec![B::bytes(b""), B::bytes([1, 2, 3]), B::bytes(vec![7u8; 104]), B::bytes(vec![7u8; 208]), B::Int(5)])),
        14 => Some(B::List(vec![B::List(vec![B::bytes([1, 2, 3, 4, 0, 80])])])),
        15 => Some(B::List(vec![B::bytes(b"")])),
        16 => Some(B::List(vec![B::bytes([1, 2, 3])])),
        _ => Some(B::List(vec![B::bytes(vec![7u8; 208]), B::bytes(vec![7u8; 12])])),
    })
}

fn apply(msg: &B, path: (&str, &str), d: usize) -> Option<B> {
    let mut m = msg.clone();
    let (container, key) = path;
    let target: &mut B = if container.is_empty() {
        &mut m
    } else {
        match &mut m {
            B::Dict(top) => &mut top.iter_mut().find(|(k, _)| k == container.as_bytes())?.1,
            _ => return None,
        }
    };
    let orig = target.get(key)?.clone();
    match deviate(&orig, d)? {
        None => target.remove(key),
        Some(v) => target.set(key, v),
    }
    Some(m)
}

/// All single deviations of one template: (label, bytes).
pub fn singles(t: &Template) -> Vec<(String, Vec<u8>)> {
    let mut v = vec![];
    for f in &t.fields {
        for d in 0..N_DEV {
            if let Some(m) = apply(&t.msg, *f, d) {
                v.push((format!("{}:{}.{}={}", t.name, f.0, f.1, DEV_NAMES[d]), encode(&m)));
            }
        }
    }
    v
}

fn pairs(t: &Template, out: &mut dyn FnMut(String, Vec<u8>)) {
    for (i, f1) in t.fields.iter().enumerate() {
        for d1 in 0..N_DEV {
            let Some(m1) = apply(&t.msg, *f1, d1) else { continue };
            for f2 in t.fields.iter().skip(i + 1) {
                for d2 in 0..N_DEV {
                    if let Some(m2) = apply(&m1, *f2, d2) {
                        out(format!("{}:{}.{}={}+{}.{}={}", t.name, f1.0, f1.1, DEV_NAMES[d1], f2.0, f2.1, DEV_NAMES[d2]), encode(&m2));
                    }
                }
            }
        }
    }
}

/// Every subset of three or more of the template's fields absent at once (none, one and two
/// absent fields are the template itself, `singles` and `pairs`).
fn absent_subsets(t: &Template, out: &mut dyn FnMut(String, Vec<u8>)) {
    let n = t.fields.len();
    for mask in 0u32..(1u32 << n) {
        if mask.count_ones() < 3 {
            continue;
        }
        let mut m = t.msg.clone();
        let mut ok = true;
        let mut names = vec![];
        for (i, f) in t.fields.iter().enumerate() {
            if mask & (1 << i) != 0 {
                match apply(&m, *f, 0) {
                    Some(x) => m = x,
                    None => {
                        // the container itself is already gone
                        ok = t.fields.iter().enumerate().any(|(j, g)| mask & (1 << j) != 0 && g.0.is_empty() && g.1 == f.0);
                        if !ok {
                            break;
                        }
                    }
                }
                names.push(format!("{}.{}", f.0, f.1));
            }
        }
        if ok {
            out(format!("{}:absent[{}]", t.name, names.join(",")), encode(&m));
        }
    }
}

fn structural(t: &Template, out: &mut dyn FnMut(String, Vec<u8>)) {
    let bytes = encode(&t.msg);
    for cut in 0..bytes.len() {
        out(format!("{}:truncated@{cut}", t.name), bytes[..cut].to_vec());
    }
    let mut trailing = bytes.clone();
    trailing.extend_from_slice(b"trailing");
    out(format!("{}:trailing-bytes", t.name), trailing);
    if let B::Dict(top) = &t.msg {
        let mut rev = top.clone();
        rev.reverse();
        out(format!("{}:unsorted-keys", t.name), encode(&B::Dict(rev)));
        let mut dup = top.clone();
        dup.push(top[0].clone());
        dup.insert(0, top[top.len() - 1].clone());
        out(format!("{}:duplicate-keys", t.name), encode(&B::Dict(dup)));
    }
    for n in 0..=5usize {
        let mut m = t.msg.clone();
        m.set("t", B::Bytes(vec![1; n]));
        out(format!("{}:t-len{n}", t.name), encode(&m));
    }
    for n in 0..=19usize {
        for key in ["v", "ip"] {
            let mut m = t.msg.clone();
            m.set(key, B::Bytes(vec![2; n]));
            out(format!("{}:{key}-len{n}", t.name), encode(&m));
        }
    }
}

/// Hostile *contents* of the right bencode type: long multi-byte (and invalid) UTF-8 wherever the
/// code reads text, keys that are not curve points, ids / addresses that are the receiver's own,
/// zero ports, extreme integers, the longest lists a datagram can carry.
fn content_variants(t: &Template, out: &mut dyn FnMut(String, Vec<u8>)) {
    let own_id: Id20 = [0x21; 20];
    let own_addr = SocketAddrV4::new(Ipv4Addr::new(9, 9, 9, 9), 7000);
    let mut texts: Vec<(String, Vec<u8>)> = vec![];
    // every byte offset falls inside a multi-byte character for one of these strings
    for (name, ch, width) in [("2-byte", "é", 2usize), ("3-byte", "€", 3), ("4-byte", "😀", 4)] {
        for pad in 0..width {
            let mut v = vec![b'e'; pad];
            while v.len() + width <= 1500 {
                v.extend_from_slice(ch.as_bytes());
            }
            texts.push((format!("{name}-chars+{pad}"), v));
        }
    }
    texts.push(("invalid-utf8".into(), vec![0xFF; 300]));
    texts.push(("lone-continuation-bytes".into(), vec![0x80; 300]));
    texts.push(("truncated-multibyte-at-end".into(), { let mut v = vec![b'a'; 126]; v.extend_from_slice(&[0xE2, 0x82]); v }));
    texts.push(("nul-bytes".into(), vec![0u8; 200]));
    let keys32: Vec<(&str, Vec<u8>)> = vec![
        ("k-zero", vec![0u8; 32]),
        ("k-not-on-curve", { let mut k = vec![0u8; 32]; k[0] = 2; k }),
        ("k-identity", { let mut k = vec![0u8; 32]; k[0] = 1; k }),
        ("k-ff", vec![0xFF; 32]),
        ("k-small-order", { let mut k = vec![0u8; 32]; k[31] = 0x80; k }),
    ];
    let sigs: Vec<(&str, Vec<u8>)> = vec![("sig-zero", vec![0u8; 64]), ("sig-ff", vec![0xFF; 64]), ("sig-s-too-large", { let mut s = vec![1u8; 64]; for b in s[32..].iter_mut() { *b = 0xFF; } s })];
    let ints: Vec<(&str, i128)> = vec![("i64-min", i64::MIN as i128), ("i64-max", i64::MAX as i128), ("u64-max", u64::MAX as i128), ("below-i64", i64::MIN as i128 - 1), ("zero", 0), ("65536", 65536), ("u32-max", u32::MAX as i128)];
    let node_lists: Vec<(&str, Vec<u8>)> = {
        let n = |id: Id20, a: SocketAddrV4| krpc::compact_nodes(&[(id, a)]);
        vec![
            ("nodes-own-id-own-addr", n(own_id, own_addr)),
            ("nodes-own-addr", n([7; 20], own_addr)),
            ("nodes-port0", n([7; 20], SocketAddrV4::new(Ipv4Addr::new(50, 1, 1, 1), 0))),
            ("nodes-unspecified-ip", n([7; 20], SocketAddrV4::new(Ipv4Addr::UNSPECIFIED, 6881))),
            ("nodes-broadcast-ip", n([7; 20], SocketAddrV4::new(Ipv4Addr::BROADCAST, 6881))),
            ("nodes-loopback", n([7; 20], SocketAddrV4::new(Ipv4Addr::LOCALHOST, 7000))),
            ("nodes-duplicates", { let mut v = n([7; 20], SocketAddrV4::new(Ipv4Addr::new(50, 1, 1, 1), 1)); let c = v.clone(); for _ in 0..30 { v.extend_from_slice(&c); } v }),
            ("nodes-70", nodes26(70)),
        ]
    };
    let mut emit = |label: String, m: B| out(format!("{}:{label}", t.name), encode(&m));
    // signed announcements with extreme timestamps, re-signed so that they get past the signature
    // check and reach the freshness arithmetic
    {
        let sk = krpc::signing_key(3);
        let pk = sk.verifying_key().to_bytes();
        let now = UNIX_BASE_MICROS + T0 / 1000;
        let stamps: [(&str, u64); 7] = [("zero", 0), ("one", 1), ("2^63-1", i64::MAX as u64), ("2^63", 1u64 << 63), ("2^63+now", (1u64 << 63) + now), ("u64-max", u64::MAX), ("now+2^62", now + (1u64 << 62))];
        if t.name == "q-announce_signed_peer" {
            for (n, ts) in stamps {
                let mut m = t.msg.clone();
                if let B::Dict(top) = &mut m {
                    if let Some((_, a)) = top.iter_mut().find(|(k, _)| k == b"a") {
                        a.set("t", B::Int(ts as i64 as i128));
                        a.set("k", B::bytes(pk));
                        a.set("sig", B::bytes(krpc::sign_announce(&sk, &ID_B, ts)));
                    }
                }
                emit(format!("a.t=content/validly-signed-timestamp-{n}"), m);
            }
        }
        if t.name == "r-get_signed_peers" {
            for (n, ts) in stamps {
                let mut rec = pk.to_vec();
                rec.extend_from_slice(&ts.to_be_bytes());
                rec.extend_from_slice(&krpc::sign_announce(&sk, &ID_B, ts));
                let mut m = t.msg.clone();
                if let B::Dict(top) = &mut m {
                    if let Some((_, r)) = top.iter_mut().find(|(k, _)| k == b"r") {
                        r.set("peers", B::List(vec![B::bytes(rec)]));
                    }
                }
                emit(format!("r.peers=content/validly-signed-timestamp-{n}"), m);
            }
        }
    }
    let set_in = |container: &str, key: &str, v: B| -> Option<B> {
        let mut m = t.msg.clone();
        if container.is_empty() {
            m.get(key)?;
            m.set(key, v);
        } else {
            let B::Dict(top) = &mut m else { return None };
            let c = &mut top.iter_mut().find(|(k, _)| k == container.as_bytes())?.1;
            c.get(key)?;
            c.set(key, v);
        }
        Some(m)
    };
    for (container, key) in &t.fields {
        let orig = if container.is_empty() { t.msg.get(key) } else { t.msg.get(container).and_then(|c| c.get(key)) };
        let Some(orig) = orig.cloned() else { continue };
        match (&orig, *key) {
            (B::Bytes(_), "k") => {
                for (n, k) in &keys32 {
                    if let Some(m) = set_in(container, key, B::bytes(k)) { emit(format!("{container}.{key}=content/{n}"), m); }
                }
            }
            (B::Bytes(_), "sig") => {
                for (n, k) in &sigs {
                    if let Some(m) = set_in(container, key, B::bytes(k)) { emit(format!("{container}.{key}=content/{n}"), m); }
                }
            }
            (B::Bytes(b), "id" | "target" | "info_hash") if b.len() == 20 => {
                for (n, v) in [("own-id", own_id.to_vec()), ("zero-id", vec![0u8; 20]), ("ff-id", vec![0xFF; 20])] {
                    if let Some(m) = set_in(container, key, B::bytes(v)) { emit(format!("{container}.{key}=content/{n}"), m); }
                }
            }
            (B::Bytes(_), "nodes") => {
                for (n, v) in &node_lists {
                    if let Some(m) = set_in(container, key, B::bytes(v)) { emit(format!("{container}.{key}=content/{n}"), m); }
                }
            }
            (B::Bytes(_), "ip") => {
                for (n, v) in [("own-addr", krpc::compact_addr(&own_addr).to_vec()), ("zero-addr", vec![0u8; 6]), ("ipv6-18-bytes", vec![0x20; 18]), ("ff-addr", vec![0xFF; 6])] {
                    if let Some(m) = set_in(container, key, B::bytes(v)) { emit(format!("{container}.{key}=content/{n}"), m); }
                }
            }
            (B::Bytes(_), "token") => {
                for (n, v) in [("1-byte", vec![1u8; 1]), ("255-bytes", vec![2u8; 255]), ("1000-bytes", vec![3u8; 1000])] {
                    if let Some(m) = set_in(container, key, B::bytes(v)) { emit(format!("{container}.{key}=content/token-{n}"), m); }
                }
            }
            (B::Bytes(_), "q" | "y" | "v" | "salt") => {
                for (n, v) in texts.iter().take(12) {
                    let v: Vec<u8> = if *key == "salt" { v.iter().take(64).copied().collect() } else { v.iter().take(300).copied().collect() };
                    if let Some(m) = set_in(container, key, B::bytes(v)) { emit(format!("{container}.{key}=content/text-{n}"), m); }
                }
            }
            (B::Int(_), _) => {
                for (n, v) in &ints {
                    if let Some(m) = set_in(container, key, B::Int(*v)) { emit(format!("{container}.{key}=content/int-{n}"), m); }
                }
            }
            (B::List(_), "values") => {
                let port0 = B::bytes(krpc::compact_addr(&SocketAddrV4::new(Ipv4Addr::new(1, 2, 3, 4), 0)));
                let own = B::bytes(krpc::compact_addr(&own_addr));
                let many = B::List((0..200u32).map(|i| B::bytes([10, (i >> 8) as u8, i as u8, 1, 0x1A, 0xE1])).collect());
                for (n, v) in [("port0", B::List(vec![port0])), ("own-addr", B::List(vec![own])), ("200-values", many)] {
                    if let Some(m) = set_in(container, key, v) { emit(format!("{container}.{key}=content/values-{n}"), m); }
                }
            }
            (B::List(_), "e") => {
                for (n, text) in &texts {
                    if let Some(m) = set_in(container, key, B::List(vec![B::Int(203), B::bytes(text)])) { emit(format!(".e=content/description-{n}"), m); }
                }
                for (n, v) in [
                    ("code-only", B::List(vec![B::Int(203)])),
                    ("three-elements", B::List(vec![B::Int(203), B::bytes("m"), B::bytes("x")])),
                    ("swapped", B::List(vec![B::bytes("m"), B::Int(203)])),
                    ("code-i64-min", B::List(vec![B::Int(i64::MIN as i128), B::bytes("m")])),
                    ("code-u64-max", B::List(vec![B::Int(u64::MAX as i128), B::bytes("m")])),
                    ("empty-description", B::List(vec![B::Int(203), B::bytes("")])),
                ] {
                    if let Some(m) = set_in(container, key, v) { emit(format!(".e=content/{n}"), m); }
                }
            }
            _ => {}
        }
    }
}

/// The write-shaped datagram with the token replaced by one the receiving server has just issued
/// to the sender (so that the request gets past the token check and its payload is looked at).
fn with_token(bytes: &[u8], token: &[u8]) -> Option<Vec<u8>> {
    let (mut tree, _) = crate::bencode::decode(bytes).ok()?;
    let B::Dict(top) = &mut tree else { return None };
    let a = &mut top.iter_mut().find(|(k, _)| k == b"a")?.1;
    a.get("token")?.as_bytes()?;
    a.set("token", B::bytes(token));
    Some(encode(&tree))
}

fn class_of(label: &str) -> String {
    // template + deviation classes without field positions: the finding key
    let (tpl, rest) = label.split_once(':').unwrap_or((label, ""));
    let devs: Vec<String> = rest
        .split('+')
        .map(|p| {
            let p = p.split('@').next().unwrap_or(p);
            p.to_string()
        })
        .collect();
    format!("{tpl}/{}", devs.join("+"))
}

fn check_decode(label: &str, bytes: &[u8], out: &mut Partial) {
    out.add("evaluations", 1);
    out.add("distinct_nontrivial", 1);
    match quiet(|| catch(|| decode(bytes))) {
        Ok(Ok(_)) => out.add("decoded_ok", 1),
        Ok(Err(_)) => out.add("decode_errors", 1),
        Err(p) => out.violation(
            // identified by the message shape and the panic site (its message), not by every
            // field combination that reaches it
            format!("decoder-panic/{}/{}", label.split(':').next().unwrap_or(""), p.chars().take(48).collect::<String>().replace(' ', "-")),
            format!("Message::from_bytes panicked on {label}: {p}"),
            json!({"part": "decode", "label": label, "bytes": hex(bytes)}),
        ),
    }
}

// ---------------------------------------------------------------------------------------------
// Live nodes
// ---------------------------------------------------------------------------------------------

fn liveness(w: &mut World, a: usize, server: bool, net: Option<&mut EpNet>, what: &str, replay: Value, out: &mut Partial) -> bool {
    if w.nodes[a].exited == Some(true) || !w.nodes[a].alive {
        out.violation(format!("actor-died/{what}"), format!("{what}: the node's actor thread {}", if w.nodes[a].blocked { "is blocked" } else { "exited (panic)" }), replay);
        return false;
    }
    let _ = (server, net);
    true
}

/// (a)/(b): every datagram delivered to an idle node from a stranger; then a probe.
fn live_unsolicited(server: bool, grams: &[(String, Vec<u8>)], out: &mut Partial) {
    let mut i = 0usize;
    while i < grams.len() {
        let mut w = World::new(Chooser::default_run());
        w.keep_log = true;
        let ids = crate::epnet::ranked_ids(&ID_B, 2);
        let mut net = EpNet::new(&mut w, &ids);
        let boots = net.addrs();
        let cfg = NodeCfg::new([9, 9, 9, 9], 7000).bootstrap(&boots).id([0x21; 20]);
        let a = w.add_node(if server { cfg.server() } else { cfg });
        let a_addr = w.node_addr(a);
        let stranger = SocketAddrV4::new(Ipv4Addr::new(77, 7, 7, 7), 7777);
        let stranger_ep = w.add_endpoint(stranger);
        let h = w.now + 2 * SEC;
        w.run_until(h, |w, ev| {
            if let Event::EndpointRecv { ep, dgram } = ev {
                net.handle(w, *ep, dgram);
            }
            false
        });
        // a write token the server issues to the stranger (writes are then delivered twice: as
        // generated, and with this token, so that the payload behind the token check is reached)
        let mut token: Option<Vec<u8>> = None;
        if server {
            w.send_raw_with_latency(stranger, a_addr, krpc::q_get_peers(&[8, 8, 8, 8], &ID_A, &ID_B, false), MS);
            let h = w.now + 20 * MS;
            w.run_until(h, |w, ev| {
                if let Event::EndpointRecv { ep, dgram } = ev {
                    if *ep == stranger_ep {
                        if let Some(k) = Krpc::parse(&dgram.bytes) {
                            if k.t == [8, 8, 8, 8] {
                                token = k.res_bytes("token").map(|t| t.to_vec());
                            }
                        }
                    } else {
                        net.handle(w, *ep, dgram);
                    }
                }
                false
            });
            out.witness("the server issued a write token to the stranger", token.is_some());
        }
        let mode = if server { "server" } else { "client" };
        let mut died = false;
        while i < grams.len() {
            let (label, bytes) = &grams[i];
            i += 1;
            out.add("executions", 1);
            out.add("live_datagrams", 1);
            w.send_raw_with_latency(stranger, a_addr, bytes.clone(), MS);
            if let (Some(tok), true) = (token.as_ref(), label.starts_with("q-put") || label.starts_with("q-announce")) {
                if !label.contains("a.token=") {
                    if let Some(b2) = with_token(bytes, tok) {
                        out.add("live_writes_with_valid_token", 1);
                        w.send_raw_with_latency(stranger, a_addr, b2, 2 * MS);
                    }
                }
            }
            let h = w.now + 5 * MS;
            w.run_until(h, |w, ev| {
                if let Event::EndpointRecv { ep, dgram } = ev {
                    if *ep != stranger_ep {
                        net.handle(w, *ep, dgram);
                    }
                }
                false
            });
            if !liveness(&mut w, a, server, None, &format!("unsolicited-to-{mode}/{}", class_of(label)), json!({"part": "unsolicited", "server": server, "label": label, "bytes": hex(bytes)}), out) {
                died = true;
                break;
            }
        }
        out.add("transitions", w.steps);
        if died {
            continue;
        }
        // probe: ping (server), info, put + get
        probe(&mut w, a, server, &mut net, &format!("after-unsolicited-to-{mode}"), out);
    }
}

fn probe(w: &mut World, a: usize, server: bool, net: &mut EpNet, what: &str, out: &mut Partial) {
    let a_addr = w.node_addr(a);
    let stranger = SocketAddrV4::new(Ipv4Addr::new(77, 7, 7, 8), 7778);
    let ep = w.add_endpoint(stranger);
    if server {
        w.send_raw_with_latency(stranger, a_addr, krpc::q_ping(&[9, 9, 9, 9], &ID_A), MS);
    }
    let info = w.call_info(a);
    let put = w.call_put_immutable(a, b"probe value".to_vec());
    let h = w.now + 30 * SEC;
    let mut pong = false;
    w.run_until(h, |w, ev| {
        if let Event::EndpointRecv { ep: e, dgram } = ev {
            if *e == ep {
                if let Some(k) = Krpc::parse(&dgram.bytes) {
                    pong |= k.is_response() && k.t == [9, 9, 9, 9];
                }
            } else {
                net.handle(w, *e, dgram);
            }
        }
        w.result(info).is_some() && w.result(put).is_some() && (pong || !server)
    });
    let get = w.call_get_immutable(a, krpc::immutable_target(b"probe value").into());
    let h = w.now + 30 * SEC;
    w.run_until(h, |w, ev| {
        if let Event::EndpointRecv { ep: e, dgram } = ev {
            if *e != ep {
                net.handle(w, *e, dgram);
            }
        }
        w.result(get).is_some()
    });
    let ok_put = matches!(w.result(put), Some(CallResult::Put(Ok(_))));
    let ok_get = matches!(w.result(get), Some(CallResult::Bytes(Some(_))));
    let ok_info = matches!(w.result(info), Some(CallResult::Info(_)));
    out.add("probes", 1);
    if !(ok_put && ok_get && ok_info && (pong || !server)) || w.any_actor_panicked().is_some() {
        out.violation(
            format!("probe-failed/{what}"),
            format!("{what}: ping answered={pong} info={ok_info} put={:?} get={ok_get}", w.result(put)),
            json!({"part": "probe", "what": what}),
        );
    } else {
        out.add("probes_ok", 1);
    }
}

const LOOKUPS: [&str; 5] = ["find_node", "get_immutable", "get_mutable", "get_peers", "get_signed_peers"];

/// (c): every datagram as THE reply (right address, right tid) to an in-flight lookup.
fn live_replies(kind: usize, grams: &[(String, Vec<u8>)], out: &mut Partial) {
    let mut i = 0usize;
    while i < grams.len() {
        let mut w = World::new(Chooser::default_run());
        let ids = crate::epnet::ranked_ids(&ID_B, 2);
        let mut net = EpNet::new(&mut w, &ids);
        let boots = net.addrs()[..1].to_vec();
        let a = w.add_node(NodeCfg::new([9, 9, 9, 9], 7000).bootstrap(&boots).id([0x21; 20]));
        let h = w.now + 2 * SEC;
        w.run_until(h, |w, ev| {
            if let Event::EndpointRecv { ep, dgram } = ev {
                net.handle(w, *ep, dgram);
            }
            false
        });
        let qname = ["find_node", "get", "get", "get_peers", "get_signed_peers"][kind];
        let mut died = false;
        while i < grams.len() {
            let (label, bytes) = &grams[i];
            i += 1;
            out.add("executions", 1);
            out.add("live_replies", 1);
            // a fresh target per lookup so that nothing is served from the cache
            let mut target = ID_B;
            target[0] = (i % 251) as u8;
            target[1] = (i / 251) as u8;
            let sk = krpc::signing_key(3);
            let call = match kind {
                0 => w.call_find_node(a, target.into()),
                1 => w.call_get_immutable(a, target.into()),
                2 => w.call_get_mutable(a, sk.verifying_key().to_bytes(), Some(vec![(i % 256) as u8, (i / 256) as u8]), None),
                3 => w.call_get_peers(a, target.into()),
                _ => w.call_get_signed_peers(a, target.into()),
            };
            let h = w.now + 20 * SEC;
            let mut used = false;
            w.run_until(h, |w, ev| {
                if let Event::EndpointRecv { ep, dgram } = ev {
                    let q = Krpc::parse(&dgram.bytes);
                    let is_lookup = q.as_ref().map(|q| q.is_query() && q.q.as_deref() == Some(qname)).unwrap_or(false);
                    if is_lookup && !used {
                        used = true;
                        // splice the request's transaction id into the crafted reply
                        let mut bytes = bytes.clone();
                        if let (Some(q), Ok((mut tree, _))) = (q, crate::bencode::decode(&bytes)) {
                            if tree.get("t").and_then(|t| t.as_bytes()).map(|t| t == [0, 0, 0, 7]).unwrap_or(false) {
                                tree.set("t", B::Bytes(q.t.clone()));
                                bytes = encode(&tree);
                            }
                        }
                        let from = net.eps[net.index_of(*ep).expect("ep")].addr;
                        w.send_raw(from, dgram.from, bytes);
                    } else {
                        net.handle(w, *ep, dgram);
                    }
                }
                w.result(call).is_some()
            });
            let what = format!("reply-to-{}/{}", LOOKUPS[kind], class_of(label));
            let replay = json!({"part": "reply", "kind": kind, "label": label, "bytes": hex(bytes)});
            if let Some(CallResult::Panicked(p)) = w.result(call) {
                out.violation(format!("api-panicked/{what}"), format!("{what}: the API call panicked: {p}"), replay.clone());
            }
            if w.result(call).is_none() {
                out.violation(format!("never-completes/{what}"), format!("{what}: the lookup did not complete"), replay.clone());
            }
            if !liveness(&mut w, a, false, None, &what, replay, out) {
                died = true;
                break;
            }
        }
        out.add("transitions", w.steps);
        if !died {
            probe(&mut w, a, false, &mut net, &format!("after-replies-to-{}", LOOKUPS[kind]), out);
        }
    }
}

const PUTS: [&str; 4] = ["put_immutable", "put_mutable", "announce_peer", "announce_signed_peer"];

/// (d): crafted replies / error codes from one or all of three storers to an in-flight put.
fn live_put_replies(kind: usize, reply: &(String, Vec<u8>), all: bool, out: &mut Partial) {
    let mut w = World::new(Chooser::default_run());
    let mitem = dht::MutableItem::new(&krpc::signing_key(0x33), b"c05", 2, None);
    let imm: &[u8] = b"c05 immutable";
    let target: Id20 = match kind {
        0 => krpc::immutable_target(imm),
        1 => *mitem.target().as_bytes(),
        2 => [0x5C; 20],
        _ => [0x5D; 20],
    };
    let ids = crate::epnet::ranked_ids(&target, 3);
    let mut net = EpNet::new(&mut w, &ids);
    let boots = net.addrs()[..1].to_vec();
    let a = w.add_node(NodeCfg::new([9, 9, 9, 9], 7000).bootstrap(&boots).id([0x21; 20]));
    let h = w.now + 2 * SEC;
    w.run_until(h, |w, ev| {
        if let Event::EndpointRecv { ep, dgram } = ev {
            net.handle(w, *ep, dgram);
        }
        false
    });
    let call = match kind {
        0 => w.call_put_immutable(a, imm.to_vec()),
        1 => w.call_put_mutable(a, mitem, None),
        2 => w.call_announce_peer(a, target.into(), None),
        _ => w.call_announce_signed_peer(a, target.into(), krpc::signing_key(0x34)),
    };
    let h = w.now + 30 * SEC;
    w.run_until(h, |w, ev| {
        if let Event::EndpointRecv { ep, dgram } = ev {
            let i = net.index_of(*ep).expect("ep");
            let q = Krpc::parse(&dgram.bytes);
            let is_put = q.as_ref().map(|q| matches!(q.q.as_deref(), Some("put") | Some("announce_peer") | Some("announce_signed_peer"))).unwrap_or(false);
            if is_put && (all || i == 0) {
                let mut bytes = reply.1.clone();
                if let (Some(q), Ok((mut tree, _))) = (q, crate::bencode::decode(&bytes)) {
                    tree.set("t", B::Bytes(q.t.clone()));
                    bytes = encode(&tree);
                }
                let from = net.eps[i].addr;
                w.send_raw(from, dgram.from, bytes);
            } else {
                net.handle(w, *ep, dgram);
            }
        }
        w.result(call).is_some()
    });
    out.add("executions", 1);
    out.add("live_put_replies", 1);
    out.add("transitions", w.steps);
    let what = format!("{}-answered-with/{}/{}", PUTS[kind], class_of(&reply.0), if all { "all" } else { "one" });
    let replay = json!({"part": "put-reply", "kind": kind, "label": reply.0, "bytes": hex(&reply.1), "all": all});
    match w.result(call) {
        Some(CallResult::Panicked(p)) => out.violation(format!("api-panicked/{what}"), format!("{what}: the API call panicked in the caller: {p}"), replay.clone()),
        None => out.violation(format!("never-completes/{what}"), format!("{what}: the put did not complete"), replay.clone()),
        _ => {}
    }
    liveness(&mut w, a, false, None, &what, replay, out);
}

/// (d'): three storers answering one put with every mix of {ack, 203, 205, 301} in every
/// arrival order (the error tally sees several codes in one query).
fn live_put_mixed(kind: usize, codes: &[i64; 3], order: usize, out: &mut Partial) {
    let mut w = World::new(Chooser::default_run());
    let mitem = dht::MutableItem::new(&krpc::signing_key(0x33), b"c05", 2, None);
    let imm: &[u8] = b"c05 immutable";
    let target: Id20 = if kind == 0 { krpc::immutable_target(imm) } else { *mitem.target().as_bytes() };
    let ids = crate::epnet::ranked_ids(&target, 3);
    let mut net = EpNet::new(&mut w, &ids);
    for (i, c) in codes.iter().enumerate() {
        net.eps[i].put_reply = if *c == 0 { crate::epnet::PutReply::Ack } else { crate::epnet::PutReply::Error(*c) };
    }
    let boots = net.addrs()[..1].to_vec();
    let a = w.add_node(NodeCfg::new([9, 9, 9, 9], 7000).bootstrap(&boots).id([0x21; 20]));
    let rank: Vec<usize> = {
        let mut items: Vec<usize> = vec![0, 1, 2];
        let mut k = order;
        let mut o = vec![];
        for i in (1..=3).rev() {
            o.push(items.remove(k % i));
            k /= i;
        }
        o
    };
    let pump = |w: &mut World, net: &mut EpNet, ev: &Event| {
        if let Event::EndpointRecv { ep, dgram } = ev {
            let i = net.index_of(*ep).expect("ep");
            if let Some(q) = Krpc::parse(&dgram.bytes) {
                if q.is_query() {
                    let is_put = q.q.as_deref() == Some("put");
                    if let Some(bytes) = net.honest_reply(i, &q, dgram.from, w.now) {
                        let from = net.eps[i].addr;
                        w.send_raw_with_latency(from, dgram.from, bytes, if is_put { (10 + 40 * rank[i] as u64) * MS } else { DEFAULT_LATENCY });
                    }
                }
            }
        }
    };
    let h = w.now + 2 * SEC;
    w.run_until(h, |w, ev| {
        pump(w, &mut net, ev);
        false
    });
    let call = if kind == 0 { w.call_put_immutable(a, imm.to_vec()) } else { w.call_put_mutable(a, mitem, None) };
    let h = w.now + 30 * SEC;
    w.run_until(h, |w, ev| {
        pump(w, &mut net, ev);
        w.result(call).is_some()
    });
    out.add("executions", 1);
    out.add("live_put_mixed", 1);
    out.add("transitions", w.steps);
    let mut sorted = *codes;
    sorted.sort();
    let what = format!("{}-answered-with-mixed-codes/{:?}", PUTS[kind], sorted);
    let replay = json!({"part": "put-mixed", "kind": kind, "codes": codes, "order": order});
    match w.result(call) {
        Some(CallResult::Panicked(p)) => out.violation(format!("api-panicked/{what}"), format!("{what} (arrival order #{order}): the API call panicked in the caller: {p}"), replay.clone()),
        None => out.violation(format!("never-completes/{what}"), format!("{what}: the put did not complete"), replay.clone()),
        _ => {}
    }
    liveness(&mut w, a, false, None, &what, replay, out);
}

/// Reply-latency timelines: a single peer answers consecutive lookups after the given delays.
fn live_latency_timeline(seq: &[u64], out: &mut Partial) {
    let mut w = World::new(Chooser::default_run());
    let ids = crate::epnet::ranked_ids(&ID_B, 1);
    let mut net = EpNet::new(&mut w, &ids);
    let boots = net.addrs();
    let a = w.add_node(NodeCfg::new([9, 9, 9, 9], 7000).bootstrap(&boots).id([0x21; 20]).server());
    let h = w.now + 2 * SEC;
    w.run_until(h, |w, ev| {
        if let Event::EndpointRecv { ep, dgram } = ev {
            net.handle(w, *ep, dgram);
        }
        false
    });
    for (n, lat) in seq.iter().enumerate() {
        let mut target = ID_B;
        target[0] = n as u8;
        let call = w.call_find_node(a, target.into());
        let h = w.now + 20 * SEC;
        w.run_until(h, |w, ev| {
            if let Event::EndpointRecv { ep, dgram } = ev {
                let i = net.index_of(*ep).expect("ep");
                if let Some(q) = Krpc::parse(&dgram.bytes) {
                    if q.is_query() {
                        if let Some(bytes) = net.honest_reply(i, &q, dgram.from, w.now) {
                            let from = net.eps[i].addr;
                            w.send_raw_with_latency(from, dgram.from, bytes, *lat);
                        }
                    }
                }
            }
            w.result(call).is_some()
        });
        // let late replies land
        w.run_for(4 * SEC);
        if w.nodes[a].exited == Some(true) || !w.nodes[a].alive {
            break;
        }
    }
    out.add("executions", 1);
    out.add("latency_timelines", 1);
    out.add("transitions", w.steps);
    let pretty: Vec<u64> = seq.iter().map(|l| l / MS).collect();
    let slow = pretty.iter().filter(|l| **l >= 500).count();
    liveness(&mut w, a, true, None, &format!("reply-latency-timeline/first-{}ms/{}-slow-replies", pretty[0], slow), json!({"part": "timeline", "seq_ms": pretty}), out);
}

fn error_replies() -> Vec<(String, Vec<u8>)> {
    [201i64, 202, 203, 204, 205, 206, 207, 301, 302, 0, -1, i32::MAX as i64, i32::MAX as i64 + 1]
        .iter()
        .map(|c| (format!("error:code={c}"), krpc::error(&[0, 0, 0, 7], *c, "scripted")))
        .collect()
}

fn run(tier: Tier, shard: usize, nshards: usize, _seed: u64) -> Partial {
    crate::sim::install_env();
    // every log statement of the library is evaluated and formatted (into a sink)
    crate::eager_log::install();
    let tpls = templates();
    let mut out = Partial::default();
    // ---- E3: decoder (each shard takes a slice of the grammar, in-process threads per shard)
    let mut n = 0usize;
    for t in &tpls {
        for (label, bytes) in singles(t) {
            n += 1;
            if n % nshards == shard {
                check_decode(&label, &bytes, &mut out);
            }
        }
        let mut sink = |label: String, bytes: Vec<u8>| {
            n += 1;
            if n % nshards == shard {
                check_decode(&label, &bytes, &mut out);
            }
        };
        structural(t, &mut sink);
        pairs(t, &mut sink);
        absent_subsets(t, &mut sink);
        content_variants(t, &mut sink);
    }
    // ---- E1: live nodes
    let mut all_singles: Vec<(String, Vec<u8>)> = vec![];
    for t in &tpls {
        all_singles.extend(singles(t));
        let mut s = |label: String, bytes: Vec<u8>| {
            if !label.contains("truncated@") || label.ends_with("@20") || label.ends_with("@40") {
                all_singles.push((label, bytes));
            }
        };
        structural(t, &mut s);
        // absent-field subsets: only those the real decoder lets through can reach the node's
        // logic (socket.rs drops a datagram that does not decode before looking at it), the
        // rest were judged by the decoder pass above
        let mut s2 = |label: String, bytes: Vec<u8>| {
            if quiet(|| catch(|| decode(&bytes).is_ok())).unwrap_or(false) {
                all_singles.push((label, bytes));
            }
        };
        absent_subsets(t, &mut s2);
        let mut s3 = |label: String, bytes: Vec<u8>| all_singles.push((label, bytes));
        content_variants(t, &mut s3);
    }
    let my: Vec<(String, Vec<u8>)> = all_singles.iter().enumerate().filter(|(i, _)| i % nshards == shard).map(|(_, g)| g.clone()).collect();
    live_unsolicited(true, &my, &mut out);
    live_unsolicited(false, &my, &mut out);
    // replies: response-shaped and error-shaped datagrams only
    let replies: Vec<(String, Vec<u8>)> = all_singles.iter().filter(|(l, _)| l.starts_with("r-") || l.starts_with("error")).cloned().chain(error_replies()).collect();
    let mut unit = 0usize;
    for kind in 0..LOOKUPS.len() {
        let mine: Vec<(String, Vec<u8>)> = replies
            .iter()
            .filter(|_| {
                unit += 1;
                unit % nshards == shard
            })
            .cloned()
            .collect();
        live_replies(kind, &mine, &mut out);
    }
    // put replies: each response template (valid form) + the error codes + the crafted singles
    // of the ping/no_values shapes
    let mut put_replies: Vec<(String, Vec<u8>)> = tpls.iter().filter(|t| t.name.starts_with("r-") || t.name == "error").map(|t| (format!("{}:valid", t.name), encode(&t.msg))).collect();
    put_replies.extend(error_replies());
    put_replies.extend(all_singles.iter().filter(|(l, _)| l.starts_with("r-ping") || l.starts_with("error:")).cloned());
    for kind in 0..4 {
        for r in &put_replies {
            for all in [false, true] {
                unit += 1;
                if unit % nshards == shard {
                    live_put_replies(kind, r, all, &mut out);
                }
            }
        }
    }
    for kind in 0..2 {
        for c in 0..64usize {
            let menu = [0i64, 203, 205, 301];
            let codes = [menu[c % 4], menu[(c / 4) % 4], menu[(c / 16) % 4]];
            for order in 0..6 {
                unit += 1;
                if unit % nshards == shard {
                    live_put_mixed(kind, &codes, order, &mut out);
                }
            }
        }
    }
    // latency timelines
    let len = if tier.is_quick() { 7 } else { 9 };
    let lats = [10 * MS, 520 * MS, 3 * SEC];
    for c in 0..3usize.pow(len as u32) {
        unit += 1;
        if unit % nshards != shard {
            continue;
        }
        let seq: Vec<u64> = (0..len).map(|i| lats[(c / 3usize.pow(i as u32)) % 3]).collect();
        live_latency_timeline(&seq, &mut out);
    }
    out.add("log_events_evaluated", crate::eager_log::EVENTS.load(std::sync::atomic::Ordering::Relaxed));
    out.witness("the library's log statements were evaluated", out.count("log_events_evaluated") > 0);
    out.witness("some generated datagrams decode", out.count("decoded_ok") > 0);
    out.witness("some generated datagrams are rejected", out.count("decode_errors") > 0);
    out.witness("liveness probes succeeded", out.count("probes_ok") > 0);
    out.sample(json!({"label": "q-put:a.seq=removed", "what": "put with k but without seq"}));
    out.sample(json!({"label": "r-get_signed_peers:r.peers=list-of-bad-elements"}));
    out.sample(json!({"part": "timeline", "seq_ms": [3000, 520, 520, 520, 520, 520, 520]}));
    out
}

fn replay(v: &Value) -> Result<Option<Violation>, String> {
    crate::eager_log::install();
    let mut out = Partial::default();
    let label = v.get("label").and_then(|l| l.as_str()).unwrap_or("").to_string();
    let bytes = v.get("bytes").and_then(|b| b.as_str()).and_then(unhex).unwrap_or_default();
    match v.get("part").and_then(|p| p.as_str()) {
        Some("decode") => {
            crate::sim::install_env();
            crate::sim::enter_local(T0, 1);
            check_decode(&label, &bytes, &mut out)
        }
        Some("unsolicited") => live_unsolicited(v.get("server").and_then(|s| s.as_bool()).unwrap_or(true), &[(label, bytes)], &mut out),
        Some("reply") => live_replies(v.get("kind").and_then(|k| k.as_u64()).ok_or("kind")? as usize, &[(label, bytes)], &mut out),
        Some("put-reply") => live_put_replies(v.get("kind").and_then(|k| k.as_u64()).ok_or("kind")? as usize, &(label, bytes), v.get("all").and_then(|a| a.as_bool()).unwrap_or(false), &mut out),
        Some("put-mixed") => {
            let c: Vec<i64> = v.get("codes").and_then(|c| c.as_array()).ok_or("codes")?.iter().filter_map(|x| x.as_i64()).collect();
            if c.len() != 3 {
                return Err("codes".into());
            }
            live_put_mixed(v.get("kind").and_then(|k| k.as_u64()).ok_or("kind")? as usize, &[c[0], c[1], c[2]], v.get("order").and_then(|k| k.as_u64()).unwrap_or(0) as usize, &mut out)
        }
        Some("timeline") => {
            let seq: Vec<u64> = v.get("seq_ms").and_then(|s| s.as_array()).ok_or("seq")?.iter().filter_map(|x| x.as_u64().map(|x| x * MS)).collect();
            live_latency_timeline(&seq, &mut out)
        }
        _ => return Err("part".into()),
    }
    Ok(out.violations.into_iter().next())
}
