//! E2: explicit-state breadth-first search whose states hold *real objects* (clones of the
//! implementation's structs) next to a reference model.
//!
//! Layered BFS to a depth bound. Every transition is executed on a clone of the real object
//! through its real entry point; the oracle runs inside `step`. States are de-duplicated on a
//! digest that covers the whole real object (its snapshot), the virtual clock, the rng cursor
//! and the model, so merged states have equal futures by construction.
//! The search is deterministic: successors are merged in (parent index, action index) order.

use std::collections::HashSet;

use crate::report::Partial;

pub trait Machine: Clone + Send + Sync {
    /// Number of actions enabled in this state.
    fn action_count(&self) -> usize;
    /// Human readable description of action `i` in this state (for replay files).
    fn describe(&self, i: usize) -> String;
    /// Apply action `i`; check oracles and record violations into `out` (use `path` to build
    /// replay data). Returns false if the successor should not be explored further.
    fn step(&mut self, i: usize, path: &[u16], out: &mut Partial) -> bool;
    /// Digest covering everything that determines future behaviour.
    fn digest(&self) -> u64;
    /// Prepare thread-local environment (clock, rng) before touching the real object.
    fn enter(&self);
}

#[derive(Default, Debug, Clone)]
pub struct BfsStats {
    pub states: u64,
    pub transitions: u64,
    pub depth_reached: usize,
    pub frontier_sizes: Vec<usize>,
    pub capped: bool,
    /// Shortest path to every discovered state (when `collect_paths` is set).
    pub paths: Vec<Vec<u16>>,
}

pub struct Bfs {
    pub max_depth: usize,
    pub max_states: usize,
    pub threads: usize,
    pub collect_paths: bool,
}

impl Bfs {
    pub fn run<M: Machine>(&self, inits: Vec<M>, out: &mut Partial) -> BfsStats {
        let mut stats = BfsStats::default();
        let mut seen: HashSet<u64> = HashSet::new();
        let mut frontier: Vec<(M, Vec<u16>)> = vec![];
        for (i, m) in inits.into_iter().enumerate() {
            m.enter();
            let d = m.digest();
            if seen.insert(d) {
                // the index of the initial state is the first element of every path
                if self.collect_paths {
                    stats.paths.push(vec![i as u16]);
                }
                frontier.push((m, vec![i as u16]));
            }
        }
        stats.states = seen.len() as u64;
        stats.frontier_sizes.push(frontier.len());
        for depth in 0..self.max_depth {
            if frontier.is_empty() {
                break;
            }
            let chunks = self.threads.max(1).min(frontier.len());
            let chunk_size = frontier.len().div_ceil(chunks);
            let results: Vec<(Vec<(u64, M, Vec<u16>)>, Partial, u64)> = std::thread::scope(|s| {
                let hs: Vec<_> = frontier
                    .chunks(chunk_size)
                    .map(|chunk| {
                        s.spawn(move || {
                            crate::sim::install_env();
                            crate::sim::enter_local(crate::sim::T0, 0);
                            let mut succ = vec![];
                            let mut part = Partial::default();
                            let mut transitions = 0u64;
                            for (m, path) in chunk {
                                m.enter();
                                let n = m.action_count();
                                for a in 0..n {
                                    let mut next = m.clone();
                                    next.enter();
                                    let mut p = path.clone();
                                    p.push(a as u16);
                                    let keep = next.step(a, &p, &mut part);
                                    transitions += 1;
                                    if keep {
                                        let d = next.digest();
                                        succ.push((d, next, p));
                                    }
                                }
                            }
                            (succ, part, transitions)
                        })
                    })
                    .collect();
                hs.into_iter()
                    .map(|h| match h.join() {
                        Ok(r) => r,
                        Err(e) => std::panic::resume_unwind(e),
                    })
                    .collect()
            });
            let mut next_frontier = vec![];
            for (succ, part, transitions) in results {
                stats.transitions += transitions;
                out.merge(part);
                for (d, m, p) in succ {
                    if seen.insert(d) {
                        if seen.len() > self.max_states {
                            stats.capped = true;
                        } else {
                            if self.collect_paths {
                                stats.paths.push(p.clone());
                            }
                            next_frontier.push((m, p));
                        }
                    }
                }
            }
            stats.depth_reached = depth + 1;
            stats.states = seen.len() as u64;
            stats.frontier_sizes.push(next_frontier.len());
            frontier = next_frontier;
            if stats.capped {
                break;
            }
        }
        out.add("states", stats.states);
        out.add("transitions", stats.transitions);
        // every transition is an execution of the real object through its real entry point
        out.add("traces_validated_against_impl", stats.transitions);
        out.gauge_max("depth_reached", stats.depth_reached as u64);
        out.capped |= stats.capped;
        stats
    }
}
