//! SimNet: the harness side of the `dht::verif::Env` seam.
//!
//! One process hosts at most one [World] at a time. A world owns a virtual clock, an
//! in-memory datagram network and N *real* nodes: each node is a real `AsyncDht` built through
//! the public `DhtBuilder`, whose actor thread runs the unmodified `actor::run` loop but parks
//! at the top of every iteration until the world grants it exactly one (the "baton").
//! Exactly one thread runs at any time, so an execution is a deterministic function of the
//! sequence of choices the world makes (see `explore.rs`).
//!
//! Engines that do not need a network (explicit-state search over cloneable real objects,
//! input enumeration) put their thread in *local* mode: clock and randomness are then
//! thread-local and no world is involved.

use std::cell::{Cell, RefCell};
use std::collections::{BTreeMap, BTreeSet, HashSet, VecDeque};
use std::future::Future;
use std::hash::{Hash, Hasher};
use std::io;
use std::net::{Ipv4Addr, SocketAddr, SocketAddrV4};
use std::panic::{catch_unwind, AssertUnwindSafe};
use std::pin::Pin;
use std::sync::atomic::{AtomicU64, Ordering};
use std::sync::{Arc, Condvar, Mutex, MutexGuard};
use std::task::{Context, Poll, Waker};
use std::time::Duration;

use dht::async_dht::AsyncDht;
use dht::verif::{ActorSnapshot, Env};
use dht::{Dht, ServerSettings};

use crate::explore::Chooser;
use crate::rng::RngStream;

pub const US: u64 = 1_000;
pub const MS: u64 = 1_000_000;
pub const SEC: u64 = 1_000_000_000;
pub const MIN: u64 = 60 * SEC;

/// Unix time (µs) at virtual instant 0.
pub const UNIX_BASE_MICROS: u64 = 1_700_000_000_000_000;
/// Virtual instant at which every world starts (non-zero so that "elapsed" arithmetic on
/// instants created at start is well away from saturation).
pub const T0: u64 = 1_000 * SEC;

// ---------------------------------------------------------------------------------------------
// Thread-local context
// ---------------------------------------------------------------------------------------------

thread_local! {
    static TL_NODE: Cell<Option<usize>> = const { Cell::new(None) };
    static TL_EPOCH: Cell<u64> = const { Cell::new(0) };
    static TL_LOCAL: Cell<bool> = const { Cell::new(false) };
    static TL_CLOCK: Cell<u64> = const { Cell::new(T0) };
    static TL_HARNESS: Cell<bool> = const { Cell::new(false) };
    static TL_LOCAL_SOCKETS: RefCell<LocalNet> = RefCell::new(LocalNet::default());
}

/// Thread-local "network" for single-threaded driving of an `Actor` (local mode).
#[derive(Default)]
pub struct LocalNet {
    pub outbox: Vec<(SocketAddrV4, Vec<u8>)>,
    pub inbox: VecDeque<(Vec<u8>, SocketAddrV4)>,
    pub read_timeout: u64,
}

/// Put the calling thread in local mode (thread-local clock and rng; no world).
pub fn enter_local(now: u64, seed: u64) {
    TL_LOCAL.with(|l| l.set(true));
    TL_CLOCK.with(|c| c.set(now));
    crate::rng::LOCAL_RNG.with(|r| *r.borrow_mut() = RngStream::new(seed));
    TL_LOCAL_SOCKETS.with(|n| *n.borrow_mut() = LocalNet::default());
}

pub fn local_set_clock(now: u64) {
    TL_CLOCK.with(|c| c.set(now));
}

pub fn local_clock() -> u64 {
    TL_CLOCK.with(|c| c.get())
}

pub fn local_set_rng(stream: RngStream) {
    crate::rng::LOCAL_RNG.with(|r| *r.borrow_mut() = stream);
}

pub fn local_get_rng() -> RngStream {
    crate::rng::LOCAL_RNG.with(|r| r.borrow().clone())
}

pub fn local_rng_script(draw: Vec<u8>) {
    crate::rng::LOCAL_RNG.with(|r| r.borrow_mut().script.push_back(draw));
}

pub fn local_net<R>(f: impl FnOnce(&mut LocalNet) -> R) -> R {
    TL_LOCAL_SOCKETS.with(|n| f(&mut n.borrow_mut()))
}

pub fn mark_harness_thread() {
    TL_HARNESS.with(|h| h.set(true));
}

// ---------------------------------------------------------------------------------------------
// Shared state (touched by actor threads through the Env)
// ---------------------------------------------------------------------------------------------

#[derive(Clone, Copy, PartialEq, Eq, Debug)]
enum Phase {
    Starting,
    Parked,
    Granted,
    Running,
    Exited,
}

struct Baton {
    phase: Phase,
    kill: bool,
    snapshot_req: bool,
    snapshot: Option<ActorSnapshot>,
    panicked: bool,
}

pub struct NodeSync {
    m: Mutex<Baton>,
    cv: Condvar,
    /// Kernel thread id of the actor thread (0 until it reached `actor_start`).
    tid: std::sync::atomic::AtomicI32,
}

impl NodeSync {
    fn new() -> Arc<Self> {
        Arc::new(NodeSync {
            m: Mutex::new(Baton {
                phase: Phase::Starting,
                kill: false,
                snapshot_req: false,
                snapshot: None,
                panicked: false,
            }),
            cv: Condvar::new(),
            tid: std::sync::atomic::AtomicI32::new(0),
        })
    }

    fn lock(&self) -> MutexGuard<'_, Baton> {
        self.m.lock().unwrap_or_else(|e| e.into_inner())
    }
}

struct NodeShared {
    sync: Arc<NodeSync>,
    inbox: VecDeque<(Vec<u8>, SocketAddrV4)>,
    read_timeout: u64,
    rng: RngStream,
    sock_open: bool,
    bound_port: u16,
    skew_micros: i64,
    /// One-shot: the transaction-id counter the node's socket is fast-forwarded to.
    tid_override: Option<u32>,
    /// While set, the node's in-flight table is shrunk to its length before every iteration.
    shrink_inflight: bool,
}

struct Shared {
    nodes: Vec<NodeShared>,
    constructing: Option<usize>,
    /// Datagrams handed to `send_to` during the current iteration: (node, to, bytes).
    outbox: Vec<(usize, SocketAddrV4, Vec<u8>)>,
    harness_rng: RngStream,
}

static NOW: AtomicU64 = AtomicU64::new(T0);
/// World generation: actor threads of an earlier world (leaked because they were blocked)
/// must never touch a later one.
static EPOCH: AtomicU64 = AtomicU64::new(0);
static SHARED: Mutex<Option<Shared>> = Mutex::new(None);

fn shared() -> MutexGuard<'static, Option<Shared>> {
    SHARED.lock().unwrap_or_else(|e| e.into_inner())
}

fn stale_thread() -> bool {
    TL_NODE.with(|n| n.get()).is_some() && TL_EPOCH.with(|e| e.get()) != EPOCH.load(Ordering::SeqCst)
}

fn current_node() -> Option<usize> {
    if TL_EPOCH.with(|e| e.get()) != EPOCH.load(Ordering::SeqCst) {
        return None;
    }
    TL_NODE.with(|n| n.get())
}

pub fn rng_fill(dest: &mut [u8]) {
    if TL_LOCAL.with(|l| l.get()) {
        crate::rng::LOCAL_RNG.with(|r| r.borrow_mut().fill(dest));
        return;
    }
    let mut g = shared();
    match (g.as_mut(), current_node()) {
        (Some(s), Some(n)) if n < s.nodes.len() => s.nodes[n].rng.fill(dest),
        (Some(s), _) => s.harness_rng.fill(dest),
        (None, _) => {
            drop(g);
            crate::rng::LOCAL_RNG.with(|r| r.borrow_mut().fill(dest));
        }
    }
}

pub struct SimEnv;

static ENV_ONCE: std::sync::Once = std::sync::Once::new();

pub fn install_env() {
    ENV_ONCE.call_once(|| dht::verif::set_env(Box::new(SimEnv)));
}

impl Env for SimEnv {
    fn now_nanos(&self) -> u64 {
        if TL_LOCAL.with(|l| l.get()) {
            TL_CLOCK.with(|c| c.get())
        } else {
            NOW.load(Ordering::SeqCst)
        }
    }

    fn unix_micros(&self) -> u64 {
        let now = self.now_nanos();
        let mut skew = 0i64;
        if !TL_LOCAL.with(|l| l.get()) {
            if let (Some(s), Some(n)) = (shared().as_ref(), current_node()) {
                if n < s.nodes.len() {
                    skew = s.nodes[n].skew_micros;
                }
            }
        }
        ((UNIX_BASE_MICROS + now / 1000) as i64 + skew) as u64
    }

    fn udp_bind(&self, addr: SocketAddr) -> io::Result<(u64, SocketAddr)> {
        if TL_LOCAL.with(|l| l.get()) {
            let port = if addr.port() == 0 { 6881 } else { addr.port() };
            return Ok((
                u64::MAX,
                SocketAddr::from((Ipv4Addr::UNSPECIFIED, port)),
            ));
        }
        let n = current_node().ok_or_else(|| io::Error::other("bind outside a simulated node"))?;
        let mut g = shared();
        let s = g.as_mut().ok_or_else(|| io::Error::other("no world"))?;
        let node = &mut s.nodes[n];
        if node.sock_open {
            return Err(io::Error::new(io::ErrorKind::AddrInUse, "already bound"));
        }
        let port = if addr.port() == 0 {
            node.bound_port
        } else {
            addr.port()
        };
        if port != node.bound_port {
            // The harness registered another port for this node: behave as "address in use".
            return Err(io::Error::new(io::ErrorKind::AddrInUse, "port not available"));
        }
        node.sock_open = true;
        Ok((n as u64, SocketAddr::from((Ipv4Addr::UNSPECIFIED, port))))
    }

    fn udp_set_read_timeout(&self, handle: u64, timeout: Option<Duration>) {
        let nanos = timeout.map(|d| d.as_nanos() as u64).unwrap_or(u64::MAX / 4);
        if handle == u64::MAX {
            local_net(|n| n.read_timeout = nanos);
            return;
        }
        if stale_thread() {
            return;
        }
        if let Some(s) = shared().as_mut() {
            if let Some(node) = s.nodes.get_mut(handle as usize) {
                node.read_timeout = nanos;
            }
        }
    }

    fn udp_send_to(&self, handle: u64, buf: &[u8], to: SocketAddr) -> io::Result<usize> {
        let to = match to {
            SocketAddr::V4(a) => a,
            SocketAddr::V6(_) => return Ok(buf.len()),
        };
        if handle == u64::MAX {
            local_net(|n| n.outbox.push((to, buf.to_vec())));
            return Ok(buf.len());
        }
        if stale_thread() {
            return Ok(buf.len());
        }
        if let Some(s) = shared().as_mut() {
            s.outbox.push((handle as usize, to, buf.to_vec()));
        }
        Ok(buf.len())
    }

    fn udp_recv_from(&self, handle: u64, buf: &mut [u8]) -> io::Result<(usize, SocketAddr)> {
        let item = if handle == u64::MAX {
            local_net(|n| n.inbox.pop_front())
        } else if stale_thread() {
            None
        } else {
            shared()
                .as_mut()
                .and_then(|s| s.nodes.get_mut(handle as usize))
                .and_then(|n| n.inbox.pop_front())
        };
        match item {
            Some((bytes, from)) => {
                let n = bytes.len().min(buf.len());
                buf[..n].copy_from_slice(&bytes[..n]);
                Ok((n, SocketAddr::V4(from)))
            }
            None => Err(io::Error::new(io::ErrorKind::WouldBlock, "empty")),
        }
    }

    fn udp_close(&self, handle: u64) {
        if handle == u64::MAX || stale_thread() {
            return;
        }
        if let Some(s) = shared().as_mut() {
            if let Some(node) = s.nodes.get_mut(handle as usize) {
                node.sock_open = false;
                node.inbox.clear();
            }
        }
    }

    fn actor_start(&self) {
        if TL_LOCAL.with(|l| l.get()) || TL_HARNESS.with(|h| h.get()) {
            return;
        }
        let mut g = shared();
        if let Some(s) = g.as_mut() {
            if let Some(n) = s.constructing.take() {
                TL_NODE.with(|t| t.set(Some(n)));
                TL_EPOCH.with(|e| e.set(EPOCH.load(Ordering::SeqCst)));
                let tid = unsafe { libc::syscall(libc::SYS_gettid) } as i32;
                s.nodes[n].sync.tid.store(tid, Ordering::SeqCst);
            }
        }
    }

    fn actor_turn(&self, snapshot: &dyn Fn() -> ActorSnapshot) -> bool {
        let Some(n) = current_node() else {
            // An actor of an earlier world (or one we do not control): make it leave its loop.
            return false;
        };
        let sync = match shared().as_ref() {
            Some(s) => s.nodes[n].sync.clone(),
            None => return false,
        };
        let mut b = sync.lock();
        b.phase = Phase::Parked;
        sync.cv.notify_all();
        loop {
            if b.kill {
                b.phase = Phase::Running;
                return false;
            }
            if b.snapshot_req {
                b.snapshot_req = false;
                drop(b);
                let snap = snapshot();
                b = sync.lock();
                b.snapshot = Some(snap);
                sync.cv.notify_all();
                continue;
            }
            if b.phase == Phase::Granted {
                b.phase = Phase::Running;
                return true;
            }
            b = sync.cv.wait(b).unwrap_or_else(|e| e.into_inner());
        }
    }

    fn next_tid_override(&self) -> Option<u32> {
        if TL_LOCAL.with(|l| l.get()) || stale_thread() {
            return None;
        }
        let n = current_node()?;
        shared().as_mut().and_then(|s| s.nodes.get_mut(n)).and_then(|node| node.tid_override.take())
    }

    fn shrink_inflight_table(&self) -> bool {
        if TL_LOCAL.with(|l| l.get()) || stale_thread() {
            return false;
        }
        let Some(n) = current_node() else { return false };
        shared().as_ref().and_then(|s| s.nodes.get(n)).map(|node| node.shrink_inflight).unwrap_or(false)
    }

    fn actor_exit(&self, panicking: bool) {
        let Some(n) = current_node() else { return };
        let sync = match shared().as_ref() {
            Some(s) => s.nodes[n].sync.clone(),
            None => return,
        };
        let mut b = sync.lock();
        b.phase = Phase::Exited;
        b.panicked = panicking;
        sync.cv.notify_all();
    }
}

// ---------------------------------------------------------------------------------------------
// World
// ---------------------------------------------------------------------------------------------

#[derive(Clone, Copy, Debug, PartialEq, Eq, Hash)]
pub enum Nat {
    /// Publicly reachable.
    None,
    /// Outbound traffic passes and replies from contacted addresses come back; unsolicited
    /// inbound datagrams are dropped.
    Firewalled,
    /// As `Firewalled`, and the source port seen by peers is rewritten to this one.
    PortRewrite(u16),
}

#[derive(Clone, Debug)]
pub struct NodeCfg {
    pub ip: Ipv4Addr,
    pub port: u16,
    pub server_mode: bool,
    pub bootstrap: Vec<SocketAddrV4>,
    pub public_ip: Option<Ipv4Addr>,
    pub server_settings: Option<ServerSettings>,
    /// Scripted first draws of the node's rng (e.g. its 20-byte id).
    pub rng_script: Vec<Vec<u8>>,
    pub rng_seed: u64,
    pub nat: Nat,
    pub skew_micros: i64,
    /// Build the bootstrap list with `no_bootstrap()` + `extra_bootstrap(list)` instead of
    /// `bootstrap(list)` (the two spell the same configuration).
    pub via_extra_bootstrap: bool,
    /// Entries that are not socket addresses (a port out of range, no port at all), listed
    /// BEFORE the real ones: they fail to resolve at once, without any name lookup.
    pub bootstrap_junk: Vec<String>,
}

impl NodeCfg {
    pub fn new(ip: [u8; 4], port: u16) -> Self {
        NodeCfg {
            ip: Ipv4Addr::from(ip),
            port,
            server_mode: false,
            bootstrap: vec![],
            public_ip: None,
            server_settings: None,
            rng_script: vec![],
            rng_seed: u32::from_be_bytes(ip) as u64 ^ ((port as u64) << 32),
            nat: Nat::None,
            skew_micros: 0,
            via_extra_bootstrap: false,
            bootstrap_junk: vec![],
        }
    }
    pub fn server(mut self) -> Self {
        self.server_mode = true;
        self
    }
    pub fn id(mut self, id: [u8; 20]) -> Self {
        self.rng_script.insert(0, id.to_vec());
        self
    }
    pub fn bootstrap(mut self, b: &[SocketAddrV4]) -> Self {
        self.bootstrap = b.to_vec();
        self
    }
    pub fn addr(&self) -> SocketAddrV4 {
        let port = match self.nat {
            Nat::PortRewrite(p) => p,
            _ => self.port,
        };
        SocketAddrV4::new(self.ip, port)
    }
}

pub struct NodeHandle {
    pub cfg: NodeCfg,
    pub dht: Option<AsyncDht>,
    pub alive: bool,
    /// `Some(panicked)` once the actor thread has left `run`.
    pub exited: Option<bool>,
    pub next_iter_at: u64,
    pub iterations: u64,
    /// The actor thread did not return from an iteration within the watchdog time.
    pub blocked: bool,
    /// What the watchdog saw when it gave up on the actor thread.
    pub blocked_why: Option<String>,
    contacted: BTreeSet<SocketAddrV4>,
    sync: Arc<NodeSync>,
    digest: u64,
}

#[derive(Clone, Debug, PartialEq, Eq, Hash)]
pub struct Datagram {
    pub id: u64,
    pub from: SocketAddrV4,
    pub to: SocketAddrV4,
    pub bytes: Vec<u8>,
    pub sent_at: u64,
    pub deliver_at: u64,
    /// Index of the real node that sent it, if any.
    pub from_node: Option<usize>,
    pub dup_of: Option<u64>,
}

#[derive(Clone, Copy, Debug, PartialEq, Eq, Hash)]
pub enum Fate {
    Deliver(u64),
    Drop,
    /// Two copies, with the given latencies.
    Dup(u64, u64),
}

#[derive(Clone, Debug)]
pub enum LogEntry {
    Sent { dgram: Datagram, fate: Fate },
    Delivered { id: u64, at: u64, to_node: Option<usize>, to_endpoint: Option<usize> },
    Lost { id: u64, at: u64, reason: &'static str },
    Crash { node: usize, at: u64 },
    Start { node: usize, at: u64 },
    Note { at: u64, text: String },
}

#[derive(Debug)]
pub enum Event {
    /// A real node ran one loop iteration.
    Iter { node: usize },
    /// A datagram reached a real node's inbox.
    Arrived { node: usize, id: u64 },
    /// A datagram reached a scripted endpoint; the scenario decides what happens.
    EndpointRecv { ep: usize, dgram: Datagram },
    /// A datagram went nowhere.
    Lost { id: u64 },
    /// A scenario timer fired.
    Timer { id: u64 },
}

pub struct Endpoint {
    pub addr: SocketAddrV4,
    pub received: Vec<Datagram>,
}

#[derive(Debug, Clone)]
pub enum CallResult {
    Put(Result<dht::Id, PutErr>),
    Bytes(Option<Vec<u8>>),
    Nodes(Vec<dht::Node>),
    Bool(bool),
    Mutable(Option<dht::MutableItem>),
    Mutables(Vec<dht::MutableItem>),
    Peers(Vec<Vec<SocketAddrV4>>),
    SignedPeers(Vec<Vec<dht::verif::SignedAnnounce>>),
    Info(dht::verif::Info),
    Strings(Vec<String>),
    Unit,
    Panicked(String),
    /// (bootstrap list, node handles) of a `Testnet`
    Testnet(Result<(Vec<String>, Vec<Dht>), String>),
}

#[derive(Debug, Clone, PartialEq, Eq, Hash)]
pub enum PutErr {
    NoClosestNodes,
    ErrorResponse(i32),
    Timeout,
    ConflictRisk,
    NotMostRecent,
    CasFailed,
}

impl PutErr {
    pub fn from_put_error(e: &dht::errors::PutError) -> Self {
        use dht::errors::{ConcurrencyError, PutError};
        match e {
            PutError::Query(q) => Self::from_query(q),
            PutError::Concurrency(ConcurrencyError::ConflictRisk) => PutErr::ConflictRisk,
            PutError::Concurrency(ConcurrencyError::NotMostRecent) => PutErr::NotMostRecent,
            PutError::Concurrency(ConcurrencyError::CasFailed) => PutErr::CasFailed,
        }
    }
    pub fn from_query(q: &dht::errors::PutQueryError) -> Self {
        use dht::errors::PutQueryError;
        match q {
            PutQueryError::NoClosestNodes => PutErr::NoClosestNodes,
            PutQueryError::ErrorResponse(e) => PutErr::ErrorResponse(e.code),
            PutQueryError::Timeout => PutErr::Timeout,
        }
    }
    pub fn from_mutable(e: &dht::errors::PutMutableError) -> Self {
        use dht::errors::{ConcurrencyError, PutMutableError};
        match e {
            PutMutableError::Query(q) => Self::from_query(q),
            PutMutableError::Concurrency(ConcurrencyError::ConflictRisk) => PutErr::ConflictRisk,
            PutMutableError::Concurrency(ConcurrencyError::NotMostRecent) => PutErr::NotMostRecent,
            PutMutableError::Concurrency(ConcurrencyError::CasFailed) => PutErr::CasFailed,
        }
    }
    pub fn is_concurrency(&self) -> bool {
        matches!(
            self,
            PutErr::ConflictRisk | PutErr::NotMostRecent | PutErr::CasFailed
        )
    }
}

pub type CallFuture = Pin<Box<dyn Future<Output = CallResult>>>;

/// A call made through the blocking `Dht` API on a helper thread of its own.
struct SyncThread {
    rx: std::sync::mpsc::Receiver<CallResult>,
    tid: Arc<std::sync::atomic::AtomicI32>,
}

pub struct Call {
    pub node: usize,
    pub label: String,
    fut: Option<CallFuture>,
    sync: Option<SyncThread>,
    pub result: Option<CallResult>,
    pub issued_at: u64,
    pub done_at: Option<u64>,
}

#[derive(Clone, Debug)]
pub struct FaultCfg {
    pub enabled: bool,
    pub menu: Vec<Fate>,
}

pub const DEFAULT_LATENCY: u64 = 10 * MS;

/// Real-time limit for one granted loop iteration of an actor.
pub const ITERATION_WATCHDOG_SECS: u64 = 5;

pub fn full_fault_menu() -> Vec<Fate> {
    vec![
        Fate::Deliver(DEFAULT_LATENCY),
        Fate::Deliver(225 * MS),
        Fate::Deliver(450 * MS),
        Fate::Deliver(750 * MS),
        Fate::Drop,
        Fate::Dup(DEFAULT_LATENCY, 30 * MS),
    ]
}

pub fn latency_menu() -> Vec<Fate> {
    vec![
        Fate::Deliver(DEFAULT_LATENCY),
        Fate::Deliver(225 * MS),
        Fate::Deliver(450 * MS),
    ]
}

pub struct World {
    pub now: u64,
    pub nodes: Vec<NodeHandle>,
    pub endpoints: Vec<Endpoint>,
    pub pending: Vec<Datagram>,
    pub timers: Vec<(u64, u64)>,
    pub log: Vec<LogEntry>,
    pub keep_log: bool,
    pub calls: Vec<Call>,
    pub chooser: Chooser,
    pub faults: FaultCfg,
    /// Decides which datagrams are subject to fault choices while `faults.enabled`.
    pub fault_filter: Option<Box<dyn Fn(&Datagram) -> bool>>,
    pub default_latency: u64,
    pub steps: u64,
    pub track_states: bool,
    pub state_digests: HashSet<u64>,
    /// Route the `call_*` helpers through the blocking `Dht` API (one helper thread per call)
    /// instead of the async one.
    pub sync_api: bool,
    next_dgram_id: u64,
}

/// Decides, from the actor thread's own scheduling state and CPU time (not from wall time),
/// whether an iteration that has been running for a long time is stuck.
#[derive(Default)]
struct Watchdog {
    first_cpu: Option<u64>,
    asleep_since: Option<(Duration, u64)>,
}

enum DogVerdict {
    KeepWaiting,
    Stuck(String),
}

/// (state, utime+stime in clock ticks) of a thread of this process.
fn thread_stat(tid: i32) -> Option<(char, u64)> {
    let txt = std::fs::read_to_string(format!("/proc/self/task/{tid}/stat")).ok()?;
    let rest = &txt[txt.rfind(')')? + 2..];
    let f: Vec<&str> = rest.split_whitespace().collect();
    let state = f.first()?.chars().next()?;
    let utime: u64 = f.get(11)?.parse().ok()?;
    let stime: u64 = f.get(12)?.parse().ok()?;
    Some((state, utime + stime))
}

/// Stuck actors seen in this process so far: once the code under test has been shown to block
/// or spin, later occurrences are called after a much shorter observation (a check that meets
/// the same hang in hundreds of scenarios must still end in reasonable time).
static STUCK_SEEN: std::sync::atomic::AtomicU32 = std::sync::atomic::AtomicU32::new(0);

impl Watchdog {
    fn sample(&mut self, tid: i32, waited: Duration) -> DogVerdict {
        let seen_before = STUCK_SEEN.load(Ordering::SeqCst) >= 2;
        let (spin_secs, asleep_secs) = if seen_before { (2, 2) } else { (10, 10) };
        const HARD_CAP_SECS: u64 = 1800;
        if waited > Duration::from_secs(HARD_CAP_SECS) {
            panic!("MACHINERY: an actor iteration did not end within {HARD_CAP_SECS} s of real time and the thread is neither asleep nor burning CPU");
        }
        let Some((state, cpu)) = thread_stat(tid) else {
            // No such thread any more (it is exiting): the phase will change.
            return DogVerdict::KeepWaiting;
        };
        let ticks_per_sec = unsafe { libc::sysconf(libc::_SC_CLK_TCK) }.max(1) as u64;
        let first = *self.first_cpu.get_or_insert(cpu);
        if (cpu - first) / ticks_per_sec >= spin_secs {
            STUCK_SEEN.fetch_add(1, Ordering::SeqCst);
            return DogVerdict::Stuck(format!("spinning: {} s of CPU inside one iteration", (cpu - first) / ticks_per_sec));
        }
        if matches!(state, 'S' | 'D') {
            match self.asleep_since {
                Some((since, c)) if c == cpu => {
                    if waited.saturating_sub(since) >= Duration::from_secs(asleep_secs) {
                        STUCK_SEEN.fetch_add(1, Ordering::SeqCst);
                        return DogVerdict::Stuck(format!("asleep (state {state}) for {asleep_secs} s without consuming CPU"));
                    }
                }
                _ => self.asleep_since = Some((waited, cpu)),
            }
        } else {
            self.asleep_since = None;
        }
        DogVerdict::KeepWaiting
    }
}

/// Panic payload: one world granted more loop iterations than any scenario of these checks comes
/// near (a node that never goes quiet, e.g. back-to-back lookups on every tick): the scenario is
/// abandoned and reported, instead of simulating hours of runaway traffic.
#[derive(Debug, Clone)]
pub struct Runaway {
    pub steps: u64,
    pub busiest_node: usize,
    pub virtual_secs: u64,
}

/// Loop iterations one world may grant (the largest legitimate scenario, a 300-node network,
/// needs about 0.4 million, the longest timeline less); lowered once a process has seen a runaway world.
pub const STEP_BUDGET: u64 = 5_000_000;
pub const STEP_BUDGET_AFTER_A_RUNAWAY: u64 = 1_500_000;
static RUNAWAYS_SEEN: std::sync::atomic::AtomicU32 = std::sync::atomic::AtomicU32::new(0);

/// Panic payload: a scenario asked for the state of a node whose actor thread panicked or is
/// stuck inside the library.
#[derive(Debug, Clone)]
pub struct DeadActor {
    pub node: usize,
    pub why: String,
}

/// Guard making sure only one world exists per process.
static WORLD_LIVE: Mutex<bool> = Mutex::new(false);

impl World {
    pub fn new(chooser: Chooser) -> World {
        install_env();
        mark_harness_thread();
        {
            let mut live = WORLD_LIVE.lock().unwrap_or_else(|e| e.into_inner());
            assert!(!*live, "only one World per process at a time");
            *live = true;
        }
        NOW.store(T0, Ordering::SeqCst);
        EPOCH.fetch_add(1, Ordering::SeqCst);
        *shared() = Some(Shared {
            nodes: vec![],
            constructing: None,
            outbox: vec![],
            harness_rng: RngStream::new(0xA11CE),
        });
        World {
            now: T0,
            nodes: vec![],
            endpoints: vec![],
            pending: vec![],
            timers: vec![],
            log: vec![],
            keep_log: true,
            calls: vec![],
            chooser,
            faults: FaultCfg {
                enabled: false,
                menu: full_fault_menu(),
            },
            fault_filter: None,
            default_latency: DEFAULT_LATENCY,
            steps: 0,
            track_states: false,
            state_digests: HashSet::new(),
            sync_api: false,
            next_dgram_id: 0,
        }
    }

    fn set_now(&mut self, t: u64) {
        assert!(t >= self.now, "clock must be monotone");
        self.now = t;
        NOW.store(t, Ordering::SeqCst);
    }

    /// Move the clock forward without processing anything (the caller knows nothing is due).
    pub fn advance_to(&mut self, t: u64) {
        if t > self.now {
            self.set_now(t);
        }
    }

    pub fn note(&mut self, text: impl Into<String>) {
        if self.keep_log {
            let at = self.now;
            self.log.push(LogEntry::Note {
                at,
                text: text.into(),
            });
        }
    }

    // --- nodes -------------------------------------------------------------------------------

    /// Build a real node through the public builder and run its first loop iteration.
    pub fn add_node(&mut self, cfg: NodeCfg) -> usize {
        let idx = self.nodes.len();
        let sync = NodeSync::new();
        {
            let mut g = shared();
            let s = g.as_mut().expect("world");
            let mut rng = RngStream::new(cfg.rng_seed ^ 0xD47);
            for d in &cfg.rng_script {
                rng.script.push_back(d.clone());
            }
            s.nodes.push(NodeShared {
                sync: sync.clone(),
                inbox: VecDeque::new(),
                read_timeout: 100 * US,
                rng,
                sock_open: false,
                bound_port: cfg.port,
                skew_micros: cfg.skew_micros,
                tid_override: None,
                shrink_inflight: false,
            });
            assert!(s.constructing.is_none());
            s.constructing = Some(idx);
        }

        let mut builder = Dht::builder();
        if cfg.server_mode {
            builder.server_mode();
        }
        let boot: Vec<String> = cfg.bootstrap_junk.iter().cloned().chain(cfg.bootstrap.iter().map(|a| a.to_string())).collect();
        if cfg.via_extra_bootstrap {
            builder.no_bootstrap();
            builder.extra_bootstrap(&boot);
        } else {
            builder.bootstrap(&boot);
        }
        builder.port(cfg.port);
        if let Some(ip) = cfg.public_ip {
            builder.public_ip(ip);
        }
        if let Some(settings) = cfg.server_settings.clone() {
            builder.server_settings(settings);
        }

        let mut fut: Pin<Box<dyn Future<Output = Result<AsyncDht, io::Error>>>> =
            Box::pin(async move { builder.build_async().await });
        let waker = Waker::noop();
        let mut cx = Context::from_waker(waker);
        let first = fut.as_mut().poll(&mut cx);
        assert!(first.is_pending(), "build cannot complete before the actor ran");

        // Wait for the actor to reach its first baton (or die trying).
        {
            let mut b = sync.lock();
            while !(b.phase == Phase::Parked || b.phase == Phase::Exited) {
                b = sync.cv.wait(b).unwrap_or_else(|e| e.into_inner());
            }
        }
        {
            let mut g = shared();
            g.as_mut().expect("world").constructing = None;
        }

        self.nodes.push(NodeHandle {
            cfg,
            dht: None,
            alive: true,
            exited: None,
            next_iter_at: self.now,
            iterations: 0,
            blocked: false,
            blocked_why: None,
            contacted: BTreeSet::new(),
            sync,
            digest: 0,
        });
        if self.keep_log {
            let at = self.now;
            self.log.push(LogEntry::Start { node: idx, at });
        }

        // First iteration: answers `Check` and runs one tick.
        self.grant(idx);
        match fut.as_mut().poll(&mut cx) {
            Poll::Ready(Ok(dht)) => self.nodes[idx].dht = Some(dht),
            Poll::Ready(Err(e)) => panic!("node build failed: {e}"),
            Poll::Pending => panic!("node build still pending after first iteration"),
        }
        idx
    }

    /// Build a network with the library's own `Testnet::new(count)` (the blocking constructor:
    /// every node is built with the blocking builder and `bootstrapped()` is awaited for each) on
    /// a helper thread, while this world runs the actors it spawns. Nodes live on 127.0.0.1 with
    /// ports `base_port + i`. Returns the world indices of the nodes and the testnet's bootstrap
    /// list, or what went wrong.
    pub fn add_testnet(&mut self, count: usize, base_port: u16, horizon: u64) -> Result<(Vec<usize>, Vec<String>), String> {
        let first = self.nodes.len();
        let (tx, rx) = std::sync::mpsc::channel();
        let tid = Arc::new(std::sync::atomic::AtomicI32::new(0));
        let register = |world_idx: usize, k: usize| -> Arc<NodeSync> {
            let sync = NodeSync::new();
            let mut g = shared();
            let s = g.as_mut().expect("world");
            assert_eq!(s.nodes.len(), world_idx);
            s.nodes.push(NodeShared {
                sync: sync.clone(),
                inbox: VecDeque::new(),
                read_timeout: 100 * US,
                rng: RngStream::new(0x7E57 ^ ((k as u64) << 8)),
                sock_open: false,
                bound_port: base_port + k as u16,
                skew_micros: 0,
                tid_override: None,
                shrink_inflight: false,
            });
            assert!(s.constructing.is_none());
            s.constructing = Some(world_idx);
            sync
        };
        let mut pending_sync = if count > 0 { Some(register(first, 0)) } else { None };
        let st = SyncThread { rx, tid: tid.clone() };
        std::thread::Builder::new()
            .name("testnet-builder".into())
            .spawn(move || {
                tid.store(unsafe { libc::syscall(libc::SYS_gettid) } as i32, Ordering::SeqCst);
                let r = crate::checks::quiet(|| catch_unwind(AssertUnwindSafe(|| dht::Testnet::new(count))));
                let _ = tx.send(match r {
                    Ok(Ok(t)) => CallResult::Testnet(Ok((t.bootstrap.clone(), t.nodes.clone()))),
                    Ok(Err(e)) => CallResult::Testnet(Err(format!("Testnet::new returned an error: {e}"))),
                    Err(_) => CallResult::Testnet(Err("Testnet::new panicked".into())),
                });
            })
            .map_err(|e| e.to_string())?;
        let deadline = self.now + horizon;
        let mut built = 0usize;
        let result = loop {
            if let Some(r) = Self::settle_sync(&st) {
                break r;
            }
            // the helper sleeps: either a freshly spawned actor has to reach its first baton ...
            if let Some(sync) = pending_sync.clone() {
                let taken = shared().as_ref().map(|s| s.constructing.is_none()).unwrap_or(false);
                if taken {
                    {
                        let mut b = sync.lock();
                        while !(b.phase == Phase::Parked || b.phase == Phase::Exited) {
                            b = sync.cv.wait(b).unwrap_or_else(|e| e.into_inner());
                        }
                    }
                    let mut cfg = NodeCfg::new([127, 0, 0, 1], base_port + built as u16).server();
                    cfg.rng_seed = 0x7E57 ^ ((built as u64) << 8);
                    self.nodes.push(NodeHandle {
                        cfg,
                        dht: None,
                        alive: true,
                        exited: None,
                        next_iter_at: self.now,
                        iterations: 0,
                        blocked: false,
                        blocked_why: None,
                        contacted: BTreeSet::new(),
                        sync,
                        digest: 0,
                    });
                    if self.keep_log {
                        let at = self.now;
                        self.log.push(LogEntry::Start { node: first + built, at });
                    }
                    built += 1;
                    pending_sync = if built < count { Some(register(first + built, built)) } else { None };
                    continue;
                }
            }
            // ... or the world has to make progress (a node answers Check / Info / finishes its bootstrap)
            if self.now > deadline {
                return Err(format!("Testnet::new({count}) did not return within {} virtual seconds ({built} nodes built)", horizon / SEC));
            }
            if self.step(deadline).is_none() {
                self.advance_to(deadline + 1);
            }
        };
        if let Some(s) = shared().as_mut() {
            s.constructing = None;
        }
        match result {
            CallResult::Testnet(Ok((bootstrap, nodes))) => {
                if nodes.len() != count || built != count {
                    return Err(format!("Testnet::new({count}) returned {} nodes ({built} actors were started)", nodes.len()));
                }
                let boots: Vec<SocketAddrV4> = bootstrap.iter().filter_map(|b| b.parse().ok()).collect();
                for (i, d) in nodes.into_iter().enumerate() {
                    self.nodes[first + i].dht = Some(d.as_async());
                    if i > 0 {
                        self.nodes[first + i].cfg.bootstrap = boots.clone();
                    }
                }
                Ok(((first..first + count).collect(), bootstrap))
            }
            CallResult::Testnet(Err(e)) => Err(e),
            other => Err(format!("unexpected {other:?}")),
        }
    }

    pub fn dht(&self, node: usize) -> AsyncDht {
        self.nodes[node].dht.clone().expect("node has a handle")
    }

    /// Grant exactly one loop iteration to `node` at the current instant, then collect what it
    /// sent and poll the calls waiting on it.
    fn grant(&mut self, node: usize) {
        let sync = self.nodes[node].sync.clone();
        {
            let mut b = sync.lock();
            if b.phase == Phase::Exited {
                let p = b.panicked;
                drop(b);
                self.mark_exited(node, p);
                return;
            }
            assert_eq!(b.phase, Phase::Parked, "granting a node that is not parked");
            b.phase = Phase::Granted;
            sync.cv.notify_all();
            let started = std::time::Instant::now();
            let mut dog = Watchdog::default();
            while !(b.phase == Phase::Parked || b.phase == Phase::Exited) {
                let (g, _) = sync
                    .cv
                    .wait_timeout(b, Duration::from_millis(200))
                    .unwrap_or_else(|e| e.into_inner());
                b = g;
                let trigger = if STUCK_SEEN.load(Ordering::SeqCst) >= 2 { 1 } else { ITERATION_WATCHDOG_SECS };
                if started.elapsed() > Duration::from_secs(trigger) && !(b.phase == Phase::Parked || b.phase == Phase::Exited) {
                    // The actor has not come back from one loop iteration for a long (real) time.
                    // Real time alone proves nothing on a loaded machine, so the verdict comes from
                    // the thread itself: asleep without consuming CPU for 10 s = blocked inside the
                    // library (e.g. in a channel send); 10 s of CPU inside one iteration = spinning.
                    // A thread that is merely starved keeps being waited for.
                    match dog.sample(sync.tid.load(Ordering::SeqCst), started.elapsed()) {
                        DogVerdict::KeepWaiting => continue,
                        DogVerdict::Stuck(why) => {
                            drop(b);
                            // the thread is leaked; if it spins it must not starve the rest of
                            // this worker (which is pinned to the same core): idle priority
                            unsafe {
                                let param: libc::sched_param = std::mem::zeroed();
                                libc::sched_setscheduler(sync.tid.load(Ordering::SeqCst), libc::SCHED_IDLE, &param);
                            }
                            let n = &mut self.nodes[node];
                            n.alive = false;
                            n.blocked = true;
                            n.blocked_why = Some(why);
                            n.next_iter_at = u64::MAX;
                            return;
                        }
                    }
                }
            }
            if b.phase == Phase::Exited {
                let p = b.panicked;
                drop(b);
                self.mark_exited(node, p);
            }
        }
        self.nodes[node].iterations += 1;
        self.steps += 1;
        let budget = if RUNAWAYS_SEEN.load(Ordering::SeqCst) > 0 { STEP_BUDGET_AFTER_A_RUNAWAY } else { STEP_BUDGET };
        if self.steps > budget && !std::thread::panicking() {
            RUNAWAYS_SEEN.fetch_add(1, Ordering::SeqCst);
            let busiest = (0..self.nodes.len()).max_by_key(|i| self.nodes[*i].iterations).unwrap_or(0);
            std::panic::panic_any(Runaway { steps: self.steps, busiest_node: busiest, virtual_secs: (self.now - T0) / SEC });
        }
        self.collect_outbox();
        let rt = {
            let g = shared();
            let s = g.as_ref().expect("world");
            (s.nodes[node].read_timeout, s.nodes[node].inbox.is_empty())
        };
        let n = &mut self.nodes[node];
        n.next_iter_at = if rt.1 {
            self.now.saturating_add(rt.0)
        } else {
            self.now
        };
        self.poll_calls(Some(node));
        if self.track_states && self.nodes[node].alive {
            let snap = self.snapshot(node);
            let mut h = std::collections::hash_map::DefaultHasher::new();
            snap.hash(&mut h);
            self.nodes[node].digest = h.finish();
            self.record_state();
        }
    }

    fn mark_exited(&mut self, node: usize, panicked: bool) {
        let n = &mut self.nodes[node];
        n.alive = false;
        n.exited = Some(panicked);
        n.next_iter_at = u64::MAX;
    }

    fn record_state(&mut self) {
        let mut h = std::collections::hash_map::DefaultHasher::new();
        for n in &self.nodes {
            n.digest.hash(&mut h);
            n.alive.hash(&mut h);
        }
        let mut p: Vec<(&SocketAddrV4, &SocketAddrV4, &Vec<u8>, u64)> = self
            .pending
            .iter()
            .map(|d| (&d.to, &d.from, &d.bytes, d.deliver_at - self.now))
            .collect();
        p.sort();
        p.hash(&mut h);
        self.state_digests.insert(h.finish());
    }

    /// Non-perturbing snapshot of a parked node.
    pub fn snapshot(&self, node: usize) -> ActorSnapshot {
        if self.nodes[node].blocked || self.nodes[node].exited == Some(true) {
            // the scenario did not expect this node to be gone: unwind to the check's driver, which
            // turns this into an "actor died" violation of its property (see `checks::guard_dead_actor`)
            std::panic::panic_any(DeadActor { node, why: self.death_reason(node) });
        }
        let sync = &self.nodes[node].sync;
        let mut b = sync.lock();
        assert_eq!(b.phase, Phase::Parked, "snapshot of a node that is not parked");
        b.snapshot = None;
        b.snapshot_req = true;
        sync.cv.notify_all();
        while b.snapshot.is_none() {
            assert_ne!(b.phase, Phase::Exited, "actor died while taking a snapshot");
            b = sync.cv.wait(b).unwrap_or_else(|e| e.into_inner());
        }
        b.snapshot.take().expect("snapshot")
    }

    /// Stop a node abruptly: its actor leaves the loop, its socket closes, handles are dropped.
    pub fn crash(&mut self, node: usize) {
        if !self.nodes[node].alive || self.nodes[node].blocked {
            return;
        }
        let sync = self.nodes[node].sync.clone();
        {
            let mut b = sync.lock();
            if b.phase != Phase::Exited {
                b.kill = true;
                sync.cv.notify_all();
                while b.phase != Phase::Exited {
                    b = sync.cv.wait(b).unwrap_or_else(|e| e.into_inner());
                }
            }
        }
        // Calls waiting on this node can never complete; drop their futures unpolled.
        for c in self.calls.iter_mut().filter(|c| c.node == node) {
            c.fut = None;
            // the helper thread of a blocking call sees its channel close and ends by itself
            c.sync = None;
        }
        let n = &mut self.nodes[node];
        n.alive = false;
        n.next_iter_at = u64::MAX;
        n.dht = None;
        if n.exited.is_none() {
            n.exited = Some(false);
        }
        if self.keep_log {
            let at = self.now;
            self.log.push(LogEntry::Crash { node, at });
        }
    }

    pub fn node_addr(&self, node: usize) -> SocketAddrV4 {
        self.nodes[node].cfg.addr()
    }

    /// Why a node's actor is gone (watchdog observation or the last panic message of an actor thread).
    pub fn death_reason(&self, node: usize) -> String {
        let n = &self.nodes[node];
        if n.blocked {
            return format!("stuck inside one loop iteration ({})", n.blocked_why.clone().unwrap_or_default());
        }
        match n.exited {
            Some(true) => format!(
                "panicked: {}",
                crate::checks::LAST_ACTOR_PANIC.lock().unwrap_or_else(|e| e.into_inner()).clone().unwrap_or_else(|| "?".into())
            ),
            Some(false) => "left its loop".to_string(),
            None => "alive".to_string(),
        }
    }

    pub fn any_actor_panicked(&self) -> Option<usize> {
        self.nodes.iter().position(|n| n.exited == Some(true) || n.blocked)
    }

    // --- endpoints ---------------------------------------------------------------------------

    pub fn add_endpoint(&mut self, addr: SocketAddrV4) -> usize {
        self.endpoints.push(Endpoint {
            addr,
            received: vec![],
        });
        self.endpoints.len() - 1
    }

    /// Send raw bytes from a scripted address (an endpoint or any forged source).
    pub fn send_raw(&mut self, from: SocketAddrV4, to: SocketAddrV4, bytes: Vec<u8>) -> u64 {
        self.dispatch(None, from, to, bytes)
    }

    /// Send with an explicit latency, bypassing the fault chooser.
    pub fn send_raw_with_latency(
        &mut self,
        from: SocketAddrV4,
        to: SocketAddrV4,
        bytes: Vec<u8>,
        latency: u64,
    ) -> u64 {
        let id = self.next_dgram_id;
        self.next_dgram_id += 1;
        let d = Datagram {
            id,
            from,
            to,
            bytes,
            sent_at: self.now,
            deliver_at: self.now + latency,
            from_node: None,
            dup_of: None,
        };
        if self.keep_log {
            self.log.push(LogEntry::Sent {
                dgram: d.clone(),
                fate: Fate::Deliver(latency),
            });
        }
        self.pending.push(d);
        id
    }

    // --- network -----------------------------------------------------------------------------

    fn collect_outbox(&mut self) {
        let out: Vec<(usize, SocketAddrV4, Vec<u8>)> = {
            let mut g = shared();
            std::mem::take(&mut g.as_mut().expect("world").outbox)
        };
        for (node, to, bytes) in out {
            let from = self.nodes[node].cfg.addr();
            self.nodes[node].contacted.insert(to);
            self.dispatch(Some(node), from, to, bytes);
        }
    }

    fn dispatch(
        &mut self,
        from_node: Option<usize>,
        from: SocketAddrV4,
        to: SocketAddrV4,
        bytes: Vec<u8>,
    ) -> u64 {
        let id = self.next_dgram_id;
        self.next_dgram_id += 1;
        let mut d = Datagram {
            id,
            from,
            to,
            bytes,
            sent_at: self.now,
            deliver_at: self.now + self.default_latency,
            from_node,
            dup_of: None,
        };
        let mut fate = Fate::Deliver(self.default_latency);
        if self.faults.enabled
            && self.faults.menu.len() > 1
            && self.fault_filter.as_ref().map(|f| f(&d)).unwrap_or(true)
        {
            let c = self.chooser.choose("fate", self.faults.menu.len() as u32);
            fate = self.faults.menu[c as usize];
        }
        if self.keep_log {
            self.log.push(LogEntry::Sent {
                dgram: d.clone(),
                fate,
            });
        }
        match fate {
            Fate::Deliver(l) => {
                d.deliver_at = self.now + l;
                self.pending.push(d);
            }
            Fate::Drop => {
                if self.keep_log {
                    let at = self.now;
                    self.log.push(LogEntry::Lost {
                        id,
                        at,
                        reason: "dropped by fault",
                    });
                }
            }
            Fate::Dup(l1, l2) => {
                let mut d2 = d.clone();
                d.deliver_at = self.now + l1;
                d2.deliver_at = self.now + l2;
                d2.id = self.next_dgram_id;
                d2.dup_of = Some(id);
                self.next_dgram_id += 1;
                self.pending.push(d);
                self.pending.push(d2);
            }
        }
        id
    }

    fn deliver(&mut self, d: Datagram) -> Event {
        // Real node?
        let target = self.nodes.iter().position(|n| n.alive && n.cfg.addr() == d.to);
        if let Some(node) = target {
            let allowed = match self.nodes[node].cfg.nat {
                Nat::None => true,
                Nat::Firewalled | Nat::PortRewrite(_) => {
                    self.nodes[node].contacted.contains(&d.from) && d.from != d.to
                }
            };
            let open = shared().as_ref().expect("world").nodes[node].sock_open;
            if allowed && open {
                {
                    let mut g = shared();
                    g.as_mut().expect("world").nodes[node]
                        .inbox
                        .push_back((d.bytes.clone(), d.from));
                }
                let n = &mut self.nodes[node];
                n.next_iter_at = n.next_iter_at.min(self.now);
                if self.keep_log {
                    let at = self.now;
                    self.log.push(LogEntry::Delivered {
                        id: d.id,
                        at,
                        to_node: Some(node),
                        to_endpoint: None,
                    });
                }
                return Event::Arrived { node, id: d.id };
            }
            if self.keep_log {
                let at = self.now;
                self.log.push(LogEntry::Lost {
                    id: d.id,
                    at,
                    reason: "blocked by NAT or closed socket",
                });
            }
            return Event::Lost { id: d.id };
        }
        if let Some(ep) = self.endpoints.iter().position(|e| e.addr == d.to) {
            self.endpoints[ep].received.push(d.clone());
            if self.keep_log {
                let at = self.now;
                self.log.push(LogEntry::Delivered {
                    id: d.id,
                    at,
                    to_node: None,
                    to_endpoint: Some(ep),
                });
            }
            return Event::EndpointRecv { ep, dgram: d };
        }
        if self.keep_log {
            let at = self.now;
            self.log.push(LogEntry::Lost {
                id: d.id,
                at,
                reason: "no such address",
            });
        }
        Event::Lost { id: d.id }
    }

    // --- timers ------------------------------------------------------------------------------

    pub fn add_timer(&mut self, at: u64, id: u64) {
        self.timers.push((at.max(self.now), id));
    }

    // --- the discrete-event loop -------------------------------------------------------------

    /// Process the next event if it is due at or before `horizon`.
    ///
    /// Order at equal instants: datagram arrivals (by id), then timers (by id), then node
    /// iterations (by index). The clock only moves here.
    pub fn step(&mut self, horizon: u64) -> Option<Event> {
        let mut best: Option<(u64, u8, u64)> = None; // (time, class, key)
        for d in &self.pending {
            let k = (d.deliver_at, 0u8, d.id);
            if best.map(|b| k < b).unwrap_or(true) {
                best = Some(k);
            }
        }
        for (at, id) in &self.timers {
            let k = (*at, 1u8, *id);
            if best.map(|b| k < b).unwrap_or(true) {
                best = Some(k);
            }
        }
        for (i, n) in self.nodes.iter().enumerate() {
            if n.alive {
                let k = (n.next_iter_at.max(self.now), 2u8, i as u64);
                if best.map(|b| k < b).unwrap_or(true) {
                    best = Some(k);
                }
            }
        }
        let (t, class, key) = best?;
        if t > horizon {
            return None;
        }
        self.set_now(t.max(self.now));
        match class {
            0 => {
                let pos = self.pending.iter().position(|d| d.id == key).expect("pending");
                let d = self.pending.remove(pos);
                Some(self.deliver(d))
            }
            1 => {
                let pos = self
                    .timers
                    .iter()
                    .position(|(a, i)| *a == t && *i == key)
                    .expect("timer");
                self.timers.remove(pos);
                Some(Event::Timer { id: key })
            }
            _ => {
                let node = key as usize;
                self.grant(node);
                Some(Event::Iter { node })
            }
        }
    }

    /// Run until `horizon` (inclusive) or until `f` returns true after an event.
    pub fn run_until(&mut self, horizon: u64, mut f: impl FnMut(&mut World, &Event) -> bool) {
        while let Some(ev) = self.step(horizon) {
            if f(self, &ev) {
                return;
            }
        }
        if self.now < horizon {
            self.set_now(horizon);
        }
    }

    pub fn run_for(&mut self, dur: u64) {
        let h = self.now + dur;
        self.run_until(h, |_, _| false);
    }

    /// Run (ignoring endpoints) until all the given calls are done or `horizon` passes.
    pub fn run_calls(&mut self, ids: &[usize], horizon: u64) -> bool {
        if ids.iter().all(|i| self.calls[*i].result.is_some()) {
            return true;
        }
        let ids = ids.to_vec();
        self.run_until(horizon, |w, _| ids.iter().all(|i| w.calls[*i].result.is_some()));
        ids.iter().all(|i| self.calls[*i].result.is_some())
    }

    // --- API calls ---------------------------------------------------------------------------

    /// Register a call on `node` and poll it once (which enqueues the real `ActorMessage`).
    pub fn call(&mut self, node: usize, label: &str, fut: CallFuture) -> usize {
        let id = self.calls.len();
        self.calls.push(Call {
            node,
            label: label.to_string(),
            fut: Some(fut),
            sync: None,
            result: None,
            issued_at: self.now,
            done_at: None,
        });
        self.poll_call(id);
        id
    }

    /// Register a call made through the blocking API: `f` runs on a helper thread with a clone
    /// of the node's `Dht` handle. The world only proceeds once that thread has either finished
    /// or gone to sleep waiting for the actor (so what it sends, and when, is a function of the
    /// schedule like everything else).
    pub fn call_sync(&mut self, node: usize, label: &str, f: Box<dyn FnOnce(Dht) -> CallResult + Send>) -> usize {
        let id = self.calls.len();
        let dht: Dht = self.dht(node).as_sync().clone();
        let (tx, rx) = std::sync::mpsc::channel();
        let tid = Arc::new(std::sync::atomic::AtomicI32::new(0));
        let tid2 = tid.clone();
        std::thread::Builder::new()
            .name(format!("sync-call {label}"))
            .spawn(move || {
                tid2.store(unsafe { libc::syscall(libc::SYS_gettid) } as i32, Ordering::SeqCst);
                let r = crate::checks::quiet(|| catch_unwind(AssertUnwindSafe(move || f(dht))));
                let r = match r {
                    Ok(r) => r,
                    Err(p) => CallResult::Panicked(
                        p.downcast_ref::<String>()
                            .cloned()
                            .or_else(|| p.downcast_ref::<&str>().map(|s| s.to_string()))
                            .unwrap_or_else(|| "panic".to_string()),
                    ),
                };
                let _ = tx.send(r);
            })
            .expect("spawn sync-call thread");
        self.calls.push(Call {
            node,
            label: format!("sync:{label}"),
            fut: None,
            sync: Some(SyncThread { rx, tid }),
            result: None,
            issued_at: self.now,
            done_at: None,
        });
        self.poll_call(id);
        id
    }

    /// Wait (real time) until the helper thread of a blocking call is quiescent: finished, or
    /// asleep waiting for the actor. Returns its result if it has one.
    fn settle_sync(st: &SyncThread) -> Option<CallResult> {
        let started = std::time::Instant::now();
        let mut asleep_seen = 0;
        loop {
            if let Ok(r) = st.rx.try_recv() {
                return Some(r);
            }
            let tid = st.tid.load(Ordering::SeqCst);
            if tid != 0 {
                match thread_stat(tid) {
                    Some(('S', _)) => {
                        asleep_seen += 1;
                        if asleep_seen >= 3 {
                            // a result sent just before going to sleep cannot exist: sending is the thread's last act
                            if let Ok(r) = st.rx.try_recv() {
                                return Some(r);
                            }
                            return None;
                        }
                    }
                    _ => asleep_seen = 0,
                }
            }
            if started.elapsed() > Duration::from_secs(600) {
                panic!("MACHINERY: the helper thread of a blocking API call neither finished nor went to sleep within 600 s");
            }
            std::thread::yield_now();
        }
    }

    fn poll_call(&mut self, id: usize) {
        let now = self.now;
        let c = &mut self.calls[id];
        if let Some(st) = c.sync.as_ref() {
            if let Some(r) = Self::settle_sync(st) {
                c.result = Some(r);
                c.done_at = Some(now);
                c.sync = None;
            }
            return;
        }
        let Some(fut) = c.fut.as_mut() else { return };
        let waker = Waker::noop();
        let mut cx = Context::from_waker(waker);
        let polled = crate::checks::quiet(|| catch_unwind(AssertUnwindSafe(|| fut.as_mut().poll(&mut cx))));
        match polled {
            Ok(Poll::Pending) => {}
            Ok(Poll::Ready(r)) => {
                c.result = Some(r);
                c.done_at = Some(now);
                c.fut = None;
            }
            Err(p) => {
                let msg = p
                    .downcast_ref::<String>()
                    .cloned()
                    .or_else(|| p.downcast_ref::<&str>().map(|s| s.to_string()))
                    .unwrap_or_else(|| "panic".to_string());
                c.result = Some(CallResult::Panicked(msg));
                c.done_at = Some(now);
                // A future that panicked must not be polled or dropped normally again.
                if let Some(f) = c.fut.take() {
                    std::mem::forget(f);
                }
            }
        }
    }

    fn poll_calls(&mut self, node: Option<usize>) {
        for id in 0..self.calls.len() {
            if (self.calls[id].fut.is_some() || self.calls[id].sync.is_some()) && node.map(|n| self.calls[id].node == n).unwrap_or(true)
            {
                self.poll_call(id);
            }
        }
    }

    pub fn result(&self, call: usize) -> Option<&CallResult> {
        self.calls[call].result.as_ref()
    }

    // --- convenience wrappers over the public async API --------------------------------------

    /// Fast-forwards the node's transaction-id counter at its next loop iteration (a node that
    /// has been running, and sending requests, for a long time).
    pub fn set_next_tid(&mut self, node: usize, tid: u32) {
        if let Some(s) = shared().as_mut() {
            s.nodes[node].tid_override = Some(tid);
        }
    }

    /// From now on (until switched off) the node's in-flight table is exactly full at the top of
    /// every loop iteration: capacity = length, the state in which the socket reclaims entries.
    pub fn set_shrink_inflight(&mut self, node: usize, on: bool) {
        if let Some(s) = shared().as_mut() {
            s.nodes[node].shrink_inflight = on;
        }
    }

    pub fn call_bootstrapped(&mut self, node: usize) -> usize {
        if self.sync_api {
            return self.call_sync(node, "bootstrapped", Box::new(move |d| CallResult::Bool(d.bootstrapped())));
        }
        let dht = self.dht(node);
        self.call(
            node,
            "bootstrapped",
            Box::pin(async move { CallResult::Bool(dht.bootstrapped().await) }),
        )
    }

    pub fn call_find_node(&mut self, node: usize, target: dht::Id) -> usize {
        if self.sync_api {
            return self.call_sync(node, "find_node", Box::new(move |d| CallResult::Nodes(d.find_node(target).to_vec())));
        }
        let dht = self.dht(node);
        self.call(
            node,
            "find_node",
            Box::pin(async move { CallResult::Nodes(dht.find_node(target).await.to_vec()) }),
        )
    }

    pub fn call_get_closest_nodes(&mut self, node: usize, target: dht::Id) -> usize {
        if self.sync_api {
            return self.call_sync(node, "get_closest_nodes", Box::new(move |d| CallResult::Nodes(d.get_closest_nodes(target).to_vec())));
        }
        let dht = self.dht(node);
        self.call(
            node,
            "get_closest_nodes",
            Box::pin(async move { CallResult::Nodes(dht.get_closest_nodes(target).await.to_vec()) }),
        )
    }

    pub fn call_put_immutable(&mut self, node: usize, value: Vec<u8>) -> usize {
        if self.sync_api {
            return self.call_sync(node, "put_immutable", Box::new(move |d| CallResult::Put(d.put_immutable(&value).map_err(|e| PutErr::from_query(&e)))));
        }
        let dht = self.dht(node);
        self.call(
            node,
            "put_immutable",
            Box::pin(async move {
                CallResult::Put(
                    dht.put_immutable(&value)
                        .await
                        .map_err(|e| PutErr::from_query(&e)),
                )
            }),
        )
    }

    pub fn call_get_immutable(&mut self, node: usize, target: dht::Id) -> usize {
        if self.sync_api {
            return self.call_sync(node, "get_immutable", Box::new(move |d| CallResult::Bytes(d.get_immutable(target).map(|b| b.to_vec()))));
        }
        let dht = self.dht(node);
        self.call(
            node,
            "get_immutable",
            Box::pin(async move {
                CallResult::Bytes(dht.get_immutable(target).await.map(|b| b.to_vec()))
            }),
        )
    }

    pub fn call_put_mutable(
        &mut self,
        node: usize,
        item: dht::MutableItem,
        cas: Option<i64>,
    ) -> usize {
        if self.sync_api {
            return self.call_sync(node, "put_mutable", Box::new(move |d| CallResult::Put(d.put_mutable(item, cas).map_err(|e| PutErr::from_mutable(&e)))));
        }
        let dht = self.dht(node);
        self.call(
            node,
            "put_mutable",
            Box::pin(async move {
                CallResult::Put(
                    dht.put_mutable(item, cas)
                        .await
                        .map_err(|e| PutErr::from_mutable(&e)),
                )
            }),
        )
    }

    pub fn call_get_mutable(
        &mut self,
        node: usize,
        key: [u8; 32],
        salt: Option<Vec<u8>>,
        more_recent_than: Option<i64>,
    ) -> usize {
        if self.sync_api {
            return self.call_sync(node, "get_mutable", Box::new(move |d| CallResult::Mutables(d.get_mutable(&key, salt.as_deref(), more_recent_than).collect())));
        }
        use futures_lite::StreamExt;
        let dht = self.dht(node);
        self.call(
            node,
            "get_mutable",
            Box::pin(async move {
                let mut s = dht.get_mutable(&key, salt.as_deref(), more_recent_than);
                let mut v = vec![];
                while let Some(i) = s.next().await {
                    v.push(i);
                }
                CallResult::Mutables(v)
            }),
        )
    }

    /// The `get_mutable(..).next()` pattern: take the first item, then drop the stream while the
    /// lookup may still be running.
    pub fn call_get_mutable_first(&mut self, node: usize, key: [u8; 32], salt: Option<Vec<u8>>) -> usize {
        use futures_lite::StreamExt;
        if self.sync_api {
            return self.call_sync(node, "get_mutable.next", Box::new(move |d| CallResult::Mutable(d.get_mutable(&key, salt.as_deref(), None).next())));
        }
        let dht = self.dht(node);
        self.call(
            node,
            "get_mutable.next",
            Box::pin(async move {
                let mut s = dht.get_mutable(&key, salt.as_deref(), None);
                CallResult::Mutable(s.next().await)
            }),
        )
    }

    pub fn call_get_mutable_most_recent(
        &mut self,
        node: usize,
        key: [u8; 32],
        salt: Option<Vec<u8>>,
    ) -> usize {
        if self.sync_api {
            return self.call_sync(node, "get_mutable_most_recent", Box::new(move |d| CallResult::Mutable(d.get_mutable_most_recent(&key, salt.as_deref()))));
        }
        let dht = self.dht(node);
        self.call(
            node,
            "get_mutable_most_recent",
            Box::pin(async move {
                CallResult::Mutable(dht.get_mutable_most_recent(&key, salt.as_deref()).await)
            }),
        )
    }

    pub fn call_announce_peer(&mut self, node: usize, info_hash: dht::Id, port: Option<u16>) -> usize {
        if self.sync_api {
            return self.call_sync(node, "announce_peer", Box::new(move |d| CallResult::Put(d.announce_peer(info_hash, port).map_err(|e| PutErr::from_query(&e)))));
        }
        let dht = self.dht(node);
        self.call(
            node,
            "announce_peer",
            Box::pin(async move {
                CallResult::Put(
                    dht.announce_peer(info_hash, port)
                        .await
                        .map_err(|e| PutErr::from_query(&e)),
                )
            }),
        )
    }

    pub fn call_get_peers(&mut self, node: usize, info_hash: dht::Id) -> usize {
        if self.sync_api {
            return self.call_sync(node, "get_peers", Box::new(move |d| CallResult::Peers(d.get_peers(info_hash).collect())));
        }
        use futures_lite::StreamExt;
        let dht = self.dht(node);
        self.call(
            node,
            "get_peers",
            Box::pin(async move {
                let mut s = dht.get_peers(info_hash);
                let mut v = vec![];
                while let Some(i) = s.next().await {
                    v.push(i);
                }
                CallResult::Peers(v)
            }),
        )
    }

    pub fn call_announce_signed_peer(
        &mut self,
        node: usize,
        info_hash: dht::Id,
        signer: dht::SigningKey,
    ) -> usize {
        if self.sync_api {
            return self.call_sync(node, "announce_signed_peer", Box::new(move |d| CallResult::Put(d.announce_signed_peer(info_hash, &signer).map_err(|e| PutErr::from_query(&e)))));
        }
        let dht = self.dht(node);
        self.call(
            node,
            "announce_signed_peer",
            Box::pin(async move {
                CallResult::Put(
                    dht.announce_signed_peer(info_hash, &signer)
                        .await
                        .map_err(|e| PutErr::from_query(&e)),
                )
            }),
        )
    }

    pub fn call_get_signed_peers(&mut self, node: usize, info_hash: dht::Id) -> usize {
        if self.sync_api {
            return self.call_sync(node, "get_signed_peers", Box::new(move |d| CallResult::SignedPeers(d.get_signed_peers(info_hash).collect())));
        }
        use futures_lite::StreamExt;
        let dht = self.dht(node);
        self.call(
            node,
            "get_signed_peers",
            Box::pin(async move {
                let mut s = dht.get_signed_peers(info_hash).await;
                let mut v = vec![];
                while let Some(i) = s.next().await {
                    v.push(i);
                }
                CallResult::SignedPeers(v)
            }),
        )
    }

    pub fn call_put_raw(
        &mut self,
        node: usize,
        request: dht::PutRequestSpecific,
        extra_nodes: Option<Box<[dht::Node]>>,
    ) -> usize {
        if self.sync_api {
            return self.call_sync(node, "put", Box::new(move |d| CallResult::Put(d.put(request, extra_nodes).map_err(|e| PutErr::from_put_error(&e)))));
        }
        let dht = self.dht(node);
        self.call(
            node,
            "put",
            Box::pin(async move {
                CallResult::Put(
                    dht.put(request, extra_nodes)
                        .await
                        .map_err(|e| PutErr::from_put_error(&e)),
                )
            }),
        )
    }

    pub fn call_info(&mut self, node: usize) -> usize {
        if self.sync_api {
            return self.call_sync(node, "info", Box::new(move |d| CallResult::Info(d.info())));
        }
        let dht = self.dht(node);
        self.call(
            node,
            "info",
            Box::pin(async move { CallResult::Info(dht.info().await) }),
        )
    }

    pub fn call_to_bootstrap(&mut self, node: usize) -> usize {
        if self.sync_api {
            return self.call_sync(node, "to_bootstrap", Box::new(move |d| CallResult::Strings(d.to_bootstrap())));
        }
        let dht = self.dht(node);
        self.call(
            node,
            "to_bootstrap",
            Box::pin(async move { CallResult::Strings(dht.to_bootstrap().await) }),
        )
    }

    /// The node as seen through its public API (`info()`, `to_bootstrap()`) compared with its
    /// internal state (snapshot taken in the same instant): returns one line per disagreement.
    /// Costs the node a few immediate loop iterations (a node that happens to poll now).
    pub fn api_view_mismatches(&mut self, node: usize) -> Vec<(String, String)> {
        if !self.nodes[node].alive {
            return vec![];
        }
        let ci = self.call_info(node);
        let cb = self.call_to_bootstrap(node);
        for _ in 0..16 {
            if self.calls[ci].result.is_some() && self.calls[cb].result.is_some() {
                break;
            }
            if !self.nodes[node].alive {
                return vec![];
            }
            self.grant(node);
        }
        let mut out = vec![];
        let (Some(CallResult::Info(info)), Some(CallResult::Strings(boot))) = (self.calls[ci].result.clone(), self.calls[cb].result.clone()) else {
            out.push(("api-view/no-answer".to_string(), "info() / to_bootstrap() were not answered within 16 loop iterations".to_string()));
            return out;
        };
        let s = self.snapshot(node);
        let mut bad = |field: &str, api: String, internal: String| {
            if api != internal {
                out.push((format!("api-view/{field}"), format!("the public API reports {field} = {api}, the node's state says {internal}")));
            }
        };
        bad("id", format!("{:?}", info.id()), format!("{:?}", s.core.routing_table.id));
        bad("public_address", format!("{:?}", info.public_address()), format!("{:?}", s.core.public_address));
        bad("firewalled", format!("{}", info.firewalled()), format!("{}", s.core.firewalled));
        bad("server_mode", format!("{}", info.server_mode()), format!("{}", s.core.server_mode));
        bad("local_port", format!("{}", info.local_addr().port()), format!("{}", self.nodes[node].cfg.port));
        let size = |t: &dht::verif::TableSnapshot| t.buckets.iter().map(|(_, b)| b.len()).sum::<usize>();
        bad("routing_table_size", format!("{}", info.routing_table_size()), format!("{}", size(&s.core.routing_table)));
        bad("signed_peers_routing_table_size", format!("{}", info.singing_peers_routing_table_size()), format!("{}", size(&s.core.signed_peers_routing_table)));
        // to_bootstrap(): the addresses of the entries of both tables heard from within 15 minutes
        let fresh = |t: &dht::verif::TableSnapshot| -> Vec<String> {
            t.buckets.iter().flat_map(|(_, b)| b.iter()).filter(|n| self.now.saturating_sub(n.last_seen) <= 15 * MIN).map(|n| n.address.to_string()).collect()
        };
        let mut want: BTreeSet<String> = fresh(&s.core.routing_table).into_iter().collect();
        want.extend(fresh(&s.core.signed_peers_routing_table));
        let got: BTreeSet<String> = boot.iter().cloned().collect();
        if got != want || got.len() != boot.len() {
            out.push(("api-view/to_bootstrap".to_string(), format!("to_bootstrap() returned {boot:?}, the tables' fresh entries are {want:?}")));
        }
        out
    }

    /// Sent datagrams, in order.
    pub fn sent(&self) -> impl Iterator<Item = (&Datagram, &Fate)> {
        self.log.iter().filter_map(|e| match e {
            LogEntry::Sent { dgram, fate } => Some((dgram, fate)),
            _ => None,
        })
    }

    /// Ids of datagrams that reached a node's inbox or an endpoint, with the instant.
    pub fn delivered_ids(&self) -> BTreeMap<u64, u64> {
        self.log
            .iter()
            .filter_map(|e| match e {
                LogEntry::Delivered { id, at, .. } => Some((*id, *at)),
                _ => None,
            })
            .collect()
    }
}

/// Largest number of loop iterations any world of this process has granted.
pub static MAX_STEPS_IN_ONE_WORLD: AtomicU64 = AtomicU64::new(0);

impl Drop for World {
    fn drop(&mut self) {
        MAX_STEPS_IN_ONE_WORLD.fetch_max(self.steps, Ordering::SeqCst);
        // Pending futures hold channel handles only; drop them first.
        for c in self.calls.iter_mut() {
            c.fut = None;
            c.sync = None;
        }
        for i in 0..self.nodes.len() {
            if self.nodes[i].blocked {
                continue;
            }
            if self.nodes[i].alive {
                self.crash(i);
            } else {
                // Make sure the thread is really gone.
                let sync = self.nodes[i].sync.clone();
                let mut b = sync.lock();
                if b.phase != Phase::Exited {
                    b.kill = true;
                    sync.cv.notify_all();
                    while b.phase != Phase::Exited {
                        b = sync.cv.wait(b).unwrap_or_else(|e| e.into_inner());
                    }
                }
            }
        }
        *shared() = None;
        let mut live = WORLD_LIVE.lock().unwrap_or_else(|e| e.into_inner());
        *live = false;
    }
}

/// Run a blocking operation of the library on a helper thread while every actor is parked:
/// `Some(result)` if it returns, `None` if the thread goes to sleep instead (nothing can wake it
/// while no actor runs, so it would block for ever; the thread is leaked).
pub fn run_blocking<T: Send + 'static>(f: impl FnOnce() -> T + Send + 'static) -> Option<T> {
    let (tx, rx) = std::sync::mpsc::channel();
    let tid = Arc::new(std::sync::atomic::AtomicI32::new(0));
    let tid2 = tid.clone();
    std::thread::Builder::new()
        .name("blocking-op".into())
        .spawn(move || {
            tid2.store(unsafe { libc::syscall(libc::SYS_gettid) } as i32, Ordering::SeqCst);
            let _ = tx.send(f());
        })
        .expect("spawn");
    let started = std::time::Instant::now();
    let mut asleep_seen = 0;
    loop {
        if let Ok(r) = rx.try_recv() {
            return Some(r);
        }
        let t = tid.load(Ordering::SeqCst);
        if t != 0 {
            match thread_stat(t) {
                Some(('S', _)) => {
                    asleep_seen += 1;
                    if asleep_seen >= 3 {
                        return rx.try_recv().ok();
                    }
                }
                _ => asleep_seen = 0,
            }
        }
        if started.elapsed() > Duration::from_secs(600) {
            panic!("MACHINERY: a blocking operation neither finished nor went to sleep within 600 s");
        }
        std::thread::yield_now();
    }
}

/// Pin the calling worker to a core that no other worker of any concurrently running check holds:
/// cores are claimed with an advisory lock on a per-core file (kept until the process exits),
/// starting at `preferred`. When every core is already claimed - another check is using the whole
/// machine - the worker is NOT pinned: two workers forced onto one core make each of their
/// thousands of baton hand-overs wait for the other's time slice, which is far worse than letting
/// the scheduler place the threads. Alone on the machine, worker i gets core i as before.
pub fn claim_core(preferred: usize, cores: usize) {
    use std::os::unix::io::AsRawFd;
    if std::env::var("VCHECK_NOPIN").is_ok() {
        return;
    }
    let dir = if std::path::Path::new("/dev/shm").is_dir() { "/dev/shm".to_string() } else { std::env::temp_dir().to_string_lossy().to_string() };
    for k in 0..cores {
        let core = (preferred + k) % cores;
        let path = format!("{dir}/vcheck-core-{core}.lock");
        let Ok(f) = std::fs::OpenOptions::new().create(true).write(true).truncate(false).open(&path) else { continue };
        let got = unsafe { libc::flock(f.as_raw_fd(), libc::LOCK_EX | libc::LOCK_NB) } == 0;
        if got {
            // the descriptor (and with it the lock) lives as long as the process
            std::mem::forget(f);
            pin_to_core(core);
            return;
        }
    }
}

/// Pin the calling thread (and every thread it spawns later) to one core.
pub fn pin_to_core(core: usize) {
    unsafe {
        let mut set: libc::cpu_set_t = std::mem::zeroed();
        libc::CPU_ZERO(&mut set);
        libc::CPU_SET(core, &mut set);
        libc::sched_setaffinity(0, std::mem::size_of::<libc::cpu_set_t>(), &set);
    }
}
