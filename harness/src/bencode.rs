//! Independent bencode reader / writer (does not use the crate's codec nor serde_bencode).

#[derive(Clone, Debug, PartialEq, Eq, Hash, PartialOrd, Ord)]
pub enum B {
    Int(i128),
    Bytes(Vec<u8>),
    List(Vec<B>),
    /// Entries in wire order (the writer emits them exactly in this order).
    Dict(Vec<(Vec<u8>, B)>),
    /// Bytes emitted verbatim by the writer (for non-canonical / broken encodings).
    Raw(Vec<u8>),
}

#[derive(Clone, Debug, Default, PartialEq, Eq)]
pub struct Canon {
    /// Dict keys strictly increasing everywhere.
    pub sorted_unique_keys: bool,
    /// No leading zeros, no "-0", no empty integers.
    pub minimal_ints: bool,
    /// String lengths without leading zeros.
    pub minimal_lengths: bool,
    /// Bytes left after the top-level value.
    pub trailing: usize,
}

impl Canon {
    pub fn is_canonical(&self) -> bool {
        self.sorted_unique_keys && self.minimal_ints && self.minimal_lengths && self.trailing == 0
    }
}

struct P<'a> {
    b: &'a [u8],
    i: usize,
    canon: Canon,
    depth: usize,
}

impl<'a> P<'a> {
    fn peek(&self) -> Option<u8> {
        self.b.get(self.i).copied()
    }

    fn value(&mut self) -> Result<B, String> {
        self.depth += 1;
        if self.depth > 64 {
            return Err("too deep".into());
        }
        let r = match self.peek() {
            None => Err("eof".into()),
            Some(b'i') => {
                self.i += 1;
                let start = self.i;
                while self.peek().map(|c| c != b'e').unwrap_or(false) {
                    self.i += 1;
                }
                if self.peek() != Some(b'e') {
                    return Err("unterminated int".into());
                }
                let s = &self.b[start..self.i];
                self.i += 1;
                let txt = std::str::from_utf8(s).map_err(|_| "int utf8")?;
                let digits = txt.strip_prefix('-').unwrap_or(txt);
                if digits.is_empty() || !digits.bytes().all(|c| c.is_ascii_digit()) {
                    return Err(format!("bad int {txt:?}"));
                }
                if (digits.len() > 1 && digits.starts_with('0')) || txt == "-0" {
                    self.canon.minimal_ints = false;
                }
                let v: i128 = txt.parse().map_err(|_| format!("int range {txt:?}"))?;
                Ok(B::Int(v))
            }
            Some(b'l') => {
                self.i += 1;
                let mut v = vec![];
                while self.peek().map(|c| c != b'e').unwrap_or(false) {
                    v.push(self.value()?);
                }
                if self.peek() != Some(b'e') {
                    return Err("unterminated list".into());
                }
                self.i += 1;
                Ok(B::List(v))
            }
            Some(b'd') => {
                self.i += 1;
                let mut v: Vec<(Vec<u8>, B)> = vec![];
                while self.peek().map(|c| c != b'e').unwrap_or(false) {
                    let k = match self.value()? {
                        B::Bytes(k) => k,
                        _ => return Err("dict key not a string".into()),
                    };
                    if let Some((last, _)) = v.last() {
                        if *last >= k {
                            self.canon.sorted_unique_keys = false;
                        }
                    }
                    let val = self.value()?;
                    v.push((k, val));
                }
                if self.peek() != Some(b'e') {
                    return Err("unterminated dict".into());
                }
                self.i += 1;
                Ok(B::Dict(v))
            }
            Some(c) if c.is_ascii_digit() => {
                let start = self.i;
                while self.peek().map(|c| c.is_ascii_digit()).unwrap_or(false) {
                    self.i += 1;
                }
                if self.peek() != Some(b':') {
                    return Err("bad string length".into());
                }
                let txt = std::str::from_utf8(&self.b[start..self.i]).map_err(|_| "len utf8")?;
                if txt.len() > 1 && txt.starts_with('0') {
                    self.canon.minimal_lengths = false;
                }
                let len: usize = txt.parse().map_err(|_| "len range")?;
                self.i += 1;
                if self.i + len > self.b.len() {
                    return Err("string past end".into());
                }
                let s = self.b[self.i..self.i + len].to_vec();
                self.i += len;
                Ok(B::Bytes(s))
            }
            Some(c) => Err(format!("unexpected byte {c}")),
        };
        self.depth -= 1;
        r
    }
}

pub fn decode(bytes: &[u8]) -> Result<(B, Canon), String> {
    let mut p = P {
        b: bytes,
        i: 0,
        canon: Canon {
            sorted_unique_keys: true,
            minimal_ints: true,
            minimal_lengths: true,
            trailing: 0,
        },
        depth: 0,
    };
    let v = p.value()?;
    p.canon.trailing = bytes.len() - p.i;
    Ok((v, p.canon))
}

pub fn encode_into(v: &B, out: &mut Vec<u8>) {
    match v {
        B::Int(i) => {
            out.push(b'i');
            out.extend_from_slice(i.to_string().as_bytes());
            out.push(b'e');
        }
        B::Bytes(b) => {
            out.extend_from_slice(b.len().to_string().as_bytes());
            out.push(b':');
            out.extend_from_slice(b);
        }
        B::List(l) => {
            out.push(b'l');
            for x in l {
                encode_into(x, out);
            }
            out.push(b'e');
        }
        B::Raw(r) => out.extend_from_slice(r),
        B::Dict(d) => {
            out.push(b'd');
            for (k, x) in d {
                out.extend_from_slice(k.len().to_string().as_bytes());
                out.push(b':');
                out.extend_from_slice(k);
                encode_into(x, out);
            }
            out.push(b'e');
        }
    }
}

pub fn encode(v: &B) -> Vec<u8> {
    let mut out = vec![];
    encode_into(v, &mut out);
    out
}

impl B {
    pub fn bytes(b: impl AsRef<[u8]>) -> B {
        B::Bytes(b.as_ref().to_vec())
    }

    /// A dict with its keys sorted (canonical).
    pub fn dict(mut entries: Vec<(&str, B)>) -> B {
        entries.sort_by(|a, b| a.0.as_bytes().cmp(b.0.as_bytes()));
        B::Dict(
            entries
                .into_iter()
                .map(|(k, v)| (k.as_bytes().to_vec(), v))
                .collect(),
        )
    }

    pub fn get(&self, key: &str) -> Option<&B> {
        match self {
            B::Dict(d) => d.iter().find(|(k, _)| k == key.as_bytes()).map(|(_, v)| v),
            _ => None,
        }
    }

    pub fn as_bytes(&self) -> Option<&[u8]> {
        match self {
            B::Bytes(b) => Some(b),
            _ => None,
        }
    }

    pub fn as_int(&self) -> Option<i128> {
        match self {
            B::Int(i) => Some(*i),
            _ => None,
        }
    }

    pub fn as_list(&self) -> Option<&[B]> {
        match self {
            B::List(l) => Some(l),
            _ => None,
        }
    }

    pub fn as_dict(&self) -> Option<&[(Vec<u8>, B)]> {
        match self {
            B::Dict(d) => Some(d),
            _ => None,
        }
    }

    /// Insert or replace a key, keeping sorted order.
    pub fn set(&mut self, key: &str, v: B) {
        if let B::Dict(d) = self {
            if let Some(e) = d.iter_mut().find(|(k, _)| k == key.as_bytes()) {
                e.1 = v;
            } else {
                d.push((key.as_bytes().to_vec(), v));
                d.sort_by(|a, b| a.0.cmp(&b.0));
            }
        }
    }

    pub fn remove(&mut self, key: &str) {
        if let B::Dict(d) = self {
            d.retain(|(k, _)| k != key.as_bytes());
        }
    }
}
