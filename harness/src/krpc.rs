//! Harness-side KRPC: message builders for scripted endpoints and a parsed view for oracles,
//! both on top of the independent bencode module, plus independent crypto references.

use std::net::{Ipv4Addr, SocketAddrV4};

use ed25519_dalek::{Signature, Signer, SigningKey, Verifier, VerifyingKey};

use crate::bencode::{decode, encode, B};

pub type Id20 = [u8; 20];

pub fn compact_addr(a: &SocketAddrV4) -> Vec<u8> {
    let mut v = a.ip().octets().to_vec();
    v.extend_from_slice(&a.port().to_be_bytes());
    v
}

pub fn compact_nodes(nodes: &[(Id20, SocketAddrV4)]) -> Vec<u8> {
    let mut v = vec![];
    for (id, a) in nodes {
        v.extend_from_slice(id);
        v.extend_from_slice(&compact_addr(a));
    }
    v
}

pub fn parse_compact_nodes(b: &[u8]) -> Option<Vec<(Id20, SocketAddrV4)>> {
    if b.len() % 26 != 0 {
        return None;
    }
    Some(
        b.chunks(26)
            .map(|c| {
                let mut id = [0u8; 20];
                id.copy_from_slice(&c[..20]);
                (
                    id,
                    SocketAddrV4::new(
                        Ipv4Addr::new(c[20], c[21], c[22], c[23]),
                        u16::from_be_bytes([c[24], c[25]]),
                    ),
                )
            })
            .collect(),
    )
}

pub fn parse_compact_addr(c: &[u8]) -> Option<SocketAddrV4> {
    if c.len() != 6 {
        return None;
    }
    Some(SocketAddrV4::new(
        Ipv4Addr::new(c[0], c[1], c[2], c[3]),
        u16::from_be_bytes([c[4], c[5]]),
    ))
}

/// A parsed datagram (generic view).
#[derive(Clone, Debug)]
pub struct Krpc {
    pub raw: B,
    pub t: Vec<u8>,
    /// b'q', b'r' or b'e'
    pub y: u8,
    pub q: Option<String>,
    pub ro: Option<i128>,
    pub v: Option<Vec<u8>>,
    pub ip: Option<Vec<u8>>,
}

impl Krpc {
    pub fn parse(bytes: &[u8]) -> Option<Krpc> {
        let (raw, _) = decode(bytes).ok()?;
        let t = raw.get("t")?.as_bytes()?.to_vec();
        let y = *raw.get("y")?.as_bytes()?.first()?;
        let q = raw
            .get("q")
            .and_then(|q| q.as_bytes())
            .map(|q| String::from_utf8_lossy(q).to_string());
        Some(Krpc {
            t,
            y,
            q,
            ro: raw.get("ro").and_then(|x| x.as_int()),
            v: raw.get("v").and_then(|x| x.as_bytes()).map(|x| x.to_vec()),
            ip: raw.get("ip").and_then(|x| x.as_bytes()).map(|x| x.to_vec()),
            raw,
        })
    }

    pub fn is_query(&self) -> bool {
        self.y == b'q'
    }
    pub fn is_response(&self) -> bool {
        self.y == b'r'
    }
    pub fn is_error(&self) -> bool {
        self.y == b'e'
    }

    /// Argument of a query (`a.<key>`).
    pub fn arg(&self, key: &str) -> Option<&B> {
        self.raw.get("a")?.get(key)
    }
    /// Field of a response (`r.<key>`).
    pub fn res(&self, key: &str) -> Option<&B> {
        self.raw.get("r")?.get(key)
    }
    pub fn arg_bytes(&self, key: &str) -> Option<&[u8]> {
        self.arg(key)?.as_bytes()
    }
    pub fn res_bytes(&self, key: &str) -> Option<&[u8]> {
        self.res(key)?.as_bytes()
    }
    pub fn error(&self) -> Option<(i128, String)> {
        let l = self.raw.get("e")?.as_list()?;
        Some((
            l.first()?.as_int()?,
            String::from_utf8_lossy(l.get(1)?.as_bytes()?).to_string(),
        ))
    }
    pub fn tid_u32(&self) -> Option<u32> {
        match self.t.as_slice() {
            [a, b] => Some(u16::from_be_bytes([*a, *b]) as u32),
            [a, b, c, d] => Some(u32::from_be_bytes([*a, *b, *c, *d])),
            _ => None,
        }
    }
    /// The lookup/put target of a query: `target` or `info_hash`.
    pub fn query_target(&self) -> Option<Id20> {
        let b = self
            .arg_bytes("target")
            .or_else(|| self.arg_bytes("info_hash"))?;
        b.try_into().ok()
    }
    pub fn sender_id(&self) -> Option<Id20> {
        let b = if self.is_query() {
            self.arg_bytes("id")
        } else {
            self.res_bytes("id")
        }?;
        b.try_into().ok()
    }
    pub fn res_nodes(&self) -> Option<Vec<(Id20, SocketAddrV4)>> {
        parse_compact_nodes(self.res_bytes("nodes")?)
    }
}

// --- builders ----------------------------------------------------------------------------------

pub const VERSION_RS: [u8; 4] = [82, 83, 0, 6];

fn envelope(t: &[u8], y: &str, mut extra: Vec<(&'static str, B)>) -> B {
    extra.push(("t", B::bytes(t)));
    extra.push(("y", B::bytes(y)));
    B::dict(extra)
}

/// Response with arbitrary `r` fields; `ip` (requester address) and `v` optional.
pub fn response(
    t: &[u8],
    r: Vec<(&'static str, B)>,
    ip: Option<&SocketAddrV4>,
    version: Option<&[u8]>,
) -> Vec<u8> {
    let mut extra = vec![("r", B::dict(r))];
    if let Some(ip) = ip {
        extra.push(("ip", B::bytes(compact_addr(ip))));
    }
    if let Some(v) = version {
        extra.push(("v", B::bytes(v)));
    }
    encode(&envelope(t, "r", extra))
}

pub fn error(t: &[u8], code: i64, msg: &str) -> Vec<u8> {
    encode(&envelope(
        t,
        "e",
        vec![(
            "e",
            B::List(vec![B::Int(code as i128), B::bytes(msg)]),
        )],
    ))
}

pub fn query(
    t: &[u8],
    q: &'static str,
    a: Vec<(&'static str, B)>,
    ro: Option<i64>,
    version: Option<&[u8]>,
) -> Vec<u8> {
    let mut extra = vec![("q", B::bytes(q)), ("a", B::dict(a))];
    if let Some(ro) = ro {
        extra.push(("ro", B::Int(ro as i128)));
    }
    if let Some(v) = version {
        extra.push(("v", B::bytes(v)));
    }
    encode(&envelope(t, "q", extra))
}

pub fn q_ping(t: &[u8], id: &Id20) -> Vec<u8> {
    query(t, "ping", vec![("id", B::bytes(id))], None, Some(&VERSION_RS))
}

pub fn q_find_node(t: &[u8], id: &Id20, target: &Id20, ro: Option<i64>) -> Vec<u8> {
    query(
        t,
        "find_node",
        vec![("id", B::bytes(id)), ("target", B::bytes(target))],
        ro,
        Some(&VERSION_RS),
    )
}

pub fn q_get(t: &[u8], id: &Id20, target: &Id20, seq: Option<i64>) -> Vec<u8> {
    let mut a = vec![("id", B::bytes(id)), ("target", B::bytes(target))];
    if let Some(s) = seq {
        a.push(("seq", B::Int(s as i128)));
    }
    query(t, "get", a, None, Some(&VERSION_RS))
}

pub fn q_get_peers(t: &[u8], id: &Id20, info_hash: &Id20, signed: bool) -> Vec<u8> {
    query(
        t,
        if signed { "get_signed_peers" } else { "get_peers" },
        vec![("id", B::bytes(id)), ("info_hash", B::bytes(info_hash))],
        None,
        Some(&VERSION_RS),
    )
}

pub fn q_put_immutable(t: &[u8], id: &Id20, target: &Id20, token: &[u8], v: &[u8]) -> Vec<u8> {
    query(
        t,
        "put",
        vec![
            ("id", B::bytes(id)),
            ("target", B::bytes(target)),
            ("token", B::bytes(token)),
            ("v", B::bytes(v)),
        ],
        None,
        Some(&VERSION_RS),
    )
}

#[allow(clippy::too_many_arguments)]
pub fn q_put_mutable(
    t: &[u8],
    id: &Id20,
    target: &Id20,
    token: &[u8],
    v: &[u8],
    k: &[u8],
    sig: &[u8],
    seq: i64,
    salt: Option<&[u8]>,
    cas: Option<i64>,
) -> Vec<u8> {
    let mut a = vec![
        ("id", B::bytes(id)),
        ("target", B::bytes(target)),
        ("token", B::bytes(token)),
        ("v", B::bytes(v)),
        ("k", B::bytes(k)),
        ("sig", B::bytes(sig)),
        ("seq", B::Int(seq as i128)),
    ];
    if let Some(s) = salt {
        a.push(("salt", B::bytes(s)));
    }
    if let Some(c) = cas {
        a.push(("cas", B::Int(c as i128)));
    }
    query(t, "put", a, None, Some(&VERSION_RS))
}

pub fn q_announce_peer(
    t: &[u8],
    id: &Id20,
    info_hash: &Id20,
    token: &[u8],
    port: u16,
    implied_port: Option<i64>,
) -> Vec<u8> {
    let mut a = vec![
        ("id", B::bytes(id)),
        ("info_hash", B::bytes(info_hash)),
        ("token", B::bytes(token)),
        ("port", B::Int(port as i128)),
    ];
    if let Some(i) = implied_port {
        a.push(("implied_port", B::Int(i as i128)));
    }
    query(t, "announce_peer", a, None, Some(&VERSION_RS))
}

pub fn q_announce_signed_peer(
    t: &[u8],
    id: &Id20,
    info_hash: &Id20,
    token: &[u8],
    k: &[u8],
    sig: &[u8],
    ts: u64,
) -> Vec<u8> {
    query(
        t,
        "announce_signed_peer",
        vec![
            ("id", B::bytes(id)),
            ("info_hash", B::bytes(info_hash)),
            ("token", B::bytes(token)),
            ("k", B::bytes(k)),
            ("sig", B::bytes(sig)),
            ("t", B::Int(ts as i64 as i128)),
        ],
        None,
        Some(&VERSION_RS),
    )
}

// --- independent references ----------------------------------------------------------------------

pub fn sha1(data: &[u8]) -> Id20 {
    let mut h = sha1_smol::Sha1::new();
    h.update(data);
    h.digest().bytes()
}

/// BEP44 immutable target: SHA1 of the bencoded value.
pub fn immutable_target(v: &[u8]) -> Id20 {
    sha1(&encode(&B::bytes(v)))
}

/// BEP44 mutable target: SHA1(k || salt).
pub fn mutable_target(k: &[u8; 32], salt: Option<&[u8]>) -> Id20 {
    let mut d = k.to_vec();
    if let Some(s) = salt {
        d.extend_from_slice(s);
    }
    sha1(&d)
}

/// BEP44 signable buffer.
pub fn mutable_signable(seq: i64, v: &[u8], salt: Option<&[u8]>) -> Vec<u8> {
    let mut out = vec![];
    if let Some(s) = salt {
        out.extend_from_slice(b"4:salt");
        crate::bencode::encode_into(&B::bytes(s), &mut out);
    }
    out.extend_from_slice(b"3:seq");
    crate::bencode::encode_into(&B::Int(seq as i128), &mut out);
    out.extend_from_slice(b"1:v");
    crate::bencode::encode_into(&B::bytes(v), &mut out);
    out
}

pub fn signing_key(seed: u8) -> SigningKey {
    SigningKey::from_bytes(&[seed; 32])
}

pub fn sign_mutable(sk: &SigningKey, seq: i64, v: &[u8], salt: Option<&[u8]>) -> [u8; 64] {
    sk.sign(&mutable_signable(seq, v, salt)).to_bytes()
}

pub fn verify(k: &[u8], msg: &[u8], sig: &[u8]) -> bool {
    let Ok(k): Result<[u8; 32], _> = k.try_into() else {
        return false;
    };
    let Ok(vk) = VerifyingKey::from_bytes(&k) else {
        return false;
    };
    let Ok(sig) = Signature::from_slice(sig) else {
        return false;
    };
    vk.verify(msg, &sig).is_ok()
}

pub fn verify_mutable(k: &[u8], seq: i64, v: &[u8], salt: Option<&[u8]>, sig: &[u8]) -> bool {
    verify(k, &mutable_signable(seq, v, salt), sig)
}

pub fn signed_announce_signable(info_hash: &Id20, ts: u64) -> Vec<u8> {
    let mut v = info_hash.to_vec();
    v.extend_from_slice(&ts.to_be_bytes());
    v
}

pub fn sign_announce(sk: &SigningKey, info_hash: &Id20, ts: u64) -> [u8; 64] {
    sk.sign(&signed_announce_signable(info_hash, ts)).to_bytes()
}

pub fn verify_announce(k: &[u8], info_hash: &Id20, ts: u64, sig: &[u8]) -> bool {
    verify(k, &signed_announce_signable(info_hash, ts), sig)
}

/// Bitwise CRC32C (Castagnoli), reflected, init/xorout 0xffffffff - independent of the `crc` crate.
pub fn crc32c(data: &[u8]) -> u32 {
    let mut crc: u32 = 0xffff_ffff;
    for &b in data {
        crc ^= b as u32;
        for _ in 0..8 {
            crc = if crc & 1 != 0 {
                (crc >> 1) ^ 0x82F6_3B78
            } else {
                crc >> 1
            };
        }
    }
    !crc
}

/// BEP42: is `id` valid for `ip`? (reference)
pub fn bep42_valid(id: &Id20, ip: Ipv4Addr) -> bool {
    let o = ip.octets();
    let private = o[0] == 10
        || (o[0] == 172 && (16..=31).contains(&o[1]))
        || (o[0] == 192 && o[1] == 168);
    let link_local = o[0] == 169 && o[1] == 254;
    let loopback = o[0] == 127;
    if private || link_local || loopback {
        return true;
    }
    let p = bep42_prefix(ip, id[19]);
    id[0] == p[0] && id[1] == p[1] && (id[2] & 0xf8) == (p[2] & 0xf8)
}

/// First three bytes of crc32c((ip & 0x030f3fff) | (r << 29)).
pub fn bep42_prefix(ip: Ipv4Addr, r: u8) -> [u8; 3] {
    let ipn = u32::from_be_bytes(ip.octets());
    let masked = (ipn & 0x030f_3fff) | (((r & 7) as u32) << 29);
    let c = crc32c(&masked.to_be_bytes()).to_be_bytes();
    [c[0], c[1], c[2]]
}

/// An id that is BEP42-secure for `ip`, with the given tail bytes and r.
pub fn bep42_id(ip: Ipv4Addr, fill: &Id20, r: u8) -> Id20 {
    let p = bep42_prefix(ip, r);
    let mut id = *fill;
    id[0] = p[0];
    id[1] = p[1];
    id[2] = (p[2] & 0xf8) | (fill[2] & 0x07);
    id[19] = r;
    id
}

pub fn xor(a: &Id20, b: &Id20) -> Id20 {
    let mut r = [0u8; 20];
    for i in 0..20 {
        r[i] = a[i] ^ b[i];
    }
    r
}
