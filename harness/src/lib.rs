pub mod bencode;
pub mod explore;
pub mod krpc;
pub mod rng;
pub mod sim;
