pub mod bencode;
pub mod checks;
pub mod explore;
pub mod krpc;
pub mod report;
pub mod rng;
pub mod sim;
pub mod smoke;
