//! Partial results, merging across worker processes, evidence files, known findings.

use std::collections::{BTreeMap, BTreeSet};

use serde_json::{json, Map, Value};

#[derive(Clone, Copy, Debug, PartialEq, Eq)]
pub enum Tier {
    Quick,
    Thorough,
}

impl Tier {
    pub fn name(&self) -> &'static str {
        match self {
            Tier::Quick => "quick",
            Tier::Thorough => "thorough",
        }
    }
    pub fn parse(s: &str) -> Option<Tier> {
        match s {
            "quick" => Some(Tier::Quick),
            "thorough" => Some(Tier::Thorough),
            _ => None,
        }
    }
    pub fn is_quick(&self) -> bool {
        *self == Tier::Quick
    }
}

#[derive(Clone, Debug)]
pub struct Violation {
    /// Stable identification of *what* fails (oracle clause + scenario shape + input class);
    /// this is what `known_findings.json` is matched against.
    pub key: String,
    pub desc: String,
    /// Everything needed to re-execute it.
    pub replay: Value,
}

#[derive(Clone, Debug, Default)]
pub struct Partial {
    /// Summable counters (`executions`, `transitions`, `evaluations`, ...).
    pub counts: BTreeMap<String, u64>,
    /// Distinct state digests (unioned across shards).
    pub digests: BTreeSet<u64>,
    /// Distinct outcome / class descriptors (unioned across shards).
    pub outcomes: BTreeSet<String>,
    /// Vacuity witnesses: must all be > 0 after merging, otherwise the run is a machinery error.
    pub witnesses: BTreeMap<String, u64>,
    pub samples: Vec<Value>,
    pub violations: Vec<Violation>,
    pub capped: bool,
    pub notes: Vec<String>,
    /// Max-merged gauges (`max_completion_ms`, bounds actually completed, ...).
    pub gauges: BTreeMap<String, u64>,
}

impl Partial {
    pub fn add(&mut self, key: &str, n: u64) {
        *self.counts.entry(key.to_string()).or_insert(0) += n;
    }
    pub fn witness(&mut self, key: &str, hit: bool) {
        *self.witnesses.entry(key.to_string()).or_insert(0) += hit as u64;
    }
    pub fn gauge_max(&mut self, key: &str, v: u64) {
        let e = self.gauges.entry(key.to_string()).or_insert(0);
        *e = (*e).max(v);
    }
    pub fn sample(&mut self, v: Value) {
        if self.samples.len() < 6 {
            self.samples.push(v);
        }
    }
    pub fn violation(&mut self, key: impl Into<String>, desc: impl Into<String>, replay: Value) {
        let key = key.into();
        // Keep one representative per key (the first found = fewest deviations).
        if self.violations.iter().any(|v| v.key == key) {
            self.add("violations_total", 1);
            return;
        }
        self.add("violations_total", 1);
        self.violations.push(Violation {
            key,
            desc: desc.into(),
            replay,
        });
    }
    pub fn count(&self, key: &str) -> u64 {
        self.counts.get(key).copied().unwrap_or(0)
    }

    pub fn merge(&mut self, other: Partial) {
        for (k, v) in other.counts {
            *self.counts.entry(k).or_insert(0) += v;
        }
        self.digests.extend(other.digests);
        self.outcomes.extend(other.outcomes);
        for (k, v) in other.witnesses {
            *self.witnesses.entry(k).or_insert(0) += v;
        }
        for (k, v) in other.gauges {
            let e = self.gauges.entry(k).or_insert(0);
            *e = (*e).max(v);
        }
        for s in other.samples {
            self.sample(s);
        }
        for v in other.violations {
            if !self.violations.iter().any(|x| x.key == v.key) {
                self.violations.push(v);
            }
        }
        self.capped |= other.capped;
        self.notes.extend(other.notes);
    }

    pub fn to_json(&self) -> Value {
        json!({
            "counts": self.counts,
            "digests": self.digests.iter().collect::<Vec<_>>(),
            "outcomes": self.outcomes,
            "witnesses": self.witnesses,
            "gauges": self.gauges,
            "samples": self.samples,
            "violations": self.violations.iter().map(|v| json!({"key": v.key, "desc": v.desc, "replay": v.replay})).collect::<Vec<_>>(),
            "capped": self.capped,
            "notes": self.notes,
        })
    }

    pub fn from_json(v: &Value) -> Option<Partial> {
        let mut p = Partial::default();
        for (k, n) in v.get("counts")?.as_object()? {
            p.counts.insert(k.clone(), n.as_u64()?);
        }
        for d in v.get("digests")?.as_array()? {
            p.digests.insert(d.as_u64()?);
        }
        for o in v.get("outcomes")?.as_array()? {
            p.outcomes.insert(o.as_str()?.to_string());
        }
        for (k, n) in v.get("witnesses")?.as_object()? {
            p.witnesses.insert(k.clone(), n.as_u64()?);
        }
        for (k, n) in v.get("gauges")?.as_object()? {
            p.gauges.insert(k.clone(), n.as_u64()?);
        }
        p.samples = v.get("samples")?.as_array()?.clone();
        for x in v.get("violations")?.as_array()? {
            p.violations.push(Violation {
                key: x.get("key")?.as_str()?.to_string(),
                desc: x.get("desc")?.as_str()?.to_string(),
                replay: x.get("replay")?.clone(),
            });
        }
        p.capped = v.get("capped")?.as_bool()?;
        for n in v.get("notes")?.as_array()? {
            p.notes.push(n.as_str()?.to_string());
        }
        Some(p)
    }
}

/// Static description of a check, used for the evidence file.
pub struct CheckInfo {
    pub id: &'static str,
    /// "model_checking" or "exploration"
    pub level: &'static str,
    pub rule: String,
    pub assumptions: Vec<String>,
}

pub fn evidence_json(
    info: &CheckInfo,
    tier: Tier,
    seed: u64,
    merged: &Partial,
    wall_s: f64,
    new_violations: usize,
    known: &[String],
) -> Value {
    let mut cov = Map::new();
    let executions = merged.count("executions");
    let evaluations = merged.count("evaluations").max(executions);
    let states = (merged.digests.len() as u64).max(merged.count("states"));
    let transitions = merged.count("transitions");
    let distinct = merged
        .count("distinct_nontrivial")
        .max(merged.outcomes.len() as u64);
    cov.insert("evaluations".into(), json!(evaluations));
    cov.insert("distinct_nontrivial".into(), json!(distinct));
    cov.insert("rule".into(), json!(info.rule));
    cov.insert("samples".into(), json!(merged.samples));
    if info.level == "model_checking" {
        cov.insert("states".into(), json!(states));
        cov.insert("transitions".into(), json!(transitions));
        cov.insert(
            "traces_validated_against_impl".into(),
            json!(merged.count("traces_validated_against_impl").max(executions)),
        );
    }
    cov.insert("exhaustive".into(), json!(!merged.capped));
    cov.insert("capped".into(), json!(merged.capped));
    cov.insert("counts".into(), json!(merged.counts));
    cov.insert("gauges".into(), json!(merged.gauges));
    cov.insert("witnesses".into(), json!(merged.witnesses));
    cov.insert(
        "distinct_outcomes".into(),
        json!(merged.outcomes.iter().take(40).collect::<Vec<_>>()),
    );
    cov.insert("distinct_outcomes_count".into(), json!(merged.outcomes.len()));
    cov.insert("notes".into(), json!(merged.notes));
    cov.insert("known_findings_reproduced".into(), json!(known));
    json!({
        "property_id": info.id,
        "tier": tier.name(),
        "seed": seed,
        "level": info.level,
        "coverage": Value::Object(cov),
        "assumptions": info.assumptions,
        "wall_s": wall_s,
        "violations": new_violations,
    })
}

pub struct KnownFindings {
    pub known: Vec<(String, String, String)>, // (property, key, what)
}

impl KnownFindings {
    pub fn load(path: &str) -> KnownFindings {
        let mut known = vec![];
        if let Ok(txt) = std::fs::read_to_string(path) {
            if let Ok(v) = serde_json::from_str::<Value>(&txt) {
                if let Some(arr) = v.get("known").and_then(|k| k.as_array()) {
                    for k in arr {
                        if let (Some(p), Some(key)) = (
                            k.get("property").and_then(|x| x.as_str()),
                            k.get("key").and_then(|x| x.as_str()),
                        ) {
                            known.push((
                                p.to_string(),
                                key.to_string(),
                                k.get("what")
                                    .and_then(|x| x.as_str())
                                    .unwrap_or("")
                                    .to_string(),
                            ));
                        }
                    }
                }
            }
        }
        KnownFindings { known }
    }

    pub fn lookup(&self, property: &str, key: &str) -> Option<&str> {
        self.known
            .iter()
            .find(|(p, k, _)| p == property && k == key)
            .map(|(_, _, w)| w.as_str())
    }
}

pub fn hex(b: &[u8]) -> String {
    b.iter().map(|x| format!("{x:02x}")).collect()
}

pub fn unhex(s: &str) -> Option<Vec<u8>> {
    if s.len() % 2 != 0 {
        return None;
    }
    (0..s.len() / 2)
        .map(|i| u8::from_str_radix(&s[2 * i..2 * i + 2], 16).ok())
        .collect()
}
