#!/bin/bash
# usage: seeded_run.sh <seeded dir name> <tier> <check ids...>  -- runs the checks against the seeded change and records the verdicts in meta.json
D=/verif/seeded/$1; TIER=$2; shift 2
P=$D/$(python3 -c "import json;print(json.load(open('$D/meta.json'))['apply_to_current_tree'])")
out=$(SYNC=${SYNC:-1} /verif/tools/trial.sh "$P" "$TIER" "$@" 2>&1)
echo "$out" | cut -c1-220
python3 - "$D" "$TIER" "$out" <<'PY'
import json,sys,re
d,tier,out=sys.argv[1],sys.argv[2],sys.argv[3]
m=json.load(open(d+'/meta.json'))
cur=None
for l in out.splitlines():
    g=re.match(r'== (C\d+) rc=(\d+)',l)
    if g:
        cur=g.group(1); m['detected_by'][f'{cur} {tier}']={'exit':int(g.group(2)),'keys':[]}
    g=re.search(r'violation \[([^\]]+)\]',l)
    if g and cur: m['detected_by'][f'{cur} {tier}']['keys'].append(g.group(1))
    if 'PATCH DOES NOT APPLY' in l: m['detected_by']['error']='patch does not apply to current tree'
json.dump(m,open(d+'/meta.json','w'),indent=1)
PY
