#!/usr/bin/env python3
"""Regenerates the seeded-change table of DESIGN.md (between the SEEDED-TABLE markers) from seeded/*/meta.json."""
import subprocess, re
t = subprocess.run(["python3", "/verif/tools/seeded_table.py"], capture_output=True, text=True).stdout
p = "/verif/DESIGN.md"; s = open(p).read()
s = re.sub(r"<!-- SEEDED-TABLE-BEGIN -->.*?<!-- SEEDED-TABLE-END -->", lambda m: "<!-- SEEDED-TABLE-BEGIN -->\n" + t + "<!-- SEEDED-TABLE-END -->", s, flags=re.S)
open(p, "w").write(s)
