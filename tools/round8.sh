#!/bin/bash
# usage: round4.sh <ID> <checks...>  -- confirm (base HEAD) and try both round-8 changes of a property
ID=$1; shift
mkdir -p /tmp/mut8/results
for m in m1 m2; do
  d=/tmp/mut8/$ID/_out/$m
  [ -f $d/patch.diff ] || { echo "$ID $m: missing"; continue; }
  echo "#### $ID $m"
  BASE=HEAD /verif/tools/confirm_mutant.sh $d | cut -c1-200 | tee -a /tmp/confirm_round8.log
  /verif/tools/trial.sh $d/patch.diff quick "$@" 2>&1 | grep -v KNOWN | cut -c1-330 | tee /tmp/mut8/results/$ID-$m.log | head -12
done
