#!/usr/bin/env python3
"""round8_prompts.py -- writes /tmp/mut8/<ID>.prompt for every property: the agent template + the mechanisms already used in earlier rounds"""
import json, glob, os
props = {json.loads(l)["id"]: json.loads(l) for l in open("/verif/properties.jsonl")}
tmpl = open("/verif/seeded/AGENT_PROMPT.tmpl").read()
for pid, p in props.items():
    used = []
    for d in sorted(glob.glob(f"/verif/seeded/{pid}-*")):
        m = json.load(open(d + "/meta.json"))
        used.append("- " + m["needs_to_manifest"])
    wt = f"/tmp/mut8/{pid}"
    t = (tmpl.replace("@WT@", wt).replace("@TITLE@", p["title"]).replace("@STATEMENT@", p["statement"]).replace("@QUANT@", p["quantifier"]["text"]))
    mech = "\n".join(f"  - {m['name']} ({m['where']})" for m in p.get("anchors", {}).get("mechanism", []))
    state = "\n".join(f"  - {m['name']}: {m['meaning']} ({m['where']})" for m in p.get("anchors", {}).get("state", []))
    t += "\n\nThe property is anchored in these mechanisms of the code (line numbers are approximate):\n" + mech + ("\nand this state:\n" + state if state else "") + "\nThese sites have been mutated many times already (see the list below). This time think like a user with an unusual but LEGAL setup, and like time passing: every value a caller or a remote peer may legally choose at its extreme (sequence numbers 0, negative and i64::MAX/MIN, salts of 0/1/64 bytes, values of 0/1/999/1000 bytes, ports 0/1/65535, ids that are all zeros / all ones / equal to the node's own, implied_port and read-only flags with unusual integers, 2-byte versus 4-byte transaction ids, answers with 0 or 70 nodes), every builder/config combination (server_mode, public_ip, port, custom ServerSettings capacities and filters, bootstrap lists with duplicates / the node's own address / malformed entries, no_bootstrap + extra_bootstrap), and multi-step histories that cross a timer (the 5-minute token life and secret rotation, the 5-minute ping round, the 15-minute refresh and staleness, the adaptive request timeout, the 45-second signed-announce window) or re-use state left by an EARLIER call (the lookup cache, the in-flight table, a failed or superseded put, an address vote, a re-keyed id). Prefer sites that are NOT listed above."
    t += ("\n\nADDITIONAL NOTES.\n* The tree contains code guarded by `cfg(mainline_verif)` (src/verif.rs and scattered cfg'd lines). Ignore it: do not edit it, do not rely on it, and make sure your change leaves those lines syntactically intact (the crate is also built with `RUSTFLAGS='--cfg mainline_verif --cfg getrandom_backend=\"custom\"'` by another party - your change must not make THAT build fail for trivial reasons such as using a std-only method on Instant that you could avoid).\n"
          "* Earlier rounds already produced changes built on the following mechanisms. Pick DIFFERENT mechanisms and different code sites, ideally in layers or code paths not mentioned below (think about: the sync `Dht` API vs the async one, builder/config options, caches and their invalidation, timers and maintenance rounds, counters and their widths, ordering of steps inside one tick, the interaction of two queries on one target, routing-table maintenance, IPv4 address handling, rarely used message fields, long uptimes, large networks):\n"
          + "\n".join(used) + "\n"
          "* Use a separate cargo target directory inside your worktree (the default `target/`), and at most 4 parallel jobs (`--build-jobs 4 --test-threads 4` for nextest, `-j 4` for cargo build) so that other work on this machine is not starved.\n")
    open(f"/tmp/mut8/{pid}.prompt", "w").write(t)
print("ok")
