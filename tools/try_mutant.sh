#!/bin/bash
# usage: try_mutant.sh <patch.diff> <tier> <ID> [<ID>...]
# Applies a seeded change to /repo, runs the given checks, and always restores /repo.
P="$1"; TIER="$2"; shift 2
cd /repo || exit 2
if [ -n "$(git status --porcelain --untracked-files=no)" ]; then echo "repo dirty, refusing"; exit 2; fi
if ! git apply --check "$P" 2>/dev/null; then
  if ! git apply --check -C1 "$P" 2>/dev/null; then echo "PATCH DOES NOT APPLY: $P"; exit 3; fi
  git apply -C1 "$P"
else
  git apply "$P"
fi
trap 'git -C /repo checkout -- . ' EXIT
for id in "$@"; do
  out=$(/verif/vcheck "$id" "$TIER" 2>&1); rc=$?
  echo "== $id rc=$rc"; echo "$out" | grep -E "violation \[|VIOLATION|MACHINERY|KNOWN" | cut -c1-260 | head -8
done
