#!/bin/bash
# usage: confirm_mutant.sh <dir with patch.diff demo.diff> -> prints CONFIRMED / REJECTED with reasons
# Works in a scratch worktree of the pinned base commit; removes it afterwards.
D="$1"; BASE=${BASE:-bbf5222}; PATCH=${PATCH:-patch.diff}
WT=/tmp/confirm/wt.$$; mkdir -p /tmp/confirm
export CARGO_TARGET_DIR=/tmp/confirm/target CARGO_NET_OFFLINE=true
git -C /repo worktree add --detach "$WT" $BASE >/dev/null 2>&1 || { echo "REJECTED $D: worktree"; exit 1; }
cleanup() { git -C /repo worktree remove --force "$WT" >/dev/null 2>&1; }
trap cleanup EXIT
cd "$WT"
run() { cargo nextest run --workspace --no-fail-fast --offline --test-threads 8 2>&1; }
flaky='closest_nodes::tests::simulation|concurrent_put_mutable_different'
(git apply "$D/demo.diff" 2>/dev/null || patch -s -p1 -F3 < "$D/demo.diff") || { echo "REJECTED $D: demo.diff does not apply"; exit 1; }
o1=$(run); f1=$(echo "$o1" | grep -E "^\s+FAIL" | grep -vE "$flaky" | sort -u)
if [ -n "$f1" ]; then echo "REJECTED $D: demo fails WITHOUT the change: $f1"; exit 1; fi
echo "$o1" | grep -q "Summary" || { echo "REJECTED $D: build failed without change"; echo "$o1" | tail -5; exit 1; }
git apply "$D/$PATCH" || { echo "REJECTED $D: patch.diff does not apply"; exit 1; }
o2=$(run); echo "$o2" | grep -q "Summary" || { echo "REJECTED $D: build failed with change"; echo "$o2" | tail -5; exit 1; }
f2=$(echo "$o2" | grep -E "^\s+FAIL" | grep -vE "$flaky" | sed 's/.*\] *//' | sort -u)
demo_fail=$(echo "$f2" | grep -i demo)
other_fail=$(echo "$f2" | grep -vi demo | grep -v '^$')
if [ -z "$demo_fail" ]; then echo "REJECTED $D: demo does not fail with the change"; exit 1; fi
if [ -n "$other_fail" ]; then echo "REJECTED $D: existing tests fail with the change: $other_fail"; exit 1; fi
echo "CONFIRMED $D: suite passes with change; demo fails with change ($(echo "$demo_fail" | wc -l) tests), passes without"
