#!/usr/bin/env python3
"""Regenerates /verif/MANIFEST.json from the table below (single source of truth)."""
import json, subprocess

HOOK_COMMITS = ["d85c6ee", "170bde9", "43ffa35", "8043914", "4c6f2d6", "8d2eb59", "c0750bc", "07810ed", "03e130d"]

# id -> (engine, category, technique, level text, level note, design ref)
CHECKS = {
 "C20": ("E1-simnet-explorer", "model_checking",
   "three parts: (a) quiescence snapshots after every enumerated call-overlap and single-fault schedule on a real node, (b) explicit-state BFS over the real Server with small capacities against an exact-LRU reference plus a cache-rolling history on a real node, (c) exhaustive enumeration of lookup/put histories on a real node with the statistics counters recomputed from the cached lookups after every step",
   "(a) every ordered pair of the 13 API calls at every placement of the second call inside the first call's lifetime and every single-fault schedule of every single call is followed by a quiet period, after which the node snapshot must hold no per-call state; (b) all request histories to depth 4 (quick) / 6 (thorough) against Servers with capacities 1..3 and asymmetric shapes, and 1007 lookups over 1003 targets rolling the 1000-entry lookup cache; (c) all 15^3 (quick) / 15^4 (thorough) histories over 5 operations x 3 targets plus a 3-hour refresh timeline, counters compared after every completed lookup. The stores also get one info hash announced to by 24 peers (replies are then samples of the store; the 27th announcer overflows the capacity of 26), and the histories include a target whose lookups nobody answers, looked up twice with one other step before, between or after. Networks of one and two peers with lookups whose target is a peer's id (all 4^3 kind sequences); stores whose immutable and mutable capacities differ. Also histories that return to a target after six idle minutes (expired tokens), and an adaptive node with configured capacities whose stores are filled after it became a server.",
   "Floating-point sums compared with a tolerance scaled by the largest sample seen; an early eviction of the LRU entry is accepted.", "DESIGN.md section 6, C20"),
  "C14": ("E1-simnet-explorer", "model_checking",
   "exhaustive enumeration of single (thorough: pairs of) timeline deviations over multi-hour virtual-time runs of real nodes on the simulated network; oracle from the datagram log at every maintenance boundary",
   "An observer and four real peers run for 65 (quick) / 180 (thorough) virtual minutes on a private and a public IP plan; every crash / restart-under-a-new-id / observer-lookup at every 5-minute boundary +-1 s and mid-interval, late joiners, observer-before-bootstrap start-up and two-stage crashes are each run to the horizon, and at every boundary the table is compared with who answered whom and when according to the network log. The observer is also run in the default adaptive mode (promoted to server at its first refresh), steady and with a peer crashing at every placement.",
   "Loss-free network; 'about 20 minutes' read as 21 minutes.", "DESIGN.md section 6, C14"),
  "C01": ("E1-simnet-explorer", "model_checking",
   "exhaustive enumeration of small real-node networks (shapes, join orders, writer/reader pairs, data kinds, IP plans) crossed with every admissible crash set, on the simulated network",
   "Networks of 1..3 servers + 0..1 clients (quick) / 1..4 + 0..2 (thorough) built by real joins: for every (writer, reader) pair and each of six data kinds the put runs through the public API, the acknowledging set is read from the datagram log, every crash set that leaves an acknowledging node other than the reader alive (and the reader a live contact) is applied in its own world, and the reader's public-API lookup must return the value; variants with a reader lookup already in flight, a lookup 60 s later, two overlapping callers, a reader whose lookup cache for the key predates the last joiner, and a reader with its own put for the key in flight; thorough adds single latency deviations and fixed 20- and 50-node shapes. The plain, two-caller and own-put variants are also run through the blocking Dht API (one helper thread per call, settled inside the simulated world). The unsalted mutable item carries sequence number 0 (the reader's own older one -1).",
   "Honest nodes, latencies below the request timeout; the 50..300-node success-rate clause is statistical and not decided.", "DESIGN.md section 6, C01"),
  "C13": ("E1-simnet-explorer", "model_checking",
   "exhaustive enumeration of join orders, start timings, bootstrap-list shapes and IP plans over networks of real nodes on the simulated network",
   "Networks of 1..3 (quick) / 1..4 (thorough) real server nodes plus fixed 8- and 20-node shapes: every permutation of id classes over join positions x 5 start timings x 4 bootstrap-list shapes x public/private plan; bootstrapped() results, table contents, strong connectivity of the knows-graph, 'every lookup asks every server' (from the datagram log) and the dead-list verdict are checked on every network. What Info and to_bootstrap() report is compared with each node's state right after the joins and at the end; networks of 1..10 (thorough ..30) nodes are also built by the library's own blocking Testnet::new inside the simulated world and judged the same way. Thorough: 50-, 100- and 300-node networks with the connectivity verdict. Every third node's bootstrap list starts with entries that are not addresses; every fourth node's transaction-id counter starts past 65535.",
   "Loss-free network; above 20 joiners only the connectivity verdict (thorough tier: up to 300 nodes).", "DESIGN.md section 6, C13"),
  "C18": ("E1-simnet-explorer", "model_checking",
   "exhaustive enumeration of request kinds, read-only flag assignments and NAT x vote x configuration timelines on real nodes over a simulated network with a virtual clock",
   "Real client and server nodes on the simulated network: every request kind (valid and every single-field deviation) to a client; scripted requesters with every ro flag value against servers with/without a bootstrap list; every subset of responders / storers flagging ro on lookups and on put acknowledgements; adaptive, explicit-server and public_ip nodes over 35 virtual minutes for every NAT rule and vote pattern (thorough: plus every single lost datagram in the first 10 s). The mode switch, the self ping, the firewalled flag and table contents are read from snapshots and the datagram log. The public Info accessors are compared with that state, and every adaptive / public_ip timeline is run again with the application calling bootstrapped() at minutes 10 and 24. Five vote patterns (the lying minority below / above the true address / true IP with a higher port), a DHT node sharing the observed node's public IP that pings it, and a configured request filter that must still be consulted after the node became a server. Also a lone bootstrap server with an empty table as the only voter (switch due at the first refresh when nothing is lost) and timelines whose request filter also vetoes the node's own IP.",
   "Tie votes accept either outcome; four voting peers.", "DESIGN.md section 6, C18"),
  "C05": ("E3-enumeration", "exploration",
   "bounded-exhaustive grammar enumeration through the real decoder (catch_unwind) and delivery of the single-deviation neighbourhood to live real nodes on the simulated network, followed by liveness probes",
   "All single and double field-level deviations (17 classes x every field), every subset of fields absent, and structural damage of all 17 KRPC message shapes go through the real decoder; every single-deviation datagram is delivered to live server- and client-mode nodes, as the (right address, right tid) reply to every lookup kind and - with all error codes and code mixes in all arrival orders - to every put kind; all reply-latency timelines of length 7 (quick) / 9 (thorough) over {10 ms, 520 ms, 3 s}. Actor threads must survive, probes (ping, info, put+get) must succeed, no API future may panic. Hostile contents of the right type are included (multi-byte and invalid UTF-8 in every text field at every byte alignment, keys that are not curve points, the receiver's own id and address, zero ports, extreme integers, the longest lists a datagram carries), and every write-shaped datagram is delivered a second time with a token the server has just issued to the sender.",
   "A grammar neighbourhood, not all byte strings; optimised build with integer overflow checks on.", "DESIGN.md section 6, C05"),
  "C17": ("E1-simnet-explorer", "model_checking",
   "exhaustive enumeration of second-call relations x placements and of storer reply splits x arrival orders against a real node over a simulated network",
   "A real node with scripted storers: the second put_mutable in every relation (identical / lower / equal-other / higher seq x cas none / matching / other x salted or not) is placed before every event of the first put's lifetime and after it, with the expected local verdict derived from whether the node's snapshot shows the first put in flight; every split of ack/301/302 among 3 (quick) / 3-4 (thorough) storers in every arrival order for mutable puts, and for the other put kinds through the typed sync-equivalent async APIs. Both parts are also run through the blocking Dht API; an accepted second put must reach a storer; every storer reply is also delivered two and three times (one vote all the same). Part 3 puts real storage nodes (they honour cas) in place of the scripted ones: an identical second call before every event of a put(seq 5, cas none / 4) after a stored seq 4 - both Ok, seq 5 held.",
   "Scripted storers ack everything in part 1.", "DESIGN.md section 6, C17"),
  "C06": ("E1-simnet-explorer", "model_checking",
   "exhaustive enumeration of call overlaps and deviation-bounded exploration of fault schedules on a real node over a simulated network; completion oracle at a virtual-time horizon",
   "A real node with three peers: every ordered pair of the 13 API calls with the second placed before every network event of the first and inside/outside the cache window; every single call under every single (thorough: pair of) dropped / duplicated / late datagram and every peer failure point, against scripted and against real server peers; every ordered pair of put/announce calls on different targets queued together under every single fault; unread sync iterators held open. Every call must resolve exactly once within 120 virtual seconds and the actor must survive. The pairs and the single-fault schedules are also run through the blocking Dht API (typed methods on helper threads).",
   "Latency 10 ms, late = 900 ms; three peers.", "DESIGN.md section 6, C06"),
  "C02": ("E1-simnet-explorer", "model_checking",
   "exhaustive enumeration of Byzantine answer assignments and arrival orders against a real reader node over a simulated network, independent re-verification of everything the API surfaces",
   "A real node runs every lookup API over 3 scripted endpoints; every assignment of a forgery-menu answer (8-10 classes incl. type confusion, other key, other salt, replay from the other slot, bit flips) to every endpoint in every arrival order is executed, alone and with a second caller (or the node's own put) sharing the still-active lookup; each surfaced element is re-verified with sha1/ed25519 by the harness. Signed-peer lists of 16 records (forged last) are on the menu, the node's own put of every kind may be in flight, and the lookups are also made through the blocking Dht API. Beyond the cube menu: a non-UTF-8 value with a byte-swapped replay under the same signature, two genuine records of one key in one signed-peers answer. A server-mode reader whose address vote was won by a responder's own address and confirmed by that responder's ping gives that responder no trust.",
   "Forgery classes rather than all byte strings; oracle trusts sha1_smol and ed25519-dalek verification.", "DESIGN.md section 6, C02"),
  "C07": ("E1-simnet-explorer", "model_checking",
   "exhaustive enumeration of endpoint behaviours around the K=20 boundary against a real initiator over a simulated network; verdict computed from the lookup's own datagram trace",
   "A real node runs each lookup kind over 3..26 scripted endpoints with BEP42-secure ids; every choice of up to 2 (quick) / 3 (thorough) varying endpoints at ranks 1,2,19,20,21,22 x 7 list behaviours x 3 initial-knowledge shapes is executed, plus get_immutable of a 1000-byte value whose holder's ~1.7 kB answer is the only source of the closest node, plus every single latency deviation (answers overtaking each other) on the base shapes; closure, the reported / stored-to set and the never-ask-again rule are decided from the trace alone. Also 60 endpoints (thorough: 150, 300) and a second lookup of the same target within the life of its cached responders after some of them fell silent.",
   "Loss-free network; sizes above 26 are represented by the ranks relative to the 20-boundary.", "DESIGN.md section 6, C07"),
  "C08": ("E1-simnet-explorer", "model_checking",
   "exhaustive enumeration of storer behaviours and reply arrival orders against a real writer node over a simulated network, oracle computed from the network log",
   "A real writer runs every put kind against 1-3 (quick) / 1-4 (thorough) scripted storing endpoints under every assignment of {no token, ack, 203, 205, 301, 302, 201, silence, late ack, ack flagged ro=1} and every arrival order, plus replica sets of 255/256/257/300 nodes through extra_nodes; the result is judged against which acknowledgements and 301/302 replies the log shows were delivered in time, and every write datagram is checked to go to a token issuer with its own token. A put in its store phase is also crossed with another lookup of the same target that ends with tokens, without tokens, with errors only or in silence; the main matrix is repeated through the blocking Dht API. Puts on a slow network: the request timeout has adapted (read from the snapshot), 1..24 storers acknowledge 40 ms inside it, with and without a warm-up put.",
   "Optimised build with integer overflow checks on; acknowledgements delivered before the request timeout current at that time count as in time.", "DESIGN.md section 6, C08"),
  "C09": ("E1-simnet-explorer", "model_checking",
   "deviation-bounded exhaustive exploration of adversarial injections and reply faults on a real node over a simulated network, differential oracle against the unperturbed run",
   "A real node (real actor thread, socket layer and codec) runs a lookup and a put over scripted endpoints; at every network event an adversary may inject every (kind x guessable transaction id x wrong source) message, and every genuine reply may be duplicated, lost, delayed past its timeout or both; all single deviations (quick), pairs of injections over the sharpest kinds (thorough) and all pairs of reply fates with a silent node keeping the lookup open (at-most-once oracle) are enumerated, as is every start position of the node's transaction-id counter around the 16-bit boundary and the 32-bit wrap-around (differential against the fresh node) and each execution's observable outcome (call results, routing tables, cached nodes, address votes, stored values) must equal the unperturbed one. On a node whose ids are above 65536 the addressed peer itself sends ids congruent to the outstanding one modulo 65536 (or its two low bytes) before the genuine reply; a request sent to an unspecified address is answered from another port. A timed-out but still listed request is answered from a wrong address while a younger request keeps the lookup open; genuine replies are duplicated on a node whose ids straddle the 32-bit wrap.",
   "One operation scenario (get then put, 3 endpoints); forged messages from the right address are outside the oracle.", "DESIGN.md section 6, C09"),
  "C12": ("E2-explicit-state", "model_checking",
   "explicit-state BFS over operation sequences whose state is the real RoutingTable plus the virtual clock; invariants on every state, transition relation on every step",
   "From six initial states (empty, 19/20-node buckets, aged across the 15-minute staleness boundary, stale head with fresh tail) every sequence of up to 5 (quick) / 6 (thorough) operations over a 21-action alphabet (adds that stress the bucket and the per-IP rules, removes, re-keys, clock steps) is executed on the real table; structural and Sybil invariants are checked in every state and the eviction rule across every add. Plus two sweeps judged by the same invariants: a five-id family on 26 addresses at both sides of every BEP42 exemption boundary in all 120 add orders, and one node per first-differing bit (160) in three orders; an accepted or re-heard node (alone on its IP) is stamped with the current time even in a full bucket.",
   "Node ids/IPs come from a fixed pool; BEP42 security decided by the independent reference.", "DESIGN.md section 6, C12"),
  "C03": ("E2-explicit-state", "model_checking",
   "explicit-state BFS over request histories on clones of the real Server, reference model in lock-step",
   "All request histories up to depth 6 (quick) / 8 (thorough) over five sub-alphabets (valid and invalid writes of every kind, token provenance classes, boundary sizes, timestamps around +-45 s, clock steps around the rotation period, request filter) are executed against the real Server through the real codec; every reply and the stored state are compared with a reference model after every transition. Further sub-alphabets: the same announcer announcing again (other port, implied port, newer timestamp), and one info hash with 24 announcers (replies are samples: 1..=20 distinct accepted ones). Sizes that look small in 8 bits (salts 256/300/320, values 1256/1700/1900 bytes); priming steps are judged like every other step. announce_peer with implied_port 2 and 255.",
   "States hold real Server clones; capacities 8/4/4 instead of defaults; a selection of the explored histories is replayed byte-for-byte through a full threaded node (E1) to bind the Server-level search to the running system.", "DESIGN.md section 6, C03"),
 "C04": ("E2-explicit-state", "model_checking",
   "explicit-state BFS to a fixpoint over put/get histories on clones of the real Server, BEP44 reference state machine in lock-step",
   "The reachable state space of a Server under the put/get alphabet (seq 1..4, cas variants, two writers, keys, salted slot, capacities 1/2/8) is explored until no new state appears; every reply is compared with the BEP44 reference and the stored seq is checked for monotonicity on every transition. A present-but-empty salt shares its target with the unsalted slot: seq and cas apply across the two.",
   "Equal-seq-different-value is treated as unspecified; tokens are always fresh here.", "DESIGN.md section 6, C04"),
 "C15": ("E2-explicit-state", "model_checking",
   "explicit-state BFS over request/clock timelines on clones of the real Server, token-epoch reference in lock-step",
   "All timelines up to depth 6 (quick) / 8 (thorough) of token-yielding reads, writes presenting tokens of every provenance (own latest/oldest, adversarially close IP, other IP, other server, mutated, resized, empty) and clock steps around the 5-minute rotation are executed against the real Server; must-accept / must-reject / either verdicts follow the statement. One configuration presents a token from each of the 32 addresses that differ from its owner's in exactly one bit. Senders without a token probing a stored item (stale seq, failing cas) must get 203, never 301/302.",
   "The 2^32 token values are not enumerated.", "DESIGN.md section 6, C15"),
  "C10": ("E3-enumeration", "exploration",
   "bounded-exhaustive enumeration of message values through the real codec, against an independent strict bencode reader and an independently built wire tree",
   "Every message kind with every optional-field combination over boundary menus is encoded, independently re-parsed (canonical form, BEP key names, compact formats) and decoded back; the BEP5 example messages are decoded and re-encoded; exhaustive over the stated menus.",
   "Trusts the harness' own bencode reader and tree builder (written from the BEPs, sharing no code with the crate).", "DESIGN.md section 6, C10"),
 "C11": ("E3-enumeration", "exploration",
   "bounded-exhaustive enumeration of insertion sequences through the public ClosestNodes/RoutingTable API, against a brute-force sort",
   "Every subset of a 7-node universe that realises each relation the ordering and the same-IP rule inspect, in every insertion order, for several targets and table ids, plus 21-24 node sets under rotations/transpositions for the K cut and the parameter grid of take_until_secure; exhaustive inside those bounds. Tables with members not heard from for 16 minutes, and the node lists a Server puts in find_node / get_peers / get / get_signed_peers answers for every size relation of its main and signed-peers tables (at most 20, distinct, as full as the tables allow, closest first). For every enumerated table the storage-node selection (closest_secure) must be a prefix of the secure-first order. The node lists of answers that carry data (value, item, peers, signed peers held) equal those of a miss; the insecure id on the shared IP matches 20 of the 21 prefix bits.",
   "Security of ids is decided by the harness' independent BEP42/CRC32C reference.", "DESIGN.md section 6, C11"),
  "C16": ("E3-enumeration", "exploration",
   "bounded-exhaustive enumeration of response streams fed through the real handle's channel, and of replica version assignments x arrival orders on a real node over the simulated network, against a max-fold reference",
   "Every stream of up to 5 (quick) / 7 (thorough) items over an 8-item alphabet covering gaps, duplicates and ties is delivered to the real sync and async functions by a harness-played actor; in addition a real node looks the key up over 3 scripted replicas under every assignment of 5 versions and every arrival order; exhaustive within those bounds. The live part also runs with one or two earlier callers that take one item and drop their stream, and through the blocking Dht API. The live lookups also for a salted item, alone and during the node's own put of it.",
   "Trusts flume FIFO order; authenticity of delivered items is C02's concern.", "DESIGN.md section 6, C16"),
 "C19": ("E3-enumeration", "exploration",
   "bounded-exhaustive input enumeration against an independent reference (model-checking family: every input shape up to a bound)",
   "Every input class the id arithmetic distinguishes is enumerated completely (all first-differing-bit positions, all short strings over 14 character classes and the 1-2-edit neighbourhood of valid hex strings, the whole masked BEP42 input space) and compared with independent references; exhaustive inside those bounds, nothing sampled. from_ipv4 at boundary and special addresses (0.0.0.0, broadcast, multicast, exemption boundaries).",
   "Trusts rustc/std and the harness' own bitwise CRC32C; ids outside the enumerated fill patterns are covered by the argument that the functions only inspect the prefix/XOR structure.", "DESIGN.md section 6, C19"),
}

ENGINES = [
 ("E1-simnet-explorer", "harness/src/sim.rs, harness/src/explore.rs", "whole real nodes (real actor threads parked on a baton) on a virtual clock and in-memory network; deviation-bounded stateless DFS over fault/latency/placement choices; every execution runs the implementation"),
 ("E2-explicit-state", "harness/src/checks", "breadth-first explicit-state search whose states are clones of the real objects, reference model in lock-step on every transition"),
 ("E3-enumeration", "harness/src/checks", "bounded-exhaustive input enumeration against independent references (C05 additionally delivers the enumerated datagrams to live real nodes through E1)"),
]

def main():
    props = [json.loads(l) for l in open('/verif/properties.jsonl')]
    try:
        old = json.load(open('/verif/MANIFEST.json'))
    except Exception:
        old = {}
    na_reasons = {x['property_id']: x['reason'] for x in old.get('not_applicable', [])}
    m = {
     "version": 1,
     "setup_cmd": "./vcheck --setup",
     "hooks": {
       "guard": "mainline_verif",
       "enable": "cd /verif/harness && cargo build --release --offline  (rustflags `--cfg mainline_verif --cfg getrandom_backend=\"custom\"` come from /verif/harness/.cargo/config.toml; the harness path-depends on /repo, so every check rebuilds from the current working tree)",
       "baseline_off_cmd": "cd /repo && cargo nextest run --workspace --no-fail-fast --offline --test-threads 8",
       "source_commits": HOOK_COMMITS,
       "add_only": True},
     "engines": [{"name": n, "path": p, "serves_properties": sorted(i for i, c in CHECKS.items() if c[0] == n), "kind_free_text": k} for n, p, k in ENGINES],
     "checks": [],
     "notes": "See DESIGN.md. Exit codes of every check: 0 held (KNOWN-FINDING lines possible), 1 VIOLATION, 2 machinery error (never a verdict). known_findings.json lists genuine defects (fixed or recorded).",
     "not_applicable": [],
    }
    for p in props:
        i = p['id']
        if i in CHECKS:
            eng, cat, tech, text, note, ref = CHECKS[i]
            m['checks'].append({
              "property_id": i, "quick_cmd": f"./vcheck {i} quick", "thorough_cmd": f"./vcheck {i} thorough",
              "evidence_file": f"evidence/{i}.json", "replay_cmd_template": f"./vcheck {i} --replay {{path}}",
              "engine": eng, "level_claimed": {"category": cat, "text": text, "design_ref": ref},
              "level_note": note, "technique": tech})
        else:
            m['not_applicable'].append({"property_id": i, "reason": na_reasons.get(i, "check under construction in this session (planned, see DESIGN.md section 6); not yet claimed")})
    json.dump(m, open('/verif/MANIFEST.json', 'w'), indent=1)
    print("checks:", [c['property_id'] for c in m['checks']])

main()
