#!/usr/bin/env python3
import json,glob,os
rows=[]
for d in sorted(glob.glob('/verif/seeded/C*-m*')):
    m=json.load(open(d+'/meta.json'))
    det=[]
    for k,v in m.get('detected_by',{}).items():
        if isinstance(v,dict):
            det.append(f"{k}: {'caught' if v['exit']==1 else 'exit '+str(v['exit'])}" + (f" ({v['keys'][0]})" if v.get('keys') else ''))
    rows.append((os.path.basename(d), m['needs_to_manifest'], '; '.join(det) or '-'))
print("| seeded change | what it needs in order to manifest | checks run against it (quick tier) |")
print("|---|---|---|")
for r in rows: print(f"| {r[0]} | {r[1]} | {r[2]} |")
