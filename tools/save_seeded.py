#!/usr/bin/env python3
"""save_seeded.py <ID> <mN> "<needs>"  -- copy a confirmed seeded change from /tmp/mut into /verif/seeded/<ID>-<mN>/"""
import json, os, shutil, sys, subprocess
pid, m, needs = sys.argv[1], sys.argv[2], sys.argv[3]
RND = os.environ.get("ROUND", "1")
R2 = RND in ("2", "3", "4", "5", "6", "7", "8")   # rounds 2 and 3: sub-agents worked on the current tree (all fixes applied)
root = {"1": "/tmp/mut", "2": "/tmp/mut2", "3": "/tmp/mut3", "4": "/tmp/mut4", "5": "/tmp/mut5", "6": "/tmp/mut6", "7": "/tmp/mut7", "8": "/tmp/mut8"}[RND]
src = f"{root}/{pid}/_out/{m}"
dst = f"/verif/seeded/{pid}-r{RND}-{m}" if R2 else f"/verif/seeded/{pid}-{m}"
os.makedirs(dst, exist_ok=True)
for f in ["patch.diff", "demo.diff", "NOTES.md", "patch.rebased.diff"]:
    if os.path.exists(f"{src}/{f}"):
        shutil.copy(f"{src}/{f}", f"{dst}/{f}")
lf = {"1": "/tmp/confirm_batch1.log", "2": "/tmp/confirm_round2.log", "3": "/tmp/confirm_round3.log", "4": "/tmp/confirm_round4.log", "5": "/tmp/confirm_round5.log", "6": "/tmp/confirm_round6.log", "7": "/tmp/confirm_round7.log", "8": "/tmp/confirm_round8.log"}[RND]
log = open(lf).read() if os.path.exists(lf) else ""
conf = [l for l in log.splitlines() if f"{root}/{pid}/_out/{m}:" in l]
meta = {
  "property": pid,
  "origin": ("independent sub-agent given only the property text and a scratch worktree of the current tree (hooks and fix: commits included)" if R2 else "independent sub-agent given only the property text and a scratch worktree of the pinned base commit bbf5222"),
  "needs_to_manifest": needs,
  "confirmed": conf[-1] if conf else "NOT CONFIRMED",
  "what_i_ran": "tools/confirm_mutant.sh (scratch worktree of " + ("HEAD" if R2 else "bbf5222") + ": demo.diff alone -> cargo nextest all pass; demo.diff + patch.diff -> the 81 existing tests pass and only the demo tests fail), then " + ("tools/trial.sh <patch> quick <checks> (the change applied to a scratch worktree of /repo's HEAD, the checks run from a copy of /verif's harness pointed at that worktree; /repo itself untouched)" if RND in ("4", "5", "6", "7", "8") else "tools/try_mutant.sh <patch> quick <checks> against /repo (git apply, run, git checkout)"),
  "apply_to_current_tree": "patch.rebased.diff" if os.path.exists(f"{src}/patch.rebased.diff") else "patch.diff",
  "detected_by": {},
}
if os.path.exists(f"{dst}/meta.json"):
    old = json.load(open(f"{dst}/meta.json"))
    meta["detected_by"] = old.get("detected_by", {})
json.dump(meta, open(f"{dst}/meta.json", "w"), indent=1)
print("saved", dst, "|", meta["confirmed"][:40])
