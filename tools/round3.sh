#!/bin/bash
# usage: round3.sh <ID> <checks...>  -- confirm (base HEAD) and try both round-3 changes of a property
ID=$1; shift
for m in m1 m2; do
  d=/tmp/mut3/$ID/_out/$m
  [ -f $d/patch.diff ] || { echo "$ID $m: missing"; continue; }
  echo "#### $ID $m"
  BASE=HEAD /verif/tools/confirm_mutant.sh $d | cut -c1-200 | tee -a /tmp/confirm_round3.log
  /verif/tools/try_mutant.sh $d/patch.diff quick "$@" 2>&1 | grep -v KNOWN | cut -c1-330 | head -6
done
