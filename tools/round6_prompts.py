#!/usr/bin/env python3
"""round6_prompts.py -- writes /tmp/mut6/<ID>.prompt for every property: the agent template + the mechanisms already used in earlier rounds"""
import json, glob, os
props = {json.loads(l)["id"]: json.loads(l) for l in open("/verif/properties.jsonl")}
tmpl = open("/verif/seeded/AGENT_PROMPT.tmpl").read()
for pid, p in props.items():
    used = []
    for d in sorted(glob.glob(f"/verif/seeded/{pid}-*")):
        m = json.load(open(d + "/meta.json"))
        used.append("- " + m["needs_to_manifest"])
    wt = f"/tmp/mut6/{pid}"
    t = (tmpl.replace("@WT@", wt).replace("@TITLE@", p["title"]).replace("@STATEMENT@", p["statement"]).replace("@QUANT@", p["quantifier"]["text"]))
    mech = "\n".join(f"  - {m['name']} ({m['where']})" for m in p.get("anchors", {}).get("mechanism", []))
    state = "\n".join(f"  - {m['name']}: {m['meaning']} ({m['where']})" for m in p.get("anchors", {}).get("state", []))
    t += "\n\nThe property is anchored in these mechanisms of the code (line numbers are approximate):\n" + mech + ("\nand this state:\n" + state if state else "") + "\nThese sites have been mutated many times already (see the list below). This time prefer changes that are NOT at these sites but still break the property: two cooperating edits in different files that each look fine alone; configuration and rarely used public API surface (DhtBuilder options, ServerSettings fields, Info, the blocking Dht API versus the async one, Testnet); arithmetic (integer widths, casts, saturating versus wrapping, f64 rounding, Duration arithmetic); ordering of steps inside Actor::tick and periodic maintenance; what happens at capacity limits (full buckets, full caches, full stores, the 20-node cut); IPv4 edge cases (port 0, unspecified, loopback, private ranges); and state that survives from one query to the next (caches, the in-flight table, routing-table timestamps).\n"
    t += ("\n\nADDITIONAL NOTES.\n* The tree contains code guarded by `cfg(mainline_verif)` (src/verif.rs and scattered cfg'd lines). Ignore it: do not edit it, do not rely on it, and make sure your change leaves those lines syntactically intact (the crate is also built with `RUSTFLAGS='--cfg mainline_verif --cfg getrandom_backend=\"custom\"'` by another party - your change must not make THAT build fail for trivial reasons such as using a std-only method on Instant that you could avoid).\n"
          "* Earlier rounds already produced changes built on the following mechanisms. Pick DIFFERENT mechanisms and different code sites, ideally in layers or code paths not mentioned below (think about: the sync `Dht` API vs the async one, builder/config options, caches and their invalidation, timers and maintenance rounds, counters and their widths, ordering of steps inside one tick, the interaction of two queries on one target, routing-table maintenance, IPv4 address handling, rarely used message fields, long uptimes, large networks):\n"
          + "\n".join(used) + "\n"
          "* Use a separate cargo target directory inside your worktree (the default `target/`), and at most 4 parallel jobs (`--build-jobs 4 --test-threads 4` for nextest, `-j 4` for cargo build) so that other work on this machine is not starved.\n")
    open(f"/tmp/mut6/{pid}.prompt", "w").write(t)
print("ok")
