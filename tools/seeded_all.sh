#!/bin/bash
# usage: seeded_all.sh [tier]  -- re-run every kept seeded change against the checks recorded in its meta.json (default: quick)
TIER=${1:-quick}
for d in /verif/seeded/C*-m*; do
  n=$(basename $d)
  ids=$(python3 - "$d" <<'PY'
import json,sys
m=json.load(open(sys.argv[1]+'/meta.json'))
ids=[]
for k in m.get('detected_by',{}):
    c=k.split()[0]
    if c.startswith('C') and c not in ids: ids.append(c)
if not ids: ids=[m['property']]
print(' '.join(ids))
PY
)
  echo "#### $n -> $ids"
  /verif/tools/seeded_run.sh $n $TIER $ids 2>&1 | grep -E "^== |DOES NOT APPLY"
done
git -C /repo status --short | head -3
