#!/bin/bash
# usage: trial.sh <patch.diff> <tier> <ID> [<ID>...]
# Runs checks against a seeded change WITHOUT touching /repo or /verif: a scratch worktree of /repo's HEAD
# (/tmp/trial/repo) and a copy of /verif's harness (/tmp/trial/verif, path dependency rewritten) are used.
# SYNC=0 keeps the harness copy as it is (default: copy the current /verif working tree first).
P="$1"; TIER="$2"; shift 2
case "$P" in /*) ;; *) P="$PWD/$P";; esac
T=/tmp/trial; mkdir -p $T
exec 9>$T/lock; flock 9
HEAD=$(git -C /repo rev-parse HEAD)
if [ ! -d $T/repo ]; then git -C /repo worktree add --detach $T/repo $HEAD >/dev/null 2>&1 || { echo "cannot create trial worktree"; exit 2; }; fi
git -C $T/repo checkout -q -- . ; git -C $T/repo checkout -q --detach $HEAD || exit 2
if [ "${SYNC:-1}" = head ]; then
  # the committed state of /verif (half-edited working files cannot break a background batch)
  mkdir -p $T/verif.new && git -C /verif archive HEAD | tar -x -C $T/verif.new
  rsync -a --delete --exclude target --exclude evidence --exclude replays $T/verif.new/ $T/verif/ && rm -rf $T/verif.new
  sed -i 's#path = "/repo"#path = "/tmp/trial/repo"#' $T/verif/harness/Cargo.toml
elif [ "${SYNC:-1}" = 1 ] || [ ! -d $T/verif ]; then
  mkdir -p $T/verif
  rsync -a --delete --exclude target --exclude evidence --exclude replays --exclude seeded --exclude findings --exclude .git /verif/ $T/verif/
  sed -i 's#path = "/repo"#path = "/tmp/trial/repo"#' $T/verif/harness/Cargo.toml
fi
cd $T/repo || exit 2
if [ ! -s "$P" ]; then :; elif ! git apply --check "$P" 2>/dev/null; then
  if ! git apply --check -C1 "$P" 2>/dev/null; then echo "PATCH DOES NOT APPLY: $P"; exit 3; fi
  git apply -C1 "$P"
else
  git apply "$P"
fi
trap 'git -C /tmp/trial/repo checkout -q -- . ' EXIT
for id in "$@"; do
  out=$($T/verif/vcheck "$id" "$TIER" 2>&1); rc=$?
  echo "== $id rc=$rc"; echo "$out" | grep -E "violation \[|VIOLATION|MACHINERY|KNOWN|error(\[|:)" | cut -c1-260 | head -8
done
